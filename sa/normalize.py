"""E0b: behaviour-preserving normal form of every function body, applied when a module is loaded.

Rules that still look at statement shapes (which local is returned, which statement follows which) see the same
tree for code that differs only by
  * a value routed through a single-use temporary right before its only use (`t = e; return t`, `t = e; x = t`),
  * a dead local (a name bound to a constant and never read in the function),
  * an augmented assignment on a plain local spelled out (`x = x + e`  ->  `x += e` for + - * on names),
  * a list comprehension evaluated only for its side effects written as the loop it is.
Positions of the surviving nodes are kept, so reports still point at the source.  Nothing here changes what the
analysed code does; it only removes spellings."""
import ast


def _names_loaded(node, name):
    return sum(1 for n in ast.walk(node) if isinstance(n, ast.Name) and n.id == name and isinstance(n.ctx, ast.Load))


def _names_stored(node, name):
    return sum(1 for n in ast.walk(node) if isinstance(n, ast.Name) and n.id == name and isinstance(n.ctx, (ast.Store, ast.Del)))


def _simple_use(st, name):
    """st uses `name` exactly once, as a whole operand that is evaluated before anything with side effects"""
    if isinstance(st, ast.Return) and isinstance(st.value, ast.Name) and st.value.id == name:
        return 'return'
    if isinstance(st, ast.Assign) and isinstance(st.value, ast.Name) and st.value.id == name and _names_loaded(st, name) == 1:
        return 'assign'
    return None


class _Scope(object):
    def __init__(self, fnode):
        self.fnode = fnode
        # a function that reads its own frame (exec / locals()) keeps its temporaries
        # (occurrences are counted over the whole function including nested scopes, so a name also used in a closure is
        # never treated as single-use; only dynamic access to the frame rules the transformation out)
        self.closed = not any(isinstance(n, ast.Name) and n.id in ('locals', 'vars', 'exec', 'eval', 'globals') for n in ast.walk(fnode))
        self.params = set(a.arg for a in fnode.args.posonlyargs + fnode.args.args + fnode.args.kwonlyargs)
        if fnode.args.vararg:
            self.params.add(fnode.args.vararg.arg)
        if fnode.args.kwarg:
            self.params.add(fnode.args.kwarg.arg)
        self.glob = set()
        for n in ast.walk(fnode):
            if isinstance(n, (ast.Global, ast.Nonlocal)):
                self.glob.update(n.names)

    def local(self, name):
        return name not in self.params and name not in self.glob


def _normalize_body(body, scope):
    out = []
    i = 0
    while i < len(body):
        st = body[i]
        nxt = body[i + 1] if i + 1 < len(body) else None
        # single-use temporary right before its only use
        if scope.closed and isinstance(st, ast.Assign) and len(st.targets) == 1 and isinstance(st.targets[0], ast.Name) and nxt is not None:
            name = st.targets[0].id
            kind = _simple_use(nxt, name) if scope.local(name) else None
            if kind and _names_loaded(scope.fnode, name) == 1 and _names_stored(scope.fnode, name) == 1:
                if kind == 'return':
                    new = ast.Return(value=st.value)
                else:
                    new = ast.Assign(targets=nxt.targets, value=st.value)
                    if hasattr(nxt, 'type_comment'):
                        new.type_comment = None
                ast.copy_location(new, st)
                new.end_lineno = getattr(nxt, 'end_lineno', None)
                out.append(new)
                i += 2
                continue
        # dead local: bound to a constant, never read
        if scope.closed and isinstance(st, ast.Assign) and len(st.targets) == 1 and isinstance(st.targets[0], ast.Name) and isinstance(st.value, ast.Constant):
            name = st.targets[0].id
            if scope.local(name) and _names_loaded(scope.fnode, name) == 0 and len(body) > 1:
                i += 1
                continue
        # x = x <op> e  ->  x <op>= e   (plain local names only: no aliasing question)
        if isinstance(st, ast.Assign) and len(st.targets) == 1 and isinstance(st.targets[0], ast.Name) and isinstance(st.value, ast.BinOp) and \
                isinstance(st.value.op, (ast.Add, ast.Sub, ast.Mult)) and isinstance(st.value.left, ast.Name) and st.value.left.id == st.targets[0].id and \
                _names_loaded(st.value.right, st.targets[0].id) == 0:
            new = ast.AugAssign(target=ast.Name(id=st.targets[0].id, ctx=ast.Store()), op=st.value.op, value=st.value.right)
            ast.copy_location(new, st)
            ast.copy_location(new.target, st.targets[0])
            out.append(new)
            i += 1
            continue
        # v = [] ; for t in it: [if c:] v.append(e)   ->   v = [e for t in it [if c]]
        if isinstance(st, ast.Assign) and len(st.targets) == 1 and isinstance(st.targets[0], ast.Name) and isinstance(st.value, ast.List) and not st.value.elts \
                and isinstance(nxt, ast.For) and not nxt.orelse and len(nxt.body) == 1:
            v = st.targets[0].id
            inner = nxt.body[0]
            conds = []
            while isinstance(inner, ast.If) and not inner.orelse and len(inner.body) == 1:
                conds.append(inner.test)
                inner = inner.body[0]
            if isinstance(inner, ast.Expr) and isinstance(inner.value, ast.Call) and isinstance(inner.value.func, ast.Attribute) and inner.value.func.attr == 'append' \
                    and isinstance(inner.value.func.value, ast.Name) and inner.value.func.value.id == v and len(inner.value.args) == 1 and not inner.value.keywords \
                    and not any(isinstance(n, ast.Name) and n.id == v for x in [nxt.iter, inner.value.args[0]] + conds for n in ast.walk(x)):
                comp = ast.ListComp(elt=inner.value.args[0], generators=[ast.comprehension(target=nxt.target, iter=nxt.iter, ifs=conds, is_async=0)])
                new = ast.Assign(targets=[ast.Name(id=v, ctx=ast.Store())], value=comp)
                new.type_comment = None
                ast.copy_location(new, st)
                ast.copy_location(comp, st)
                for n in ast.walk(comp):
                    if not hasattr(n, 'lineno'):
                        ast.copy_location(n, st) if hasattr(n, '_attributes') and 'lineno' in n._attributes else None
                out.append(new)
                i += 2
                continue
        # a list comprehension evaluated for its side effects only:  [f(i) for i in X if c]  ->  for i in X: (if c:) f(i)
        if isinstance(st, ast.Expr) and isinstance(st.value, ast.ListComp) and isinstance(st.value.elt, ast.Call):
            loop = [ast.copy_location(ast.Expr(value=st.value.elt), st)]
            for g in reversed(st.value.generators):
                for cond in reversed(g.ifs):
                    loop = [ast.copy_location(ast.If(test=cond, body=loop, orelse=[]), st)]
                loop = [ast.copy_location(ast.For(target=g.target, iter=g.iter, body=loop, orelse=[], type_comment=None), st)]
            for n in ast.walk(loop[0]):
                if isinstance(n, ast.Name) and isinstance(n.ctx, ast.Load):
                    pass
            # the comprehension target becomes a loop target: mark as a store
            for n in ast.walk(loop[0]):
                if isinstance(n, ast.For):
                    for x in ast.walk(n.target):
                        if isinstance(x, ast.Name):
                            x.ctx = ast.Store()
            out.append(loop[0])
            i += 1
            continue
        out.append(st)
        i += 1
    return out


def _walk_bodies(node, scope):
    for field in ('body', 'orelse', 'finalbody'):
        b = getattr(node, field, None)
        if isinstance(b, list) and b and isinstance(b[0], ast.stmt):
            for st in b:
                if isinstance(st, (ast.FunctionDef, ast.AsyncFunctionDef, ast.ClassDef)):
                    continue
                _walk_bodies(st, scope)
            setattr(node, field, _normalize_body(b, scope))
    for h in getattr(node, 'handlers', []) or []:
        _walk_bodies(h, scope)


def normalize_tree(tree):
    for n in ast.walk(tree):
        if isinstance(n, (ast.FunctionDef, ast.AsyncFunctionDef)):
            _walk_bodies(n, _Scope(n))
    return tree
