"""E4: order abstraction for comparison-only predicates.

A predicate built from comparisons of a few named scalars (canonical terms from
sa.terms), and/or/not, numpy-style elementwise | & ~, any()/all() is evaluated
under every weak ordering of its scalars; a scalar may also be given the rank NAN
(unordered: all comparisons false except !=).
"""
import itertools

from . import terms as T


def weak_orderings(names):
    """all weak orderings of names: yields dict name -> rank (ties share a rank)"""
    names = list(names)
    n = len(names)
    seen = set()
    for ranks in itertools.product(range(n), repeat=n):
        # canonical: ranks used must be 0..k without gaps
        used = sorted(set(ranks))
        if used != list(range(len(used))):
            continue
        if ranks in seen:
            continue
        seen.add(ranks)
        yield dict(zip(names, ranks))


NAN = 'nan'      # rank of a NaN operand (unordered)


class Unknown(Exception):
    pass


def evaluate(t, rank, assume=None, transparent=('any', 'all', 'numpy.any', 'numpy.all', 'bool', 'np.any', 'np.all')):
    """evaluate predicate term t under ranking `rank` (dict term -> int).
    assume: dict term -> bool for atoms decided by assumption."""
    assume = assume or {}
    if t in assume:
        return assume[t]
    k = t[0] if isinstance(t, tuple) else None
    if k == 'cmp':
        op, a, b = t[1], t[2], t[3]
        if a in rank and b in rank:
            ra, rb = rank[a], rank[b]
            if ra is NAN or rb is NAN:      # IEEE: every ordered comparison with a NaN is false, != is true
                return op == '!='
            if op == '<':
                return ra < rb
            if op == '<=':
                return ra <= rb
            if op == '==':
                return ra == rb
            if op == '!=':
                return ra != rb
        raise Unknown(T.show(t))
    if k == 'and':
        return all(evaluate(x, rank, assume, transparent) for x in t[1:])
    if k == 'or':
        return any(evaluate(x, rank, assume, transparent) for x in t[1:])
    if k == 'bitand':
        return evaluate(t[1], rank, assume, transparent) and evaluate(t[2], rank, assume, transparent)
    if k == 'bitor':
        return evaluate(t[1], rank, assume, transparent) or evaluate(t[2], rank, assume, transparent)
    if k in ('not', 'invert'):
        return not evaluate(t[1], rank, assume, transparent)
    if k == 'const' and isinstance(t[1], bool):
        return t[1]
    if k == 'call':
        f = t[1]
        fname = T.show(f)
        if fname in transparent and len(t[2]) >= 1:
            return evaluate(t[2][0], rank, assume, transparent)
    raise Unknown(T.show(t))
