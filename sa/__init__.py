"""Static-analysis machinery for the mystic properties C01-C20 (stdlib only).

Nothing in this package imports or runs mystic: every verdict is computed from
the source text of the repository under analysis, parsed with ``ast``.
"""
