"""C20 - monitors and log files give back exactly what was recorded.

Decided: the three parallel arrays of a Monitor move together (one append each
per call; extend/prepend/getitem/setitem treat _x, _y, _id alike, position by
position); concatenating operations never store into the monitor passed in and
+ / slicing work on a deep copy; the cost scaling k is applied on the way in and
divided out by every public reader, merges convert with k_other/k_self; every
line LoggingMonitor writes is either a comment the reader skips or the data line
whose skeleton, split on the reader's separator, yields exactly the three fields
in the order the reader consumes them; write_raw_file defines inf/nan and writes
the names read_raw_file imports; custom pickling keeps every attribute (C06.d).
Round 3: every Monitor subclass reaches the base __call__ exactly once per call
on every path with the caller's (x, y, id); listify returns its argument itself
only when it is not iterable.
Round 4: read_import evicts the imported parameter file (repair 9368d4c); 0-d
array costs are scaled as scalars (repair f13ad96); converted files get k
through write_monitor (repair 885bac7); read_raw_file(iter=True) sizes the ids
by the number of costs.
Round 5 (hunt): listify's 0-d branch is reachable (repair 39048ea);
raw_to_converge converts cost by cost (repair ece4f1b); a one-record slice
store also addresses index -1 (repair 61064e9); read_import reads the file by
path, never by module name (repair 0289afb); another monitor's raw costs are
only read through the k conversion (repair d697a4c).
Round 6: monitors._load reads the file at the given path too (repair 5a846ca);
an id of 0 is an id (no truth-value tests on recorded ids).
Review of the repairs: the reporting monitors test the cost's ndim attribute, they do not convert the cost (C20.r); read_import removes from sys.path the entry it added (C20.s).
NOT decided: textual round trip of particular float/array values.
"""
import ast
import re

from ..core import rule
from ..srcmodel import AnalysisError, walk_no_nested, unparse, norm_stmt
from .. import terms as T
from .. import siblings as SB
from .common import *

MO = 'mystic.monitors'
MU = 'mystic.munge'


def _ref(ctx, f, src, construct, what):
    got, want = SB.agree(f.node, src)
    ctx.stats['terms_compared'] += len(got)
    ctx.check(got == want, construct, what, '%s differs from its documented behaviour: %s' % (construct, SB.diff(got, want)), f, f.node)


GUARD = '''    if isinstance(monitor, Monitor):
        pass
    elif (monitor == Null) or isinstance(monitor, Null):
        monitor = Monitor()
    elif hasattr(monitor, '__module__') and monitor.__module__ in ['mystic._genSow']:
        pass
    else:
        raise TypeError("'%s' is not a monitor instance" % monitor)
'''


@rule('C20.a', min_instances=6)
def parallel_arrays_move_together(ctx):
    """__call__ appends exactly once to each of _x,_y,_id; extend/prepend take _x from _x, _y from the k-converted _y, _id from _id, _info from _info, prepend at the enumerate index; getitem/setitem use one index for all three arrays"""
    M = ctx.cls(MO + ':Monitor')
    _ref(ctx, ctx.touch(M.methods['__call__']), '''def __call__(self, x, y, id=None, **kwds):
    self._x.append(listify(x))
    _type = iter if (hasattr(y, '__len__') and getattr(y, 'ndim', 1)) else None
    self._y.append(listify(self._k(y, _type)))
    self._id.append(id)
''', 'Monitor.__call__', 'one append to each of _x, _y (k-scaled), _id')
    _ref(ctx, ctx.touch(M.methods['extend']), 'def extend(self, monitor):\n' + GUARD + '''    self._x.extend(monitor._x)
    self._y.extend(list(self._get_y(monitor)))
    self._id.extend(monitor._id)
    self._info.extend(monitor._info)
''', 'Monitor.extend', '_x<-_x, _y<-converted _y, _id<-_id, _info<-_info')
    _ref(ctx, ctx.touch(M.methods['prepend']), 'def prepend(self, monitor):\n' + GUARD + '''    [self._x.insert(*i) for i in enumerate(monitor._x[:])]
    [self._y.insert(*i) for i in enumerate(list(self._get_y(monitor)))]
    [self._id.insert(*i) for i in enumerate(monitor._id[:])]
    [self._info.insert(*i) for i in enumerate(monitor._info[:])]
''', 'Monitor.prepend', 'each array inserted at its enumerate index (order preserved)')
    # getitem / setitem: per branch the three stores are the same expression up to the array name
    for meth, tgt in (('__getitem__', 'm'), ('__setitem__', 'self')):
        f = ctx.touch(M.methods[meth])
        groups = 0
        for blk in [f.node.body] + [n.body for n in walk_no_nested(f.node) if isinstance(n, ast.If)] + [n.orelse for n in walk_no_nested(f.node) if isinstance(n, ast.If)]:
            stores = {}
            for st in blk:
                if isinstance(st, ast.Assign) and len(st.targets) == 1:
                    tg = st.targets[0]
                    base = tg
                    while isinstance(base, ast.Subscript):
                        base = base.value
                    if isinstance(base, ast.Attribute) and isinstance(base.value, ast.Name) and base.value.id == tgt and base.attr in ('_x', '_y', '_id'):
                        stores.setdefault(base.attr, []).append(st)
            if not stores:
                continue
            groups += 1
            # canonical terms with the block's plain locals substituted (nx = numpy.ndim(self._x) ...), then the array's own
            # name abstracted: the three stores must be one and the same expression of "their" array
            bld = T.Builder()
            for st0 in f.node.body:       # function-level temporaries (the k-converted costs of the other monitor)
                if isinstance(st0, ast.Assign) and len(st0.targets) == 1 and isinstance(st0.targets[0], ast.Name) and st0.targets[0].id not in f.args():
                    bld.exec_stmt(st0)
            norm = {}
            last = {a: sts[-1] for a, sts in stores.items()}
            other = f.args()[2] if len(f.args()) > 2 else None
            converted = [T.simp(T.term(ast.parse(src % other, mode='eval').body)) for src in ('list(self._get_y(%s))', 'self._get_y(%s)')] if other else []

            def abstract(t_, a):
                if isinstance(t_, tuple):
                    if len(t_) == 3 and t_[0] == 'attr' and t_[2] == a:
                        return ('attr', abstract(t_[1], a), '_A')
                    return tuple(abstract(x, a) for x in t_)
                return t_
            pending = {}
            for st in blk:
                if isinstance(st, ast.Assign) and len(st.targets) == 1 and isinstance(st.targets[0], ast.Subscript) and isinstance(st.targets[0].value, ast.Name):
                    # x[i] = v on a local array: part of the value later stored back
                    nm = st.targets[0].value.id
                    bld.env[nm] = ('updated', T.simp(bld.t(st.targets[0].value)), T.simp(bld.t(st.targets[0].slice)), T.simp(bld.t(st.value)))
                    continue
                for a, lst in last.items():
                    if st is lst:
                        val = T.simp(bld.t(st.value))
                        if a == '_y':      # the costs come through the k conversion: the same role as <other>._y
                            for cv in converted:
                                val = T.substitute(val, cv, ('attr', ('name', other), '_y'))
                        norm[a] = abstract(('store', T.simp(bld.t(st.targets[0])), val), a)
                if isinstance(st, ast.Assign) and all(isinstance(tg_, (ast.Name, ast.Tuple)) for tg_ in st.targets):
                    bld.exec_stmt(st)
            good = set(stores) == {'_x', '_y', '_id'} and len(set(norm.values())) == 1
            ctx.check(good, 'Monitor.%s#branch@%d' % (meth, blk[0].lineno if blk else 0), '_x, _y, _id handled identically in this branch',
                      'the parallel arrays are indexed differently: %s' % {k: T.show(v)[:80] for k, v in norm.items()}, f, (stores.get('_x') or stores.get('_y') or stores.get('_id'))[-1])
        ctx.need(groups >= 3, 'Monitor.%s: expected >= 3 index branches, found %d' % (meth, groups))
    gi = M.methods['__getitem__']
    r = [s for s in walk_no_nested(gi.node) if isinstance(s, ast.Return) and 'self.x[y]' in unparse(s.value)]
    ctx.check(bool(r) and ''.join(unparse(r[0].value).split()) in ('(self.x[y],self.y[y])', 'self.x[y],self.y[y]'), 'Monitor.__getitem__#int', 'integer index returns (x[i], y[i])',
              'integer indexing returns %s' % (unparse(r[0].value) if r else None), gi, r[0] if r else gi.node)
    ln = M.methods['__len__']
    r = [s for s in ln.node.body if isinstance(s, ast.Return)]
    ctx.check(bool(r) and unparse(r[0].value) == 'len(self.x)', 'Monitor.__len__', 'number of recorded calls', '__len__ returns %s' % (unparse(r[0].value) if r else None), ln, ln.node)


@rule('C20.b', min_instances=4)
def arguments_not_altered(ctx):
    """extend/prepend/__add__/__getitem__ never store into (or call a mutator on) the monitor passed in; __add__/__getitem__ work on a deep copy and leave self alone"""
    M = ctx.cls(MO + ':Monitor')
    MUT = ('append', 'extend', 'insert', 'pop', 'remove', 'clear', 'sort', 'reverse', 'update', 'prepend')
    for meth in ('extend', 'prepend', '__add__'):
        f = ctx.touch(M.methods[meth])
        arg = f.args()[1]
        bad = None
        rebinds = [s for s in stmts_of(f.node) if isinstance(s, ast.Assign) and isinstance(s.targets[0], ast.Name) and s.targets[0].id == arg]
        for n in walk_no_nested(f.node):
            if isinstance(n, ast.Attribute) and isinstance(n.ctx, (ast.Store, ast.Del)):
                root = n.value
                while isinstance(root, (ast.Attribute, ast.Subscript)):
                    root = root.value
                if isinstance(root, ast.Name) and root.id == arg:
                    bad = n
            if isinstance(n, ast.Subscript) and isinstance(n.ctx, (ast.Store, ast.Del)):
                root = n.value
                while isinstance(root, (ast.Attribute, ast.Subscript)):
                    root = root.value
                if isinstance(root, ast.Name) and root.id == arg:
                    bad = n
            if isinstance(n, ast.Call) and isinstance(n.func, ast.Attribute) and n.func.attr in MUT:
                root = n.func.value
                while isinstance(root, (ast.Attribute, ast.Subscript)):
                    root = root.value
                if isinstance(root, ast.Name) and root.id == arg and not (isinstance(n.func.value, ast.Name)):
                    bad = n
        ctx.check(bad is None, 'Monitor.%s#argument' % meth, 'the monitor passed in is only read', '%s modifies the monitor passed to it: %s' % (meth, unparse(bad) if bad is not None else ''), f, bad if bad is not None else f.node)
    for meth in ('__add__', '__getitem__'):
        f = ctx.touch(M.methods[meth])
        sn = selfname_of(f)
        cp = [s for s in stmts_of(f.node) if isinstance(s, ast.Assign) and isinstance(s.targets[0], ast.Name) and ''.join(unparse(s.value).split()) == 'copy.deepcopy(%s)' % sn]
        selfstores = [n for n in walk_no_nested(f.node) if isinstance(n, ast.Attribute) and isinstance(n.ctx, ast.Store) and isinstance(n.value, ast.Name) and n.value.id == sn]
        selfmut = [n for n in walk_no_nested(f.node) if isinstance(n, ast.Call) and isinstance(n.func, ast.Attribute) and n.func.attr in MUT and
                   ''.join(unparse(n.func.value).split()).startswith(sn + '.')]
        rets = [s for s in walk_no_nested(f.node) if isinstance(s, ast.Return) and isinstance(s.value, ast.Name)]
        good = bool(cp) and not selfstores and not selfmut and bool(rets) and all(r.value.id == cp[0].targets[0].id for r in rets)
        ctx.check(good, 'Monitor.%s#fresh' % meth, 'result is a deep copy; self is not modified', '%s no longer returns a fresh deep copy / modifies self' % meth, f, f.node)


@rule('C20.c', min_instances=14)
def k_is_transparent(ctx):
    """the store path multiplies by k, every public reader (y, iy, ay) divides by it, merges convert with k_other/k_self"""
    M = ctx.cls(MO + ':Monitor')
    ones = '1 if self.k is None else self.k'
    for meth, src in (('get_y', 'return _divide(self._y, %s)' % ones), ('get_iy', 'return _idivide(self._y, %s)' % ones), ('get_ay', 'return _adivide(self._y, %s)' % ones),
                      ('_k', 'return _cmultiply(y, self.k, type)'), ('_get_y', '_ik = _kdiv(monitor.k, self.k, float)\n    return _idivide(monitor._y, _ik)')):
        f = ctx.touch(M.methods[meth])
        sig = unparse(f.node.args)
        _ref(ctx, f, 'def %s(%s):\n    %s\n' % (meth, sig, src), 'Monitor.' + meth, src.split('return ')[-1])
    f = ctx.touch(M.methods['_ik'])
    _ref(ctx, f, 'def _ik(self, y, k=False, type=list):\n    if k: return y\n    return _cdivide(y, self.k, type)\n', 'Monitor._ik', 'divide by k unless already applied')
    for prop, getter in (('y', 'get_y'), ('iy', 'get_iy'), ('ay', 'get_ay'), ('x', 'get_x')):
        pr = ctx.model.lookup_prop(M, prop)
        ctx.check(bool(pr) and pr[0] is M.methods.get(getter), 'Monitor.%s#property' % prop, 'property %s -> %s' % (prop, getter), 'property %s is no longer wired to %s' % (prop, getter), M.methods[getter], M.node)
    from .c20_refs import REFS
    for name in ('_kdiv', '_multiply', '_divide', '_imultiply', '_idivide', '_amultiply', '_adivide', '_cmultiply', '_cdivide'):
        h = ctx.func('mystic.tools:' + name)
        _ref(ctx, h, REFS[name], 'tools.' + name, {'_kdiv': 'num/denom with None read as 1 (None only when both are None)'}.get(name, 'elementwise scaling helper'))


def _write_calls(cls_methods):
    out = []
    for name, m in cls_methods.items():
        for c in calls_where(m.node, lambda c: isinstance(c.func, ast.Attribute) and c.func.attr == 'write' and '_file' in unparse(c.func.value), include_lambda=False):
            out.append((name, m, c))
    return out


@rule('C20.d', min_instances=6)
def log_format_matches_reader(ctx):
    """every LoggingMonitor write is a comment line the reader skips or the data line whose skeleton splits, on the reader's separator, into exactly (step, cost, params); raw files define inf/nan and use the names the readers import"""
    rd = ctx.func(MU + ':logfile_reader')
    skip = None
    sep = None
    for n in walk_no_nested(rd.node):
        if isinstance(n, ast.Call) and isinstance(n.func, ast.Attribute) and n.func.attr == 'startswith' and n.args and isinstance(n.args[0], ast.Tuple):
            skip = tuple(const_value(e) for e in n.args[0].elts)
        if isinstance(n, ast.Assign) and isinstance(n.targets[0], ast.Name) and n.targets[0].id == 'values' and isinstance(n.value, ast.Call) and \
                isinstance(n.value.func, ast.Attribute) and n.value.func.attr == 'split':
            sep = const_value(n.value.args[0]) if n.value.args else None
    ctx.need(skip and sep, 'logfile_reader: skip prefixes / separator not found')
    order = {}
    for n in walk_no_nested(rd.node):
        if isinstance(n, ast.Call) and isinstance(n.func, ast.Attribute) and n.func.attr == 'append' and isinstance(n.func.value, ast.Name) and n.args:
            sub = [x for x in ast.walk(n.args[0]) if isinstance(x, ast.Subscript) and unparse(x.value) == 'values']
            if sub:
                order[const_value(sub[0].slice)] = n.func.value.id
    ctx.check(order == {0: 'step', 1: 'cost', 2: 'param'}, 'logfile_reader#fields', 'field 0 -> step, 1 -> cost, 2 -> params',
              'the reader consumes the fields as %s' % order, rd, rd.node)
    lines = [n for n in walk_no_nested(rd.node) if isinstance(n, ast.For) and 'contents' in unparse(n.iter)]
    ctx.check(bool(lines) and ''.join(unparse(lines[0].iter).split()) == 'contents[:-1]' and "file.split('\\n')" in unparse(rd.node).replace('"', "'"), 'logfile_reader#lines',
              'one record per newline-terminated line', 'the reader no longer iterates over all newline-terminated lines', rd, lines[0] if lines else rd.node)
    L = ctx.cls(MO + ':LoggingMonitor')
    writes = _write_calls(L.methods)
    ctx.need(len(writes) >= 4, 'expected >= 4 writes in LoggingMonitor, found %d' % len(writes))
    n_data = 0
    for name, m, c in writes:
        ctx.touch(m)
        a = c.args[0]
        skel = a.left.value if isinstance(a, ast.BinOp) and isinstance(a.op, ast.Mod) and isinstance(a.left, ast.Constant) else const_value(a)
        ctx.need(isinstance(skel, str), 'LoggingMonitor.%s: write argument not a format string' % name)
        if skel.startswith(tuple(skip)):
            ctx.check(skel.endswith('\n'), 'LoggingMonitor.%s#comment' % name, 'comment line %r (skipped by the reader)' % skel, 'comment line %r is not newline-terminated' % skel, m, c)
            continue
        n_data += 1
        fields = skel.split(sep)
        args = [unparse(e) for e in a.right.elts] if isinstance(a.right, ast.Tuple) else [unparse(a.right)]
        good = len(fields) == 3 and all(fl.count('%s') == 1 for fl in fields) and skel.endswith('\n') and args == ['tuple(step)', 'y', 'x']
        ctx.check(good, 'LoggingMonitor.%s#data-line' % name, 'skeleton %r splits on %r into (step, cost, params)' % (skel, sep),
                  'the data line %r %% %s does not split on the reader\'s separator %r into exactly (step, cost, params)' % (skel, args, sep), m, c)
    ctx.need(n_data >= 1, 'no data-line write found in LoggingMonitor')
    # step tuple: (iteration[, id]) as the reader documents
    call = L.methods['__call__']
    st = [s for s in stmts_of(call.node) if isinstance(s, ast.Assign) and isinstance(s.targets[0], ast.Name) and s.targets[0].id == 'step']
    ap = [s for s in stmts_of(call.node) if isinstance(s, ast.If) and ''.join(unparse(s).split()) == 'ifidisnotNone:step.append(id)']
    ctx.check(bool(st) and ''.join(unparse(st[0].value).split()) == '[self._step-1]' and bool(ap), 'LoggingMonitor.__call__#step', 'step = (iteration, id?) with iteration = number of records - 1',
              'the step column is built as %s' % (unparse(st[0].value) if st else None), call, st[0] if st else call.node)
    # raw files
    w = ctx.func(MU + ':write_raw_file')
    ws = [c for c in calls_where(w.node, lambda c: callee_text(c) == 'f.write')]
    skels = []
    for c in ws:
        a = c.args[0]
        skels.append(a.left.value if isinstance(a, ast.BinOp) and isinstance(a.left, ast.Constant) else const_value(a))
    need = ["inf = float('inf')\n", "nan = float('nan')\n", 'id = %s\n', 'params = %s\n', 'cost = %s\n']
    ctx.check(all(x in skels for x in need), 'write_raw_file#names', 'defines inf, nan and writes id / params / cost', 'write_raw_file writes %s' % skels, w, w.node)
    pv = {}
    for c in ws:
        a = c.args[0]
        if isinstance(a, ast.BinOp) and isinstance(a.left, ast.Constant) and a.left.value in ('params = %s\n', 'cost = %s\n', 'id = %s\n'):
            pv[a.left.value.split(' ')[0]] = unparse(a.right)
    ctx.check(pv == {'params': 'steps', 'cost': 'energy', 'id': 'ids'}, 'write_raw_file#roles', 'params <- x history, cost <- y history, id <- ids', 'raw file roles are %s' % pv, w, w.node)
    rm = [s for s in w.node.body if isinstance(s, ast.Assign) and isinstance(s.value, ast.Call) and callee_text(s.value) == 'read_monitor']
    ctx.check(bool(rm) and [e.id for e in rm[0].targets[0].elts] == ['steps', 'energy', 'ids'], 'write_raw_file#source', 'steps, energy, ids = read_monitor(mon, id=True)',
              'write_raw_file reads the monitor as %s' % (unparse(rm[0].targets[0]) if rm else None), w, rm[0] if rm else w.node)
    r = ctx.func(MU + ':read_raw_file')
    imps = [c for c in calls_where(r.node, lambda c: callee_text(c) == 'read_import')]
    got = sorted(tuple(const_value(a) for a in c.args[1:]) for c in imps)
    ctx.check(got == [('id', 'params', 'cost'), ('params', 'cost')], 'read_raw_file#names', 'imports id, params, cost', 'read_raw_file imports %s' % got, r, r.node)


@rule('C20.e', min_instances=2)
def pickling_preserves_the_record(ctx):
    """the logging monitors' custom pickling keeps every attribute (shared with C06.d)"""
    from .c06 import custom_pickling_keeps_every_attribute
    custom_pickling_keeps_every_attribute(ctx)


@rule('C20.f', min_instances=6)
def ids_round_trip(ctx):
    """ids are carried through the file round trip: read_monitor/write_monitor keep (x, y, id) together, _process_ids turns None / a single int (0 included) / a list into (iteration, id) tuples, write_raw_file collapses uniform ids to one value"""
    from .c20_refs import REFS
    for name in ('_process_ids', 'read_monitor', 'write_monitor', '_reduce_ids', 'raw_to_converge', 'converge_to_support', 'raw_to_support'):
        h = ctx.func(MU + ':' + name)
        _ref(ctx, h, REFS[name], 'munge.' + name, 'id / trajectory helper')
    # read_raw_file(iter=True): one (iteration, id) tuple per recorded STEP - the length handed to _process_ids is the number
    # of costs (params is indexed by parameter first in a support file, by step in a raw file, so its length is the wrong one)
    rr = ctx.func(MU + ':read_raw_file')
    fp = rr.args()[0]
    RI = ('call', ('name', 'read_import'), (('name', fp), ('const', 'id'), ('const', 'params'), ('const', 'cost')), ())
    want_it = ('tuple', ('call', ('name', '_process_ids'), (('sub', RI, T.num(0)), ('call', ('name', 'len'), (('sub', RI, T.num(2)),), ())), ()),
               ('sub', RI, T.num(1)), ('sub', RI, T.num(2)))
    want_plain = ('call', ('name', 'read_import'), (('name', fp), ('const', 'params'), ('const', 'cost')), ())
    rts = return_terms(rr.node)
    ctx.need(len(rts) == 2, 'read_raw_file: expected two returns (iter / plain)')
    ctx.stats['terms_compared'] += 2
    terms_ = [x[1] for x in rts]
    ctx.check(want_it in terms_ and want_plain in terms_, 'read_raw_file#returns', 'iter: (_process_ids(id, len(cost)), params, cost); plain: (params, cost)',
              'read_raw_file returns %s' % [T.show(x)[:150] for x in terms_ if x not in (want_it, want_plain)], rr, rr.node)
    w = ctx.func(MU + ':write_raw_file')
    # (decided on canonical terms of the tests, so swapped operands / `len(ids) == 0` / `not ids is None` are the same tests)
    def _t(src_):
        return T.term(ast.parse(src_, mode='eval').body)
    ifs = [n_ for n_ in ast.walk(w.node) if isinstance(n_, ast.If)]

    def _sets(body, val):
        return any(isinstance(s_, ast.Assign) and len(s_.targets) == 1 and unparse(s_.targets[0]) == 'ids' and T.term(s_.value) == _t(val) for s_ in body)
    none_ = any(T.term(i_.test) in (_t('not len(ids)'), _t('len(ids) == 0')) and _sets(i_.body, 'None') for i_ in ifs)
    uniform = any(T.term(i_.test) == _t('ids.count(ids[0]) == len(ids)') and _sets(i_.body, 'ids[0]') for i_ in ifs)
    written = any(T.term(i_.test) in (_t('ids is not None'), _t('not ids is None'), _t('not (ids is None)')) for i_ in ifs)
    ctx.check(none_ and uniform and written, 'write_raw_file#ids',
              'no ids -> none written; uniform ids -> the single value (tested with `is not None`, so id 0 is written)', 'write_raw_file id handling changed', w, w.node)


# what `'%s' % value` can print for recorded data: float('inf') -> inf, float('nan') -> nan, and - with the numpy this
# repository runs with - numpy scalars as np.float64(...) (array inputs are recorded as lists of numpy scalars)
EMITTED_NAMES = ('inf', 'nan', 'np')


def _bound_before(fnode, stmt):
    """names bound in fnode (parameters, imports, assignments) by statements that precede `stmt` at the top level"""
    names = set(a.arg for a in fnode.args.args)
    for st in fnode.body:
        if st is stmt or st.lineno >= stmt.lineno:
            break
        names.update(assigned_names(st))
        if isinstance(st, (ast.Import, ast.ImportFrom)):
            names.update((a.asname or a.name).split('.')[0] for a in st.names)
    return names


@rule('C20.g', min_instances=2)
def reader_namespaces_bind_what_writers_emit(ctx):
    """text written with '%s' can mention inf, nan and np (numpy scalars print as np.float64(...)): the namespace in which logfile_reader evaluates each field binds all three, and the header write_raw_file / write_support_file / write_converge_file emit defines all three before the data lines"""
    rd = ctx.func(MU + ':logfile_reader')
    evals = [c for c in calls_where(rd.node, lambda c: isinstance(c.func, ast.Name) and c.func.id == 'eval', include_lambda=False)]
    ctx.need(evals, 'logfile_reader: no eval of the fields found')
    for c in evals:
        ns_nodes = list(c.args[1:3]) + [k.value for k in c.keywords if k.arg in ('globals', 'locals')]
        bound = set()
        unknown = False
        for nsn in ns_nodes:
            node = nsn
            if isinstance(node, ast.Name):
                ds = [s for s in stmts_of(rd.node) if isinstance(s, ast.Assign) and len(s.targets) == 1 and isinstance(s.targets[0], ast.Name) and s.targets[0].id == node.id]
                if len(ds) != 1:
                    unknown = True
                    continue
                src_stmt, node = ds[0], ds[0].value
            else:
                src_stmt = enclosing_stmt(c)
            # locals().copy() / dict(locals()) / locals(): the names bound so far
            txt = ''.join(unparse(node).split())
            if txt in ('locals().copy()', 'dict(locals())', 'locals()', 'dict(**locals())'):
                bound |= _bound_before(rd.node, src_stmt)
            elif isinstance(node, ast.Dict):
                if any(k is None for k in node.keys):
                    unknown = True
                bound |= set(const_value(k) for k in node.keys if k is not None)
            elif isinstance(node, ast.Call) and callee_text(node) == 'dict' and not node.args:
                bound |= set(k.arg for k in node.keywords if k.arg)
            else:
                unknown = True
        if not ns_nodes:
            bound |= _bound_before(rd.node, enclosing_stmt(c))   # eval in the function's own scope
        ctx.need(not unknown or all(n in bound for n in EMITTED_NAMES), 'logfile_reader: evaluation namespace %s not understood' % [unparse(n) for n in ns_nodes])
        missing = [n for n in EMITTED_NAMES if n not in bound]
        ctx.check(not missing, 'logfile_reader#namespace', 'fields are evaluated where inf, nan and np are bound',
                  'logfile_reader evaluates the fields in a namespace that does not bind %s: a log line containing it (an infinite cost, a numpy scalar from an array input) cannot be read back' % missing,
                  rd, c, statement='eval namespace lacks %s' % missing)
    w = ctx.func(MU + ':write_raw_file')
    ws = [c for c in calls_where(w.node, lambda c: isinstance(c.func, ast.Attribute) and c.func.attr == 'write')]
    defined, first_data = set(), None
    for c in ws:
        a = c.args[0] if c.args else None
        skel = a.left.value if isinstance(a, ast.BinOp) and isinstance(a.left, ast.Constant) else const_value(a)
        if not isinstance(skel, str):
            continue
        if isinstance(a, ast.Constant):
            try:
                for st in ast.parse(skel).body:
                    defined.update(assigned_names(st))
                    if isinstance(st, (ast.Import, ast.ImportFrom)):
                        defined.update((x.asname or x.name).split('.')[0] for x in st.names)
            except SyntaxError:
                pass
        elif skel.startswith(('params', 'cost', 'id')) and first_data is None:
            first_data = (c, set(defined))
    ctx.need(first_data is not None, 'write_raw_file: data lines not found')
    missing = [n for n in EMITTED_NAMES if n not in first_data[1]]
    ctx.check(not missing, 'write_raw_file#header', 'the header defines inf, nan and np before the data lines',
              'the file written by write_raw_file (also behind write_support_file / write_converge_file) does not define %s before its data lines: '
              'a trajectory containing it cannot be imported back' % missing, w, first_data[0], statement='raw file header lacks %s' % missing)


@rule('C20.h', min_instances=5)
def every_call_is_recorded_by_value(ctx):
    """every subclass of Monitor that overrides __call__ reaches the base __call__ exactly once on every path with the caller's (x, y, id) (so n calls give length n whatever the print / log interval is), and listify - through which the base stores x and y - returns a newly built object for every iterable input (a record must not alias the caller's list, which solvers update in place)"""
    M = ctx.cls(MO + ':Monitor')
    subs = [k for k in ctx.model.subclasses(M, strict=True) if '__call__' in k.methods]
    ctx.need(len(subs) >= 3, 'expected >= 3 Monitor subclasses overriding __call__, found %d' % len(subs))
    for k in subs:
        f = ctx.touch(k.methods['__call__'])
        sn = selfname_of(f)
        params = [a.arg for a in f.node.args.args]
        ctx.need(len(params) >= 3, '%s.__call__ signature changed' % k.name)

        def is_up(c):
            return isinstance(c, ast.Call) and isinstance(c.func, ast.Attribute) and c.func.attr == '__call__' and (
                (isinstance(c.func.value, ast.Call) and isinstance(c.func.value.func, ast.Name) and c.func.value.func.id == 'super') or
                (isinstance(c.func.value, ast.Name) and c.func.value.id[:1].isupper()))
        paths = [p for p in enumerate_paths(f.node, relevant=lambda n: is_up(n) or (isinstance(n, ast.Assign) and any(
            isinstance(x, ast.Name) and x.id in params[1:4] for tg in n.targets for x in ast.walk(tg))), unroll=(0, 1)) if p.exit != 'raise']
        ctx.stats['paths_enumerated'] += len(paths)
        bad = None
        for p in paths:
            ups = []
            b = T.Builder()
            for e in p.events:
                if e[0] == 'stmt':
                    for c in calls_where(e[1], is_up, include_lambda=False):
                        args = list(c.args)
                        if isinstance(c.func.value, ast.Name):
                            args = args[1:]          # Base.__call__(self, x, y, id)
                        ups.append(tuple(T.simp(b.t(a)) for a in args[:3]))
                    if isinstance(e[1], ast.Assign) and all(isinstance(tg, ast.Name) for tg in e[1].targets):
                        b.exec_stmt(e[1])
            want = tuple(('name', a) for a in params[1:4])
            if len(ups) != 1:
                bad = (p, 'reaches the base __call__ %d times' % len(ups))
            elif ups[0][:len(want)] != want[:len(ups[0])] or len(ups[0]) < 2:
                bad = (p, 'hands %s to the base __call__ instead of the caller\'s (%s)' % ([T.show(a) for a in ups[0]], ', '.join(params[1:4])))
        ctx.check(bad is None, '%s.__call__#records' % k.name, 'every path records (x, y, id) exactly once through the base __call__ (%d paths)' % len(paths),
                  '%s.__call__ %s on path %s: the monitor\'s length no longer equals the number of calls' % (k.name, bad[1] if bad else '', bad[0].describe(5) if bad else ''),
                  f, bad[0].exit_node if bad and bad[0].exit_node is not None else f.node)
    # listify: a fresh object for every iterable input
    g = ctx.func('mystic.tools:listify')
    xp = g.node.args.args[0].arg
    X = ('name', xp)
    rts = return_terms(g.node)
    ctx.need(len(rts) >= 3, 'listify: expected >= 3 returns')
    ctx.stats['paths_enumerated'] += len(rts)
    scalar = ('call', ('name', 'isiterable'), (X,), ())
    n_fresh = 0
    for p, tm, b, conds in rts:
        if tm == X:
            known_scalar = decided(scalar, [(c[0], c[1]) for c in conds]) is False
            ctx.check(known_scalar, 'listify#alias', 'the argument itself is returned only when it is not iterable',
                      'listify returns its (iterable) argument itself on path %s: Monitor.__call__ then stores the caller\'s own list, and a later in-place update of that list rewrites every record made from it'
                      % p.describe(5), g, p.exit_node)
        else:
            n_fresh += 1
    # a 0-d array is unsized: it must come out as its scalar (x.flatten()[0]); iter() fails on it, so the iterability test has to
    # come AFTER the 0-d branch - otherwise the array object itself is returned and recorded (written as array(3.), unreadable)
    first_tests = []
    for n_ in g.node.body:
        if isinstance(n_, ast.If):
            first_tests.append(('if', unparse(n_.test)))
        elif isinstance(n_, ast.Try):
            first_tests.append(('try', unparse(n_)))
    order = [i for i, (k_, tx) in enumerate(first_tests) if 'ndim' in tx] + [99]
    iter_at = [i for i, (k_, tx) in enumerate(first_tests) if 'isiterable' in tx] + [99]
    ctx.check(order[0] < iter_at[0], 'listify#0-d', 'the 0-d (ndim == 0) branch precedes the iterability test',
              'listify tests isiterable(x) before its 0-d branch: a 0-d array is not iterable, so it is returned as it is and recorded as an ndarray (the branch that would unwrap it is dead code)',
              g, g.node, statement='isiterable test precedes the ndim == 0 branch')
    ctx.check(n_fresh >= 2, 'listify#fresh', 'iterable inputs are rebuilt ([listify(i) for i in x] / listify(list(x)) / the 0-d element)', 'listify no longer rebuilds its input', g, g.node)


def _reads_by_path(ctx, f, label):
    """one reader of parameter files: no import-by-name of the file; it opens the path built from its argument and executes that text, or
    hands the path to munge.read_import (which is held to the same rule)"""
    fp = f.args()[0]
    doc = f.node.body[0].value if f.node.body and isinstance(f.node.body[0], ast.Expr) and isinstance(f.node.body[0].value, ast.Constant) else None
    imports = []
    for n in walk_no_nested(f.node):
        if isinstance(n, ast.Constant) and isinstance(n.value, str) and n is not doc and re.search(r'(^|[\s;])(from\s+\S+\s+import|import)\s', n.value):
            imports.append(n)
        if isinstance(n, ast.Call) and callee_text(n).split('.')[-1] in ('import_module', '__import__'):
            imports.append(n)
    if imports:
        ctx.bad(label + '#by-path', '%s reads the parameter file through the import machinery, by module name: which file is read then depends on sys.modules (a module of that name imported earlier wins), on the finder '
                'cached for the sys.path entry, on cached byte code (a file rewritten within the same second is read as its old contents) and on installed modules of the same name - '
                'the matching reader does not give back what the writer wrote' % f.qualname, f, enclosing_stmt(imports[0]) or f.node, statement='import of the parameter file by module name')
        return
    names = {fp}          # forward closure: locals computed from the argument
    changed = True
    while changed:
        changed = False
        for st in stmts_of(f.node):
            if isinstance(st, ast.Assign) and any(isinstance(x, ast.Name) and x.id in names for x in ast.walk(st.value)):
                for tg in assigned_names(st):
                    if tg not in names:
                        names.add(tg)
                        changed = True
    opens = [c for c in walk_no_nested(f.node) if isinstance(c, ast.Call) and callee_text(c).split('.')[-1] in ('open', 'run_path', 'read_import') and c.args and
             any(isinstance(x, ast.Name) and x.id in names for x in ast.walk(c.args[0]))]
    runs = [c for c in walk_no_nested(f.node) if isinstance(c, ast.Call) and callee_text(c).split('.')[-1] in ('exec', 'run_path', 'read_import')]
    ctx.need(opens and runs, '%s: neither an import by name nor open(<path from the argument>) + exec / read_import(<path>) is recognised (how is the file read?)' % f.qualname)
    ctx.ok(label + '#by-path', 'the file is read by its path, not looked up by module name', f, enclosing_stmt(opens[0]))


@rule('C20.i', min_instances=2)
def parameter_files_are_read_not_imported(ctx):
    """read_import (behind read_raw_file / read_converge_file / read_support_file and the support scripts) and monitors._load give back the contents of THE FILE THEY ARE GIVEN, as it is now. Going through the import machinery by module name cannot guarantee that: modules are cached by name (sys.modules), finders by sys.path entry (a relative '.' entry is resolved once, so only the first directory of a process is ever searched), byte code by size and whole-second mtime (a file rewritten within the second is read as its previous contents), and an installed or already imported module of the same name (trace, profile, test) shadows the file. Both readers therefore read the file by its path - open(<path built from the argument>) and exec/compile of that text, runpy.run_path, or read_import - and contain no import-by-name of the file"""
    _reads_by_path(ctx, ctx.func(MU + ':read_import'), 'read_import')
    _reads_by_path(ctx, ctx.func(MO + ':_load'), '_load')


@rule('C20.j', min_instances=1)
def elementwise_scaling_only_for_sized_values(ctx):
    """Monitor.__call__ scales the cost by k elementwise (type=iter) or as a scalar; the selector must send unsized numpy values - 0-d arrays, which Powell's squeeze(cost(x)) produces and which DO have a __len__ attribute - down the scalar branch: a selector that is just hasattr(y, '__len__') makes the k-scaled store raise "iteration over a 0-d array" (the sibling listify treats ndim == 0 as a scalar)"""
    M = ctx.cls(MO + ':Monitor')
    f = ctx.touch(M.methods['__call__'])
    yp = f.args()[2]
    Y = ('name', yp)
    b = T.Builder()
    sel = None
    for st in stmts_of(f.node):
        for c in calls_where(st, lambda c: isinstance(c.func, ast.Attribute) and c.func.attr == '_k', include_lambda=False):
            if len(c.args) >= 2:
                sel = T.simp(b.t(c.args[1]))
            else:
                v = kwarg(c, 'type', None)
                sel = T.simp(b.t(v)) if v is not None else ('const', None)
        if isinstance(st, ast.Assign) and all(isinstance(tg, ast.Name) for tg in st.targets):
            b.exec_stmt(st)
    ctx.need(sel is not None, 'Monitor.__call__ no longer scales through self._k(y, <type>)')
    if sel[0] != 'ifexp':
        ctx.ok('Monitor.__call__#selector', 'one scaling branch for every value (%s)' % T.show(sel)[:40], f, f.node)
        return
    cond = sel[1]
    atoms = [a for a in T.subterms(cond) if isinstance(a, tuple) and a and a[0] in ('call', 'attr', 'cmp')]
    shown = ' '.join(T.show(a) for a in atoms)
    bare_len = any(a[0] == 'call' and T.show(a[1]) == 'hasattr' and len(a[2]) == 2 and a[2][0] == Y and a[2][1] == ('const', '__len__') for a in atoms)
    sized = any(w in shown for w in ('ndim', 'shape', 'size', 'isiterable', 'isinstance', 'list_or_tuple'))
    ctx.check(not bare_len or sized, 'Monitor.__call__#selector', 'elementwise scaling is not selected by hasattr(y, "__len__") alone',
              'Monitor.__call__ selects elementwise k-scaling with `%s`: a 0-d numpy array (Powell\'s energies) has __len__ but cannot be iterated, so a monitor with k set raises TypeError when it records one'
              % T.show(cond)[:80], f, f.node, statement='elementwise k-scaling selected by hasattr(y, "__len__")')


@rule('C20.k', min_instances=2)
def converted_files_keep_the_cost_scale(ctx):
    """write_support_file / write_converge_file re-shape the trajectory through a temporary monitor built from the source monitor's UNSCALED costs (read_monitor reads mon.y); the source's k must therefore be given to write_monitor, which scales the costs as it stores them - copying k onto the temporary monitor afterwards makes write_raw_file divide the unscaled costs by k once more (a Monitor(k=-1) is written with negated costs)"""
    for name in ('write_support_file', 'write_converge_file'):
        f = ctx.func(MU + ':' + name)
        mp = f.args()[0]
        b = T.Builder()
        tmp = None
        late = None
        for st in f.node.body:
            if isinstance(st, ast.Assign) and len(st.targets) == 1 and isinstance(st.targets[0], ast.Name) and isinstance(st.value, ast.Call) and callee_text(st.value) == 'write_monitor':
                tmp = (st.targets[0].id, st, T.simp(T.term(st.value)))
            elif tmp and isinstance(st, ast.Assign) and any(isinstance(tg, ast.Attribute) and tg.attr == 'k' and isinstance(tg.value, ast.Name) and tg.value.id == tmp[0] for tg in st.targets):
                late = st
        ctx.need(tmp is not None, '%s no longer builds its temporary monitor with write_monitor' % name)
        kws = dict(tmp[2][3])
        k_given = kws.get('k') == ('attr', ('name', mp), 'k') or (len(tmp[2][2]) >= 4 and tmp[2][2][3] == ('attr', ('name', mp), 'k'))
        reads_unscaled = any(isinstance(x, tuple) and x and x[0] == 'call' and T.show(x[1]) == 'read_monitor' for x in T.subterms(tmp[2]))
        ctx.need(reads_unscaled, '%s no longer converts read_monitor(%s)' % (name, mp))
        ctx.check(k_given and late is None, name + '#k', 'write_monitor(..., k=%s.k): the costs are scaled as they are stored' % mp,
                  '%s builds its temporary monitor from the unscaled costs %s: k is %s, so the written costs are divided by k twice'
                  % (name, 'without k' if not k_given else 'with k', 'copied onto it afterwards (%s)' % norm_stmt(late) if late is not None else 'never applied'), f, late if late is not None else tmp[1])


@rule('C20.l', min_instances=5)
def concatenation_reads_its_argument_through_snapshots(ctx):
    """extend / prepend are legal with the monitor itself as argument (m.extend(m) doubles it): whatever they iterate over while they write into self's arrays is materialised first - a slice copy or list(...) - or is a plain list handed to list.extend (which reads its argument's length once); a lazy iterator over, or an enumerate of, the argument's own list would be fed by the very insertions it drives and never end"""
    M = ctx.cls(MO + ':Monitor')
    n = 0
    for name in ('extend', 'prepend'):
        f = ctx.touch(M.methods[name])
        mp = f.args()[1]

        def snap(e):
            if isinstance(e, ast.Subscript) and isinstance(e.slice, ast.Slice):
                return True
            return isinstance(e, ast.Call) and isinstance(e.func, ast.Name) and e.func.id in ('list', 'tuple')

        def plain(e):
            return isinstance(e, ast.Attribute) and isinstance(e.value, ast.Name) and e.value.id == mp
        for c in [x for x in ast.walk(f.node) if isinstance(x, ast.Call)]:
            if isinstance(c.func, ast.Attribute) and c.func.attr == 'extend' and c.args:
                n += 1
                a = c.args[0]
                ctx.check(plain(a) or snap(a), 'Monitor.%s#%s' % (name, unparse(c.func.value)), 'extended by a plain list or a snapshot',
                          'Monitor.%s extends %s by the lazy value %s: when the argument is the monitor itself the iterator reads the list it is extending and never ends'
                          % (name, unparse(c.func.value), unparse(a)[:50]), f, c)
            if isinstance(c.func, ast.Name) and c.func.id == 'enumerate' and c.args:
                n += 1
                a = c.args[0]
                ctx.check(snap(a), 'Monitor.%s#enumerate(%s)' % (name, unparse(a)[:30]), 'enumerates a snapshot',
                          'Monitor.%s inserts into self while enumerating %s: when the argument is the monitor itself every insertion lengthens the list being enumerated and the call never returns'
                          % (name, unparse(a)[:50]), f, c)
    ctx.need(n >= 5, 'expected >= 5 concatenation reads in extend / prepend, found %d' % n)


@rule('C20.m', min_instances=3)
def single_record_slices_reach_the_last_record(ctx):
    """`m[i] = other` with an integer i replaces record i by the records of `other`: it is written as a slice store a[i:stop]; for a negative i the slice [i:i+1] is right except at i == -1, where the stop 0 makes it the empty slice in front of the last record (the records are inserted, nothing is replaced). Every slice store of Monitor.__setitem__ whose stop is start+1 must therefore either have a start that was normalised (i % n, or i += n under i < 0) or write the stop as `(start+1) or None`"""
    M = ctx.cls(MO + ':Monitor')
    f = ctx.touch(M.methods['__setitem__'])
    ip = f.args()[1]
    normalised = False
    for st in walk_no_nested(f.node):
        if isinstance(st, ast.Assign) and any(isinstance(t_, ast.Name) and t_.id == ip for t_ in st.targets) and isinstance(st.value, ast.BinOp) and isinstance(st.value.op, ast.Mod):
            normalised = True
        if isinstance(st, ast.If) and isinstance(st.test, ast.Compare) and isinstance(st.test.left, ast.Name) and st.test.left.id == ip and isinstance(st.test.ops[0], ast.Lt) \
                and unparse(st.test.comparators[0]) == '0' and any(isinstance(s, ast.AugAssign) and isinstance(s.op, ast.Add) and isinstance(s.target, ast.Name) and s.target.id == ip for s in st.body):
            normalised = True
    n = 0
    bld = T.Builder()
    for st in stmts_of(f.node):
        if isinstance(st, ast.Assign) and len(st.targets) == 1 and isinstance(st.targets[0], ast.Name) and st.targets[0].id != ip:
            bld.exec_stmt(st)
        if not (isinstance(st, ast.Assign) and len(st.targets) == 1 and isinstance(st.targets[0], ast.Subscript) and isinstance(st.targets[0].slice, ast.Slice)):
            continue
        sl = st.targets[0].slice
        if sl.lower is None or sl.upper is None:
            continue
        lo, up = T.simp(bld.t(sl.lower)), T.simp(bld.t(sl.upper))
        one_more = T.simp(T.padd(T.as_poly(lo), T.as_poly(T.num(1))))
        if up == one_more:
            n += 1
            ctx.check(normalised, 'Monitor.__setitem__#%s' % unparse(st.targets[0].value), 'one-record slice also addresses the last record',
                      'Monitor.__setitem__ stores into %s: at index -1 the stop is 0 and the slice is empty, so m[-1] = other inserts the records in front of the last one instead of replacing it'
                      % unparse(st.targets[0]), f, st)
        elif up[0] == 'or' and one_more in up[1:] and any(x == ('const', None) or x == ('name', 'None') or x is None for x in up[1:]):
            n += 1
            ctx.check(True, 'Monitor.__setitem__#%s' % unparse(st.targets[0].value), 'one-record slice also addresses the last record', '', f, st)
    ctx.need(n >= 3, 'Monitor.__setitem__: expected the three one-record slice stores of the integer branch, found %d' % n)


@rule('C20.n', min_instances=3)
def foreign_costs_are_read_through_the_k_conversion(ctx):
    """who may read another monitor's raw cost list: `_y` holds the costs multiplied by the OWNER's k, so inside Monitor only `_get_y` (which combines the two k's) and the copy / pickle plumbing may read `<other>._y`; every method that takes a monitor and stores its costs into self (extend, prepend, item and slice assignment) reads them through `self._get_y(other)` - a raw `other._y` copied into `self._y` is re-interpreted with self's k (Monitor(k=-1)[:] = other flipped the signs)"""
    M = ctx.cls(MO + ':Monitor')
    n = 0
    for name, f in sorted(M.methods.items()):
        if name in ('_get_y', '__deepcopy__', '__reduce__', '__getstate__', '__setstate__', '__getitem__', '__add__'):
            continue
        sn = selfname_of(f)
        params = [a for a in f.args() if a != sn]
        for p in params:
            # the parameter may be re-bound to a fresh empty Monitor() for Null: still the same role
            reads = [a for a in ast.walk(f.node) if isinstance(a, ast.Attribute) and a.attr == '_y' and isinstance(a.ctx, ast.Load) and isinstance(a.value, ast.Name) and a.value.id == p]
            conv = calls_where(f.node, lambda c: self_call(c, '_get_y', sn) and c.args and isinstance(c.args[0], ast.Name) and c.args[0].id == p, include_lambda=False)
            if not reads and not conv:
                continue
            n += 1
            ctx.touch(f)
            ctx.check(not reads, 'Monitor.%s#%s._y' % (name, p), 'costs of the other monitor are read through self._get_y(%s)' % p,
                      'Monitor.%s copies %s._y - costs scaled by %s.k - into its own list, which is read back with self.k: with different scaling factors the recorded costs come back multiplied by k_other/k_self'
                      % (name, p, p), f, enclosing_stmt(reads[0]) if reads else f.node)
    ctx.need(n >= 3, 'expected >= 3 Monitor methods that take over the costs of another monitor, found %d' % n)


@rule('C20.o', min_instances=3)
def an_id_of_zero_is_an_id(ctx):
    """recorded ids are data (0 is the id of the first member of an ensemble): the readers of mystic.munge decide "no ids were recorded" by `is None` / `len(ids)` / `.count(None)` only - never by the truth value of the list or of its elements (`not ids` aside from the empty list, `any(ids)`, `all(ids)`): a history whose ids are all 0 would come back without ids and disagree with the monitor's own log file"""
    m = ctx.model.modules[MU]
    n = 0
    for q, fi in sorted(m.funcs.items()):
        uses = [x for x in ast.walk(fi.node) if isinstance(x, ast.Name) and x.id == 'ids']
        if not uses:
            continue
        n += 1
        ctx.touch(fi)
        bad = None
        for c in ast.walk(fi.node):
            if isinstance(c, ast.Call) and isinstance(c.func, ast.Name) and c.func.id in ('any', 'all', 'bool') and c.args and isinstance(c.args[0], ast.Name) and c.args[0].id == 'ids':
                bad = c
            if isinstance(c, ast.BoolOp) and isinstance(c.op, ast.Or) and isinstance(c.values[0], ast.Name) and c.values[0].id == 'ids':
                bad = c
        ctx.check(bad is None, '%s#ids' % fi.qualname, '"no ids" is decided by None / length only',
                  '%s tests the recorded ids by their truth value (%s): ids that are all 0 count as "none recorded" and are dropped, so read_history(monitor, iter=True) no longer gives back the ids that were recorded'
                  % (fi.qualname, unparse(bad)[:40] if bad is not None else ''), fi, enclosing_stmt(bad) if bad is not None else fi.node)
    ctx.need(n >= 3, 'expected >= 3 functions of mystic.munge that handle ids, found %d' % n)


@rule('C20.p', min_instances=2)
def only_a_python_extension_is_stripped_from_a_file_name(ctx):
    """read_history / read_import turn '<name>.py' (.pyc, .pyo, .pyd) into the module-style '<name>'; the regular expression that does so is a constant of the source and is judged as such: it must leave every other name alone - `\\.py*.$` also strips '.pt', '.px', '.p1' (".p, any number of y, any character"), so a LoggingMonitor log called run.pt could not be read back ("Module: run not found")"""
    m = ctx.model.modules[MU]
    n = 0
    for q, fi in sorted(m.funcs.items()):
        for c in walk_no_nested(fi.node):
            if not (isinstance(c, ast.Call) and isinstance(c.func, ast.Attribute) and c.func.attr == 'sub' and len(c.args) >= 3 and isinstance(c.args[0], ast.Constant)
                    and isinstance(c.args[0].value, str) and isinstance(c.args[1], ast.Constant) and c.args[1].value == ''):
                continue
            pat = c.args[0].value
            if 'py' not in pat:
                continue
            n += 1
            ctx.touch(fi)
            try:
                rx = re.compile(pat)
            except re.error as ex:
                raise AnalysisError('%s: the pattern %r does not compile: %s' % (fi.qualname, pat, ex))
            strips = [e for e in ('.py', '.pyc', '.pyo') if rx.sub('', 'name' + e) == 'name']
            keeps = [e for e in ('.pt', '.px', '.p1', '.pkl', '.txt', '.pyx_', '.spy', '.log', '') if rx.sub('', 'name' + e) == 'name' + e]
            ctx.check(len(strips) == 3 and len(keeps) == 9, '%s#extension[%s]' % (fi.qualname, pat), 'strips .py / .pyc / .pyo and nothing else',
                      '%s strips the "python extension" with %r, which also removes %s: a history file with such a name is looked for under a different name and cannot be read back'
                      % (fi.qualname, pat, [e for e in ('.pt', '.px', '.p1', '.pkl', '.txt', '.pyx_', '.spy', '.log') if rx.sub('', 'name' + e) != 'name' + e]), fi, enclosing_stmt(c))
    ctx.need(n >= 2, 'expected the two extension-stripping substitutions of mystic.munge (read_history, read_import), found %d' % n)


@rule('C20.q', min_instances=2)
def raw_cost_lists_travel_with_their_scaling(ctx):
    """a Monitor's `_y` holds the costs multiplied by its k; code outside the Monitor class that fills a monitor's `_y` with a raw list taken from another monitor (the ensemble solvers rebuild the members' monitors from (x, y, id, info) tuples returned by the map) must give that monitor the k the list was scaled with - otherwise every later k-aware operation (item / slice assignment, extend, +) converts the costs a second time: with a copying or process map and Monitor(k=2) the ensemble's monitors reported twice the true cost"""
    n = 0
    for mname in ('mystic.abstract_ensemble_solver',):
        m = ctx.model.modules[mname]
        for q, fi in sorted(m.funcs.items()):
            raw = {}
            for st in stmts_of(fi.node):
                if isinstance(st, ast.Assign):
                    for tg in st.targets:
                        for x in ([tg] if not isinstance(tg, ast.Tuple) else tg.elts):
                            if isinstance(x, ast.Attribute) and x.attr == '_y' and isinstance(x.value, ast.Name):
                                raw.setdefault(x.value.id, st)
            for name, st in sorted(raw.items()):
                n += 1
                ctx.touch(fi)
                ks = [s2 for s2 in stmts_of(fi.node) if isinstance(s2, ast.Assign) and any(isinstance(t2, ast.Attribute) and t2.attr in ('k', '_k') and isinstance(t2.value, ast.Name) and t2.value.id == name for t2 in s2.targets)]
                ctx.check(bool(ks), '%s#%s._y' % (fi.qualname, name), 'the monitor filled with raw costs is given their scaling',
                          '%s fills %s._y with a raw (k-scaled) cost list but leaves %s.k at its default: the k-aware operations that follow (m[a:] = %s[a:]) scale the costs again - an ensemble run through a copying / '
                          'process map with Monitor(k=2) reports twice the true cost' % (fi.qualname, name, name, name), fi, st)
    ctx.need(n >= 2, 'expected the two scratch monitors of __update_allSolvers, found %d' % n)


@rule('C20.r', min_instances=3)
def reporting_monitors_take_a_zero_d_cost_as_a_scalar(ctx):
    """Verbose / Logging monitors pick "the best" entry of a vector-valued cost with self._y[-1][best] when all=False; what they test to decide that the cost is a vector must agree with what Monitor.__call__ stored: a 0-d array (Powell's first cost) is stored as a scalar (repair f13ad96), so the test has to exclude it (ndim) - otherwise the first record of a Powell run raises IndexError under all=False"""
    n = 0
    m = ctx.model.modules[MO]
    for q, fi in sorted(m.funcs.items()):
        if fi.name != '__call__' or not fi.cls:
            continue
        for st in walk_no_nested(fi.node):
            if isinstance(st, ast.If) and 'list_or_tuple_or_ndarray(y)' in unparse(st.test) and any('[best]' in unparse(x) for x in ast.walk(st)):
                n += 1
                ctx.touch(fi)
                ctx.check('ndim' in unparse(st.test), '%s#cost-is-vector@%d' % (fi.qualname, n), 'a 0-d cost is a scalar here too (%s)' % ' '.join(unparse(st.test).split())[:60],
                          '%s decides with `%s` that the cost is a vector and then indexes the stored record with [best]: a 0-d array passes the test but was stored as a scalar, so Powell\'s first record raises IndexError when all=False'
                          % (fi.qualname, ' '.join(unparse(st.test).split())), fi, st)
                # ... and the test only LOOKS at the cost: numpy.ndim / shape / size / asarray convert their argument first, which raises for the
                # ragged records the monitors otherwise print as they are ([cost, [gradient...]]) - after Monitor.__call__ has stored the step
                conv = [c for c in ast.walk(st.test) if isinstance(c, ast.Call) and callee_text(c).split('.')[-1] in ('ndim', 'shape', 'size', 'asarray', 'array', 'atleast_1d')
                        and c.args and isinstance(c.args[0], ast.Name) and c.args[0].id == 'y']
                ctx.check(not conv, '%s#cost-not-converted@%d' % (fi.qualname, n), 'the test reads an attribute of the cost, it does not convert it',
                          '%s decides that the cost is a scalar with %s, which converts the cost to an array first: a ragged record (a cost with its gradient, [1.0, [2.0, 3.0]]) raises ValueError here - after the step has been stored, so the monitor and its log disagree'
                          % (fi.qualname, ' '.join(unparse(conv[0]).split()) if conv else ''), fi, st)
    ctx.need(n >= 3, 'expected the three reporting monitors (verbose, logging, verbose-logging), found %d' % n)


@rule('C20.s', min_instances=1)
def read_import_leaves_sys_path_as_it_found_it(ctx):
    """read_import puts the directory of the log file on sys.path while it executes the file (the file may import its neighbours) and takes it off again: it removes THE ENTRY IT ADDED (sys.path.remove(<the same expression>), in a finally) - not whatever is first (pop(0)): a file that inserts into sys.path itself would lose its entry and leave the log directory behind, and every later read by module name (C20.i) would search it"""
    f = ctx.func(MU + ':read_import')
    ins = [c for c in ast.walk(f.node) if isinstance(c, ast.Call) and ' '.join(unparse(c.func).split()) in ('sys.path.insert', 'sys.path.append')]
    pops = [c for c in ast.walk(f.node) if isinstance(c, ast.Call) and ' '.join(unparse(c.func).split()) == 'sys.path.pop']
    dels = [d for d in ast.walk(f.node) if isinstance(d, ast.Delete) and any('sys.path' in unparse(t_) for t_ in d.targets)]
    if not ins:
        ctx.ok('read_import#sys.path', 'sys.path is not modified', f, f.node)
        return
    for c in ins:
        entry = c.args[-1]
        rem = [r for r in ast.walk(f.node) if isinstance(r, ast.Call) and ' '.join(unparse(r.func).split()) == 'sys.path.remove' and r.args and same(r.args[0], entry)]
        in_finally = [r for r in rem if any(isinstance(p_, ast.Try) and any(r in list(ast.walk(fb)) for fb in p_.finalbody) for p_ in ast.walk(f.node))]
        ctx.check(bool(in_finally) and not pops and not dels, 'read_import#sys.path', 'the entry added is the entry removed (in a finally)',
                  'read_import adds %s to sys.path and %s: an entry the file itself inserted is dropped and the log directory stays on sys.path' %
                  (' '.join(unparse(entry).split())[:40], 'takes off whatever is first (%s)' % ' '.join(unparse((pops or dels)[0]).split())[:40] if (pops or dels) else 'does not remove it on every exit'), f, enclosing_stmt(c))
