"""helpers shared by the rule modules"""
import ast

from ..srcmodel import AnalysisError, walk_no_nested, attr_chain, unparse, norm_stmt, parent, enclosing_stmt
from ..paths import enumerate_paths, enumerate_block, calls_in, event_nodes
from .. import terms as T

SOLVER_BASE = 'mystic.abstract_solver:AbstractSolver'
CONCRETE_SOLVERS = {
    'DE': 'mystic.differential_evolution:DifferentialEvolutionSolver',
    'DE2': 'mystic.differential_evolution:DifferentialEvolutionSolver2',
    'NM': 'mystic.scipy_optimize:NelderMeadSimplexSolver',
    'Powell': 'mystic.scipy_optimize:PowellDirectionalSolver',
}


def callee_text(call):
    f = call.func
    if isinstance(f, (ast.Name, ast.Attribute)):
        return attr_chain(f) or unparse(f)
    return unparse(f)


def is_self_attr(node, name=None, selfname='self'):
    return (isinstance(node, ast.Attribute) and isinstance(node.value, ast.Name)
            and node.value.id == selfname and (name is None or node.attr == name))


def self_call(call, name=None, selfname='self'):
    """call of the form self.<name>(...)"""
    return isinstance(call, ast.Call) and is_self_attr(call.func, name, selfname)


def calls_where(node, pred, include_lambda=True):
    out = []
    if isinstance(node, ast.Call) and pred(node):
        out.append(node)
    for n in walk_no_nested(node, include_lambda=include_lambda):
        if isinstance(n, ast.Call) and pred(n):
            out.append(n)
    out.sort(key=lambda n: (n.lineno, n.col_offset))
    return out


def contains_node(node, pred):
    if pred(node):
        return True
    return any(pred(n) for n in walk_no_nested(node))


def kwarg(call, name, pos=None):
    for k in call.keywords:
        if k.arg == name:
            return k.value
    if pos is not None and len(call.args) > pos:
        return call.args[pos]
    return None


def const_value(node, default=None):
    if isinstance(node, ast.Constant):
        return node.value
    return default


def stmts_of(fnode):
    """all statements of a function (no nested defs), source order"""
    out = [n for n in walk_no_nested(fnode) if isinstance(n, ast.stmt)]
    out.sort(key=lambda n: (n.lineno, n.col_offset))
    return out


def assigned_names(st):
    out = []
    tg = []
    if isinstance(st, ast.Assign):
        tg = st.targets
    elif isinstance(st, (ast.AugAssign, ast.AnnAssign)):
        tg = [st.target]
    elif isinstance(st, ast.For):
        tg = [st.target]
    for t in tg:
        for n in ast.walk(t):
            if isinstance(n, ast.Name):
                out.append(n.id)
    return out


def store_targets(st):
    """flattened list of target expressions of an assignment-like statement"""
    tg = []
    if isinstance(st, ast.Assign):
        tg = list(st.targets)
    elif isinstance(st, (ast.AugAssign, ast.AnnAssign)):
        tg = [st.target]
    out = []
    for t in tg:
        if isinstance(t, (ast.Tuple, ast.List)):
            out.extend(t.elts)
        else:
            out.append(t)
    return out


def guards_of(node, stop=None):
    """[(test, truth, ifnode)] of the enclosing if/while statements of node (innermost first)"""
    out = []
    child = node
    p = parent(node)
    while p is not None and p is not stop:
        if isinstance(p, (ast.If, ast.While)):
            if any(child is s for s in p.body):
                out.append((p.test, True, p))
            elif any(child is s for s in p.orelse):
                out.append((p.test, False, p))
        elif isinstance(p, ast.IfExp):
            if child is p.body:
                out.append((p.test, True, p))
            elif child is p.orelse:
                out.append((p.test, False, p))
        if isinstance(p, (ast.FunctionDef, ast.AsyncFunctionDef, ast.Lambda)):
            break
        child = p
        p = parent(p)
    return out


def selfname_of(finfo):
    f = finfo
    while f is not None:
        if f.cls is not None and f.node.args.args:
            return f.node.args.args[0].arg
        f = f.parent
    return 'self'


def t(node, **kw):
    return T.term(node, **kw)


def same(a, b, **kw):
    return T.term(a, **kw) == T.term(b, **kw)


def symbolic_run(path, builder=None, on_stmt=None):
    """forward-substitute along one path.  Returns (builder, conds) with
    conds = [(term, truth, test_node)] evaluated in the environment current at the test"""
    b = builder or T.Builder()
    conds = []
    for e in path.events:
        if e[0] == 'stmt':
            st = e[1]
            if on_stmt is not None:
                on_stmt(st, b)
            b.exec_stmt(st)
        elif e[0] == 'cond':
            conds.append((T.simp(b.t(e[1])), e[2], e[1]))
        elif e[0] == 'iter':
            loop = e[1]
            if isinstance(loop, ast.For):
                # loop variable: an opaque element of the iterable
                for n in ast.walk(loop.target):
                    if isinstance(n, ast.Name):
                        b.env.pop(n.id, None)
    return b, conds


def cond_atoms(term):
    """split a condition term into its and/or/not leaves"""
    k = term[0] if isinstance(term, tuple) else None
    if k in ('and', 'or'):
        out = []
        for x in term[1:]:
            out.extend(cond_atoms(x))
        return out
    if k == 'not':
        return cond_atoms(term[1])
    return [term]


def mentions(term, text):
    """does the rendered term mention `text` (an attribute chain such as self._maxfun)"""
    return text in T.show(term)


# ---------------------------------------------------------------- sliced symbolic execution
def _names_in(node):
    return set(n.id for n in ast.walk(node) if isinstance(n, ast.Name))


def backward_slice(fnode, seeds):
    """names whose values can flow into `seeds` through plain assignments inside fnode (flow-insensitive closure)"""
    names = set(seeds)
    assigns = []
    for st in walk_no_nested(fnode):
        if isinstance(st, (ast.Assign, ast.AugAssign, ast.AnnAssign)) and getattr(st, 'value', None) is not None:
            assigns.append((set(assigned_names(st)), _names_in(st.value) | (_names_in(st.target) if isinstance(st, ast.AugAssign) else set())))
        elif isinstance(st, ast.For):
            assigns.append((set(assigned_names(st)), _names_in(st.iter)))
    changed = True
    while changed:
        changed = False
        for tg, used in assigns:
            if tg & names and not used <= names:
                names |= used
                changed = True
    return names


def sliced_paths(fnode, seeds=None, extra=None, unroll=(0, 1), max_paths=50000):
    """paths of fnode in which only the statements that can influence the returned values (or `seeds`) are kept;
    everything else collapses to skips, so independent option handling does not multiply the paths"""
    rets = [n for n in walk_no_nested(fnode) if isinstance(n, ast.Return) and n.value is not None]
    s = set(seeds or ())
    for r in rets:
        s |= _names_in(r.value)
    names = backward_slice(fnode, s)

    def rel(n):
        if isinstance(n, (ast.Return, ast.Raise)):
            return True
        if isinstance(n, (ast.Assign, ast.AugAssign, ast.AnnAssign, ast.For)):
            return bool(set(assigned_names(n)) & names)
        if extra is not None and extra(n):
            return True
        return False
    return enumerate_paths(fnode, relevant=rel, unroll=unroll, max_paths=max_paths), names


def return_terms(fnode, seeds=None, extra=None, unroll=(0, 1), builder=None):
    """[(path, returned canonical term, builder)] with locals forward-substituted along each (sliced) path"""
    paths, names = sliced_paths(fnode, seeds, extra, unroll)
    out = []
    for p in paths:
        if p.exit != 'return' or p.exit_node is None or p.exit_node.value is None:
            continue
        b, conds = symbolic_run(_without_exit(p), builder.copy() if builder is not None else None)
        out.append((p, T.simp(b.t(p.exit_node.value)), b, conds))
    return out


class _P(object):
    def __init__(self, events):
        self.events = events


def _without_exit(p):
    ev = [e for e in p.events if not (e[0] == 'stmt' and e[1] is p.exit_node)]
    return _P(ev)


def flatten_seq(term):
    """elements of a tuple/list term, looking through concatenations; None for anything else"""
    if not isinstance(term, tuple) or not term:
        return None
    if term[0] in ('tuple', 'list'):
        return list(term[1:])
    if term[0] == 'concat':
        a, b = flatten_seq(term[1]), flatten_seq(term[2])
        if a is None or b is None:
            return None
        return a + b
    return None


def callable_passed_to(ctx, finfo, callee_suffix, pos=0):
    """the nested function (def or `name = lambda ...`) that finfo hands to the call of <callee_suffix> as argument `pos`;
    found through the data flow (the argument's name), whatever it is called.  Returns a FuncInfo."""
    calls = calls_where(finfo.node, lambda c: callee_text(c).split('.')[-1] == callee_suffix, include_lambda=False)
    if not calls or len(calls[0].args) <= pos:
        raise AnalysisError('%s no longer calls %s with a callable' % (finfo.qualname, callee_suffix))
    a = calls[0].args[pos]
    if not isinstance(a, ast.Name):
        raise AnalysisError('%s hands %s to %s (not a named local function)' % (finfo.qualname, unparse(a)[:40], callee_suffix))
    return ctx.func('%s:%s.%s' % (finfo.module.name, finfo.qualname, a.id)), calls[0]


# ---------------------------------------------------------------- pure helper expansion
def _is_pure_helper(fnode):
    """a function made of plain assignments, ifs and returns only (no loops, stores through attributes/subscripts, try, with)"""
    for n in walk_no_nested(fnode):
        if isinstance(n, (ast.For, ast.While, ast.Try, ast.With, ast.AugAssign, ast.Delete, ast.Global, ast.Nonlocal, ast.Yield, ast.YieldFrom)):
            return False
        if isinstance(n, ast.Assign) and not all(isinstance(tg, ast.Name) for tg in n.targets):
            return False
        if isinstance(n, ast.Expr) and not isinstance(n.value, ast.Constant):
            return False
    return True


def helper_value(ctx, finfo, callee_name, args, kws, depth=2):
    """the value of a call to a *pure* helper of the analysed package, as a conditional-expression term over the caller's
    argument terms (None when the callee is not a pure mystic function): lets a rule see through an extracted helper"""
    r = ctx.model.resolve_in_func(finfo, callee_name) if finfo is not None else None
    if not r or r[0] != 'func':
        return None
    g = r[1]
    if g.cls is not None or not _is_pure_helper(g.node):
        return None
    a = g.node.args
    if a.vararg or a.kwarg or a.kwonlyargs:
        return None
    params = [x.arg for x in a.posonlyargs + a.args]
    if len(args) > len(params):
        return None
    env = dict(zip(params, args))
    for k, v in kws:
        if k in params and k not in env:
            env[k] = v
    defaults = a.defaults
    for p_, d in zip(params[len(params) - len(defaults):], defaults):
        if p_ not in env:
            env[p_] = T.term(d)
    if set(params) - set(env):
        return None
    ctx.touch(g)
    rts = return_terms(g.node, builder=T.Builder(env=env))
    if not rts:
        return None
    out = None
    for p, term, b, conds in reversed(rts):
        cond = None
        for c, tr, _ in conds:
            lit = c if tr else ('not', c)
            cond = lit if cond is None else ('and', cond, lit)
        out = term if (out is None or cond is None) else ('ifexp', cond, term, out)
    return out


def expand_helpers(ctx, finfo, term, depth=2):
    """replace calls to pure mystic helpers inside `term` by their values (bounded depth)"""
    if depth <= 0 or not isinstance(term, tuple) or not term:
        return term
    if term[0] == 'call' and isinstance(term[1], tuple) and term[1][:1] == ('name',):
        args = tuple(expand_helpers(ctx, finfo, x, depth) for x in term[2])
        v = helper_value(ctx, finfo, term[1][1], args, term[3], depth)
        if v is not None:
            return expand_helpers(ctx, finfo, v, depth - 1)
        return ('call', term[1], args, term[3])
    return tuple(expand_helpers(ctx, finfo, x, depth) if isinstance(x, tuple) else x for x in term)


def decided(atom, lits):
    """True / False / None: what the path literals entail about `atom` (truth table over their atoms; `is not` read as not `is`)"""
    import itertools
    from .. import pathcond as PC

    def norm(t_):
        if isinstance(t_, tuple) and t_ and t_[0] == 'cmp' and t_[1] == 'isnot':
            return ('not', ('cmp', 'is') + t_[2:])
        if isinstance(t_, tuple) and t_ and t_[0] in ('and', 'or', 'not'):
            return (t_[0],) + tuple(norm(x) for x in t_[1:])
        return t_
    fs = [norm(c) if tr else ('not', norm(c)) for c, tr in lits if not (c[0] == 'const')]
    atoms = [atom]
    for f_ in fs:
        for a in PC.leaves(f_):
            if a not in atoms:
                atoms.append(a)
    if len(atoms) > 12:
        return None
    seen = set()
    for bits in itertools.product((False, True), repeat=len(atoms)):
        val = dict(zip(atoms, bits))
        if all(PC.ev(f_, val) for f_ in fs):
            seen.add(val[atom])
    return seen.pop() if len(seen) == 1 else None




def combined_value(stmts, name, builder=None):
    """the value `name` holds after the straight-line/if block `stmts`, as one term: the per-path values folded into a
    conditional expression over the path conditions (None when no path binds it)"""
    names = backward_slice(ast.Module(body=list(stmts), type_ignores=[]), {name})

    def rel(n):
        if isinstance(n, (ast.Assign, ast.AugAssign)):
            tgs = n.targets if isinstance(n, ast.Assign) else [n.target]
            for tg in tgs:
                base = tg
                while isinstance(base, (ast.Subscript, ast.Attribute)):
                    base = base.value
                if isinstance(base, ast.Name) and base.id in names:
                    return True
        return False
    paths = [p for p in enumerate_block(list(stmts), relevant=rel, unroll=(0, 1)) if p.exit != 'raise']
    out = None
    for p in reversed(paths):
        b, conds = symbolic_run(p, builder.copy() if builder is not None else None)
        v = b.env.get(name)
        if v is None:
            return None
        v = T.simp(v)
        cond = None
        for c, tr, _ in conds:
            lit = c if tr else ('not', c)
            cond = lit if cond is None else ('and', cond, lit)
        out = v if (out is None or cond is None) else ('ifexp', cond, v, out)
    return out


def guard_terms(node, stop=None):
    """[(canonical term, truth)] of the enclosing if/while tests of `node`, each read with the plain locals bound by the
    statements that precede the test in its own block substituted (`xnew = c(x[:]); if xnew != x:` tests c(x[:]) != x)"""
    out = []
    for test, truth, owner in guards_of(node, stop=stop):
        b = T.Builder()
        par = parent(owner)
        if par is not None and not isinstance(owner, ast.IfExp):
            for field in ('body', 'orelse', 'finalbody'):
                blk = getattr(par, field, None)
                if isinstance(blk, list) and owner in blk:
                    scope = stop if stop is not None else par
                    for st in blk[:blk.index(owner)]:
                        # only genuine temporaries: bound once and read once (by this test) in the whole function
                        if isinstance(st, ast.Assign) and len(st.targets) == 1 and isinstance(st.targets[0], ast.Name):
                            nm = st.targets[0].id
                            stores = sum(1 for n in ast.walk(scope) if isinstance(n, ast.Name) and n.id == nm and isinstance(n.ctx, ast.Store))
                            loads = sum(1 for n in ast.walk(scope) if isinstance(n, ast.Name) and n.id == nm and isinstance(n.ctx, ast.Load))
                            if stores == 1 and loads == 1 and any(isinstance(n, ast.Name) and n.id == nm for n in ast.walk(test)):
                                b.exec_stmt(st)
        out.append((T.simp(b.t(test)), truth))
    return out


def wrapper_forwarding(ctx, f):
    """for a scipy-style wrapper: which settings reach the solver before Solve on every normal path.
    Returns {setter: [(path, args terms, kws dict, literals)]} for calls <solver>.<Setter>(...) that precede <solver>.Solve(...),
    plus 'paths' = number of paths that reach Solve; the solver variable is found as the receiver of .Solve"""
    solves = calls_where(f.node, lambda c: isinstance(c.func, ast.Attribute) and c.func.attr == 'Solve' and isinstance(c.func.value, ast.Name), include_lambda=False)
    if not solves:
        raise AnalysisError('%s never calls <solver>.Solve' % f.qualname)
    sv = solves[0].func.value.id

    kwname = f.node.args.kwarg.arg if f.node.args.kwarg else None
    params = set(f.args())

    def rel(n):
        if isinstance(n, ast.Call) and isinstance(n.func, ast.Attribute) and isinstance(n.func.value, ast.Name) and n.func.value.id == sv:
            return True
        # tests on what the caller gave (`'penalty' in kwds`, `bounds is not None`) stay visible even when their branch is empty
        if isinstance(n, ast.Compare) and any(isinstance(x, ast.Name) and (x.id == kwname or x.id in params) for x in ast.walk(n)):
            return True
        return isinstance(n, (ast.Return, ast.Raise))
    out = {'paths': 0, 'solver': sv}
    paths = [p for p in enumerate_paths(f.node, relevant=rel, unroll=(0, 1)) if p.exit != 'raise']
    for p in paths:
        b = T.Builder()
        lits = []
        seen_here = {}
        solved = False
        for e in p.events:
            if e[0] == 'cond':
                c, tr = T.simp(b.t(e[1])), e[2]
                while isinstance(c, tuple) and c and c[0] == 'not':
                    c, tr = c[1], not tr
                if isinstance(c, tuple) and c and c[0] == 'cmp' and c[1] in ('isnot', 'notin'):
                    c, tr = ('cmp', {'isnot': 'is', 'notin': 'in'}[c[1]]) + c[2:], not tr
                lits.append((c, tr))
            elif e[0] == 'stmt':
                st = e[1]
                for c in calls_where(st, lambda c: isinstance(c.func, ast.Attribute) and isinstance(c.func.value, ast.Name) and c.func.value.id == sv, include_lambda=False):
                    if c.func.attr == 'Solve':
                        solved = True
                    elif not solved:
                        seen_here.setdefault(c.func.attr, []).append((p, [T.simp(b.t(a)) for a in c.args],
                                                                    dict((k.arg, T.simp(b.t(k.value))) for k in c.keywords if k.arg), list(lits)))
                if isinstance(st, ast.Assign) and all(isinstance(tg, (ast.Name, ast.Tuple)) for tg in st.targets):
                    b.exec_stmt(st)
        if solved:
            out['paths'] += 1
            out.setdefault('per_path', []).append((p, seen_here, list(lits)))
    return out


_ITER_BUILTINS = ('iter', 'zip', 'map', 'filter', 'enumerate', 'reversed')


def _is_iterator_expr(v):
    """expression that builds a one-shot iterator"""
    if isinstance(v, ast.GeneratorExp):
        return True
    if isinstance(v, ast.Call):
        if isinstance(v.func, ast.Name) and v.func.id in _ITER_BUILTINS:
            return True
        if isinstance(v.func, ast.Attribute) and isinstance(v.func.value, ast.Name) and v.func.value.id in ('it', 'itertools'):
            return True
        if isinstance(v.func, ast.Name) and v.func.id in ('cycle', 'chain', 'islice', 'count', 'repeat', 'tee'):
            return True
    return False


_MUTATORS = ('append', 'extend', 'insert', 'pop', 'remove', 'clear', 'update', 'setdefault', 'popitem', 'sort', 'reverse', 'add', 'discard', '__setitem__')


def state_between_calls(outer, inner):
    """[(kind, name, node)] - ways the nested function `inner` of the factory `outer` (ast nodes) can carry state from one call to
    the next: an outer-scope binding that is a one-shot iterator and is read inside (kind 'iterator'), an outer-scope name
    mutated inside (method call / item store / augmented item store: 'mutated'), a nonlocal / global declaration ('nonlocal')"""
    params = set(a.arg for a in inner.args.args + inner.args.kwonlyargs)
    if inner.args.vararg:
        params.add(inner.args.vararg.arg)
    if inner.args.kwarg:
        params.add(inner.args.kwarg.arg)
    local = set(params)
    for n in ast.walk(inner):
        if isinstance(n, ast.Name) and isinstance(n.ctx, (ast.Store, ast.Del)):
            local.add(n.id)
        elif isinstance(n, ast.ExceptHandler) and n.name:
            local.add(n.name)
    out = []
    for n in ast.walk(inner):
        if isinstance(n, (ast.Nonlocal, ast.Global)):
            for nm in n.names:
                out.append(('nonlocal', nm, n))
                local.discard(nm)
    outer_bind = {}
    for s in walk_no_nested(outer):
        if isinstance(s, ast.Assign):
            for tg in s.targets:
                if isinstance(tg, ast.Name):
                    outer_bind.setdefault(tg.id, []).append(s.value)
    loaded = set(n.id for n in ast.walk(inner) if isinstance(n, ast.Name) and isinstance(n.ctx, ast.Load) and n.id not in local)
    # local aliases of the iterator builtins (`_zip = zip`) build one-shot iterators just the same
    alias = set(nm for nm, vs in outer_bind.items() if any(isinstance(v, ast.Name) and v.id in _ITER_BUILTINS for v in vs))
    for nm in sorted(loaded):
        for v in outer_bind.get(nm, []):
            if _is_iterator_expr(v) or (isinstance(v, ast.Call) and isinstance(v.func, ast.Name) and v.func.id in alias):
                out.append(('iterator', nm, v))
    for n in ast.walk(inner):
        base = None
        if isinstance(n, ast.Call) and isinstance(n.func, ast.Attribute) and n.func.attr in _MUTATORS:
            base = n.func.value
        elif isinstance(n, ast.Subscript) and isinstance(n.ctx, (ast.Store, ast.Del)):
            base = n.value
        while isinstance(base, ast.Subscript):
            base = base.value
        if isinstance(base, ast.Name) and base.id not in local and (base.id in outer_bind or base.id in
                                                                   set(a.arg for a in outer.args.args) | {getattr(outer.args.vararg, 'arg', None), getattr(outer.args.kwarg, 'arg', None)}):
            out.append(('mutated', base.id, n))
    return out


def shared_class_containers(model, classes):
    """[(class, attribute, method FuncInfo, node)]: a mutable container bound at class level (dict / list / set literal or
    constructor) in one of `classes` that some method of the hierarchy mutates through self - directly (self.A.update(...),
    self.A[k] = v, self.A += ...) or through a local alias (s = self.A; s.update(...)) - without the instance ever getting
    its own (no `self.A = ...` store in any method).  Such state is shared by every instance of the class."""
    out = []
    attrs = {}
    for k in classes:
        for st in k.node.body:
            if isinstance(st, ast.Assign) and len(st.targets) == 1 and isinstance(st.targets[0], ast.Name):
                v = st.value
                if isinstance(v, (ast.Dict, ast.List, ast.Set)) or (isinstance(v, ast.Call) and isinstance(v.func, ast.Name) and v.func.id in ('dict', 'list', 'set', 'defaultdict', 'OrderedDict')):
                    attrs[st.targets[0].id] = k
    if not attrs:
        return out
    rebound = set()
    for k in classes:
        for m in k.methods.values():
            sn = selfname_of(m)
            for n in ast.walk(m.node):
                if isinstance(n, ast.Attribute) and isinstance(n.ctx, ast.Store) and isinstance(n.value, ast.Name) and n.value.id == sn and n.attr in attrs:
                    rebound.add(n.attr)
    for k in classes:
        for m in k.methods.values():
            sn = selfname_of(m)
            alias = {}
            for st in stmts_of(m.node):
                if isinstance(st, ast.Assign) and len(st.targets) == 1 and isinstance(st.targets[0], ast.Name) and isinstance(st.value, ast.Attribute) \
                        and isinstance(st.value.value, ast.Name) and st.value.value.id == sn and st.value.attr in attrs:
                    alias[st.targets[0].id] = st.value.attr
            for n in ast.walk(m.node):
                base = None
                if isinstance(n, ast.Call) and isinstance(n.func, ast.Attribute) and n.func.attr in _MUTATORS:
                    base = n.func.value
                elif isinstance(n, ast.Subscript) and isinstance(n.ctx, (ast.Store, ast.Del)):
                    base = n.value
                elif isinstance(n, ast.AugAssign):
                    base = n.target
                while isinstance(base, ast.Subscript):
                    base = base.value
                a = None
                if isinstance(base, ast.Attribute) and isinstance(base.value, ast.Name) and base.value.id == sn and base.attr in attrs:
                    a = base.attr
                elif isinstance(base, ast.Name) and base.id in alias:
                    a = alias[base.id]
                if a is not None and a not in rebound:
                    out.append((attrs[a], a, m, n))
    return out


def escaping_mutable_defaults(fnode):
    """[(parameter, how, node)] for parameters whose default is a mutable literal / constructor call and which the function
    stores into an attribute, puts into a container, returns, or mutates in place (also from a nested function): the one
    default object is then shared by every call that omits the argument"""
    a = fnode.args
    params = a.posonlyargs + a.args
    defs = [None] * (len(params) - len(a.defaults)) + list(a.defaults)
    cand = {}
    for p_, d in list(zip(params, defs)) + list(zip(a.kwonlyargs, a.kw_defaults)):
        if d is not None and (isinstance(d, (ast.List, ast.Dict, ast.Set)) or (isinstance(d, ast.Call) and isinstance(d.func, (ast.Name, ast.Attribute)))):
            # a literal container, or ANY object constructed once at definition time (Monitor(), dict(), ...)
            if isinstance(d, ast.Call) and isinstance(d.func, ast.Name) and d.func.id in ('tuple', 'frozenset', 'float', 'int', 'str', 'bool'):
                continue
            cand[p_.arg] = d
    if not cand:
        return []
    out = []
    _HARMLESS = ('type', 'len', 'isinstance', 'list', 'tuple', 'dict', 'iter', 'sorted', 'enumerate', 'zip', 'set', 'id', 'bool', 'str', 'repr', 'print',
                 'min', 'max', 'sum', 'any', 'all', 'hasattr', 'getattr', 'asarray', 'array', 'copy', 'deepcopy')
    for n in ast.walk(fnode):
        if isinstance(n, ast.Call):
            callee = n.func.id if isinstance(n.func, ast.Name) else (n.func.attr if isinstance(n.func, ast.Attribute) else '')
            if callee in _HARMLESS or callee in _MUTATORS:
                continue
            for arg in list(n.args) + [k.value for k in n.keywords]:
                if isinstance(arg, ast.Name) and arg.id in cand:
                    out.append((arg.id, 'handed to %s()' % callee, n))
    rebound_first = set()
    # a parameter that is unconditionally rebound to a fresh object before any use is harmless: not modelled (conservative)
    for n in ast.walk(fnode):
        if isinstance(n, ast.Assign):
            v = n.value
            if isinstance(v, ast.Name) and v.id in cand:
                for tg in n.targets:
                    if isinstance(tg, ast.Attribute):
                        out.append((v.id, 'stored as %s' % unparse(tg), n))
                    elif isinstance(tg, ast.Subscript):
                        out.append((v.id, 'stored into %s' % unparse(tg)[:30], n))
        elif isinstance(n, ast.Return) and isinstance(n.value, ast.Name) and n.value.id in cand:
            out.append((n.value.id, 'returned', n))
        elif isinstance(n, ast.Call) and isinstance(n.func, ast.Attribute) and n.func.attr in _MUTATORS:
            base = n.func.value
            while isinstance(base, ast.Subscript):
                base = base.value
            if isinstance(base, ast.Name) and base.id in cand:
                out.append((base.id, 'mutated by .%s()' % n.func.attr, n))
            for arg in n.args:
                if isinstance(arg, ast.Name) and arg.id in cand and n.func.attr in ('append', 'add', 'insert', 'setdefault'):
                    out.append((arg.id, 'put into a container', n))
        elif isinstance(n, ast.Subscript) and isinstance(n.ctx, (ast.Store, ast.Del)):
            base = n.value
            while isinstance(base, ast.Subscript):
                base = base.value
            if isinstance(base, ast.Name) and base.id in cand:
                out.append((base.id, 'item store', n))
        elif isinstance(n, ast.AugAssign) and isinstance(n.target, ast.Name) and n.target.id in cand:
            out.append((n.target.id, 'augmented in place', n))
    return out


def truthiness_defaults(fnode):
    """[(name, node)]: places where a function decides "this argument was not given" by the argument's truth value - `p = p or <default>`,
    `if not p: p = <default>` (p a parameter), or `<elem> or <default>` over the elements of a parameter inside a comprehension - so that the
    legal values 0, 0.0, -0.0, '' and empty containers are replaced too"""
    params = set(a.arg for a in fnode.args.args + fnode.args.kwonlyargs)
    out = []
    for st in ast.walk(fnode):
        if isinstance(st, ast.Assign) and len(st.targets) == 1 and isinstance(st.targets[0], ast.Name) and st.targets[0].id in params:
            v, p = st.value, st.targets[0].id
            if isinstance(v, ast.BoolOp) and isinstance(v.op, ast.Or) and isinstance(v.values[0], ast.Name) and v.values[0].id == p:
                out.append((p, st))
        if isinstance(st, ast.If):
            t_, neg = st.test, False
            while isinstance(t_, ast.UnaryOp) and isinstance(t_.op, ast.Not):
                t_, neg = t_.operand, not neg
            if isinstance(t_, ast.Name) and t_.id in params:
                for s2 in (st.body if neg else st.orelse):
                    if isinstance(s2, ast.Assign) and any(isinstance(x, ast.Name) and x.id == t_.id for x in s2.targets):
                        out.append((t_.id, st))
        if isinstance(st, (ast.ListComp, ast.GeneratorExp, ast.SetComp)):
            for g in st.generators:
                if isinstance(g.iter, ast.Name) and g.iter.id in params and isinstance(g.target, ast.Name):
                    e = st.elt
                    if isinstance(e, ast.BoolOp) and isinstance(e.op, ast.Or) and isinstance(e.values[0], ast.Name) and e.values[0].id == g.target.id:
                        out.append((g.iter.id, st))
    return out
