"""E12: a small abstract interpreter for keyword-settings prologues.

Factories such as coupler.and_/or_/not_ take **settings, give some keys defaults, remove others and hand the rest on.
What arrives downstream is a function of a handful of yes/no facts about the caller's keywords (key absent / None /
some value).  This module evaluates the prologue - assignments, if/else, del, import-as, the dict methods setdefault /
pop / get, membership and identity tests - over every such scenario with opaque tokens for values, and reports the
dictionary as it is when a designated call is reached.  Anything it cannot evaluate on the way makes the analysis
undecided (never a silent pass)."""
import ast

from ..srcmodel import AnalysisError, unparse

ABSENT = ('absent',)


class Tok(object):
    def __init__(self, name):
        self.name = name

    def __repr__(self):
        return '<%s>' % self.name


class _Stop(Exception):
    pass


class Sim(object):
    def __init__(self, dname, given, stop_at):
        self.dname = dname
        self.d = dict((k, v) for k, v in given.items() if v is not ABSENT)
        self.env = {}
        self.stop_at = stop_at
        self.result = None

    # -- expressions
    def ev(self, e):
        if isinstance(e, ast.Constant):
            return e.value
        if isinstance(e, ast.Name):
            if e.id == self.dname:
                return self.d
            if e.id in self.env:
                return self.env[e.id]
            return Tok(e.id)
        if isinstance(e, ast.UnaryOp) and isinstance(e.op, ast.Not):
            return not self.truth(self.ev(e.operand))
        if isinstance(e, ast.BoolOp):
            vals = None
            for x in e.values:
                vals = self.ev(x)
                t_ = self.truth(vals)
                if isinstance(e.op, ast.And) and not t_:
                    return vals
                if isinstance(e.op, ast.Or) and t_:
                    return vals
            return vals
        if isinstance(e, ast.IfExp):
            return self.ev(e.body) if self.truth(self.ev(e.test)) else self.ev(e.orelse)
        if isinstance(e, ast.Compare):
            left = self.ev(e.left)
            for op, c in zip(e.ops, e.comparators):
                right = self.ev(c)
                if isinstance(op, ast.Is):
                    r = left is right
                elif isinstance(op, ast.IsNot):
                    r = left is not right
                elif isinstance(op, ast.In):
                    if right is not self.d:
                        raise AnalysisError('settings prologue: membership in something else than the settings (%s)' % unparse(e))
                    r = left in right
                elif isinstance(op, ast.NotIn):
                    if right is not self.d:
                        raise AnalysisError('settings prologue: membership in something else than the settings (%s)' % unparse(e))
                    r = left not in right
                elif isinstance(op, (ast.Eq, ast.NotEq)):
                    if isinstance(left, Tok) or isinstance(right, Tok):
                        raise AnalysisError('settings prologue: equality on an opaque value (%s)' % unparse(e))
                    r = (left == right) == isinstance(op, ast.Eq)
                else:
                    raise AnalysisError('settings prologue: comparison %s' % unparse(e))
                if not r:
                    return False
                left = right
            return True
        if isinstance(e, ast.Subscript) and isinstance(e.value, ast.Name) and e.value.id == self.dname:
            k = self.ev(e.slice)
            if k not in self.d:
                raise AnalysisError('settings prologue reads a missing key %r' % (k,))
            return self.d[k]
        if isinstance(e, ast.Call) and isinstance(e.func, ast.Attribute) and isinstance(e.func.value, ast.Name) and e.func.value.id == self.dname:
            args = [self.ev(a) for a in e.args]
            m = e.func.attr
            if m == 'setdefault':
                return self.d.setdefault(args[0], args[1] if len(args) > 1 else None)
            if m == 'pop':
                if len(args) > 1:
                    return self.d.pop(args[0], args[1])
                if args[0] not in self.d:
                    raise AnalysisError('settings prologue pops a missing key %r' % (args[0],))
                return self.d.pop(args[0])
            if m == 'get':
                return self.d.get(args[0], args[1] if len(args) > 1 else None)
            if m == 'update' and len(e.args) == 1 and isinstance(e.args[0], ast.Dict):
                for k, v in zip(e.args[0].keys, e.args[0].values):
                    self.d[self.ev(k)] = self.ev(v)
                return None
            raise AnalysisError('settings prologue: dict method %s' % m)
        if any(isinstance(n, ast.Name) and n.id == self.dname for n in ast.walk(e)):
            raise AnalysisError('settings prologue: cannot evaluate %s' % unparse(e)[:60])
        return Tok(unparse(e)[:30])

    def truth(self, v):
        if isinstance(v, Tok):
            return True          # an opaque caller value / imported object: truthy (None and absent are modelled explicitly)
        return bool(v)

    # -- statements
    def run(self, stmts):
        for st in stmts:
            self.exec(st)

    def exec(self, st):
        if any(n is self.stop_at for n in ast.walk(st)) and not isinstance(st, (ast.If, ast.Try, ast.For, ast.While, ast.With)):
            self.result = dict(self.d)
            raise _Stop()
        if isinstance(st, ast.Assign):
            v = self.ev(st.value)
            for tg in st.targets:
                if isinstance(tg, ast.Name):
                    self.env[tg.id] = v
                elif isinstance(tg, ast.Subscript) and isinstance(tg.value, ast.Name) and tg.value.id == self.dname:
                    self.d[self.ev(tg.slice)] = v
                elif any(isinstance(n, ast.Name) and n.id == self.dname for n in ast.walk(tg)):
                    raise AnalysisError('settings prologue: store %s' % unparse(tg))
        elif isinstance(st, ast.Delete):
            for tg in st.targets:
                if isinstance(tg, ast.Subscript) and isinstance(tg.value, ast.Name) and tg.value.id == self.dname:
                    k = self.ev(tg.slice)
                    if k not in self.d:
                        raise AnalysisError('settings prologue deletes a missing key %r' % (k,))
                    del self.d[k]
                elif isinstance(tg, ast.Name):
                    self.env.pop(tg.id, None)
        elif isinstance(st, ast.If):
            self.run(st.body if self.truth(self.ev(st.test)) else st.orelse)
        elif isinstance(st, (ast.Import, ast.ImportFrom)):
            for a in st.names:
                self.env[(a.asname or a.name).split('.')[0]] = Tok('import:' + a.name)
        elif isinstance(st, ast.Try):
            self.run(st.body)           # (handlers only re-bind opaque values)
            self.run(st.orelse)
            self.run(st.finalbody)
        elif isinstance(st, ast.Expr):
            self.ev(st.value)
        elif isinstance(st, (ast.FunctionDef, ast.Pass)):
            pass
        elif isinstance(st, ast.Return):
            raise _Stop()
        else:
            if any(isinstance(n, ast.Name) and n.id == self.dname for n in ast.walk(st)):
                raise AnalysisError('settings prologue: statement %s' % type(st).__name__)


def settings_at(fnode, dname, given, stop_at):
    """the settings dictionary when the call node `stop_at` is reached, for the caller's keywords `given` ({key: value | ABSENT})"""
    s = Sim(dname, given, stop_at)
    try:
        s.run(fnode.body)
    except _Stop:
        pass
    if s.result is None:
        raise AnalysisError('settings prologue: the designated call is not reached')
    return s.result
