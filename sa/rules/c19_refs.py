"""reference transcriptions (confirmed by reading on the pinned tree) for C19.d/e: explicit-sum statistics of product measures and scenarios, and the index-only pack/unpack layout"""
REFS = {
    'mystic.math.discrete:product_measure.pof':
        'def pof(self, f):\n    u = 0.0\n    set = zip(self.positions, self.weights)\n    for x in set:\n        if f(x[0]) <= 0.0:\n            u += x[1]\n    return u\n',
    'mystic.math.discrete:scenario.pof_value':
        'def pof_value(self, f):\n    u = 0.0\n    set = zip(self.values, self.weights)\n    for x in set:\n        if f(x[0]) <= 0.0:\n            u += x[1]\n    return u\n',
    'mystic.math.discrete:product_measure.expect':
        'def expect(self, f):\n    from mystic.math.measures import expectation\n    return expectation(f, self.positions, self.weights)\n',
    'mystic.math.discrete:product_measure.expect_var':
        'def expect_var(self, f):\n    from mystic.math.measures import expected_variance\n    return expected_variance(f, self.positions, self.weights)\n',
    'mystic.math.discrete:product_measure.support':
        'def support(self, tol=0):\n    from .measures import support\n    return support(self.positions, self.weights, tol)\n',
    'mystic.math.discrete:product_measure.support_index':
        'def support_index(self, tol=0):\n    from .measures import support_index\n    return support_index(self.weights, tol)\n',
    'mystic.math.discrete:product_measure.__mass':
        'def __mass(self):\n    return [self[i].mass for i in range(len(self))]\n',
    'mystic.math.discrete:product_measure.__set_positions':
        'def __set_positions(self, positions):\n    from mystic.math.measures import _unpack\n    positions = _unpack(positions, self.pts)\n    for i in range(len(positions)):\n        self[i].positions = positions[i]\n    return\n',
    'mystic.math.discrete:measure.expect':
        'def expect(self, f):\n    from mystic.math.measures import expectation\n    positions = [(i,) for i in self.positions]\n    return expectation(f, positions, self.weights)\n',
    'mystic.math.discrete:measure.expect_var':
        'def expect_var(self, f):\n    from mystic.math.measures import expected_variance\n    positions = [(i,) for i in self.positions]\n    return expected_variance(f, positions, self.weights)\n',
    'mystic.math.discrete:measure.support':
        'def support(self, tol=0):\n    from .measures import support\n    return support(self.positions, self.weights, tol)\n',
    'mystic.math.discrete:measure.support_index':
        'def support_index(self, tol=0):\n    from .measures import support_index\n    return support_index(self.weights, tol)\n',
    'mystic.math.discrete:measure.__set_weights':
        'def __set_weights(self, weights):\n    for i in range(len(weights)):\n        self[i].weight = weights[i]\n    return\n',
    'mystic.math.discrete:measure.__set_positions':
        'def __set_positions(self, positions):\n    for i in range(len(positions)):\n        self[i].position = positions[i]\n    return\n',
    'mystic.math.discrete:measure.normalize':
        'def normalize(self):\n    self.positions, self.weights = impose_weight_norm(self.positions, self.weights)\n    return\n',
    'mystic.math.discrete:scenario.mean_value':
        'def mean_value(self):\n    from mystic.math.measures import mean\n    return mean(self.values, self.weights)\n',
    'mystic.math.discrete:scenario.set_mean_value':
        'def set_mean_value(self, m):\n    from mystic.math.measures import impose_mean\n    self.values = impose_mean(m, self.values, self.weights)\n    return\n',
    'mystic.math.discrete:scenario.__set_values':
        'def __set_values(self, values):\n    self.__Y = values[:]\n    return\n',
    'mystic.math.measures:_pack':
        'def _pack(samples):\n    ndim = len(samples)\n    currentx = [0.0] * ndim\n    _samples = []\n\n    def recurse(next):\n        if next == -1:\n            _samples.append(tuple(currentx))\n            return\n        else:\n            for xpt in samples[next]:\n                currentx[next] = xpt\n                recurse(next - 1)\n    recurse(ndim - 1)\n    return _samples\n',
    'mystic.math.measures:_pack.recurse':
        'def recurse(next):\n    if next == -1:\n        _samples.append(tuple(currentx))\n        return\n    else:\n        for xpt in samples[next]:\n            currentx[next] = xpt\n            recurse(next - 1)\n',
    'mystic.math.measures:_unpack':
        'def _unpack(samples, npts):\n    _samples = []\n    ndim = len(npts)\n    temp = [npts[0]] * ndim\n    _samples.append([j[0] for j in samples][:npts[0]])\n\n    def recurse(next):\n        if next == ndim:\n            return\n        else:\n            temp[next] = temp[next - 1] * npts[next]\n            currentindex = temp[next]\n            lastindex = temp[next - 1]\n            _samples.append([j[next] for j in samples][:currentindex:lastindex])\n            recurse(next + 1)\n    recurse(1)\n    return _samples\n',
    'mystic.math.measures:_unpack.recurse':
        'def recurse(next):\n    if next == ndim:\n        return\n    else:\n        temp[next] = temp[next - 1] * npts[next]\n        currentindex = temp[next]\n        lastindex = temp[next - 1]\n        _samples.append([j[next] for j in samples][:currentindex:lastindex])\n        recurse(next + 1)\n',
    'mystic.math.measures:_flat':
        'def _flat(params):\n    from mystic.tools import flatten, list_or_tuple_or_ndarray\n    expand = lambda x: list_or_tuple_or_ndarray(x) and getattr(x, \'ndim\', 1) > 0\n    return list(flatten(params, to_expand=expand))\n',
    'mystic.math.measures:_nested':
        'def _nested(params, npts):\n    coords = []\n    ind = 0\n    for i in range(len(npts)):\n        coords.append(params[ind:ind + npts[i]])\n        ind += npts[i]\n    return coords\n',
    'mystic.math.discrete:product_measure.flatten':
        'def flatten(self):\n    params = flatten(self)\n    return params\n',
    'mystic.math.discrete:scenario.flatten':
        'def flatten(self, all=True):\n    params = flatten(self)\n    if all:\n        params.extend(self.values)\n    return params\n',
    'mystic.math.discrete:product_measure.update':
        'def update(self, params):\n    pts = self.pts\n    _len = 2 * sum(pts)\n    if len(params) > _len:\n        params, values = (params[:_len], params[_len:])\n    pm = unflatten(params, pts)\n    zo = pm.count([])\n    self[:] = pm[:len(self) - zo] + self[len(pm) - zo:]\n    return self\n',
    'mystic.math.discrete:scenario.update':
        'def update(self, params):\n    pts = self.pts\n    _len = 2 * sum(pts)\n    if len(params) > _len:\n        params, values = (params[:_len], params[_len:])\n        self.values = list(values) + list(self.values[len(values):])\n    pm = unflatten(params, pts)\n    zo = pm.count([])\n    self[:] = pm[:len(self) - zo] + self[len(pm) - zo:]\n    return self\n',
    'mystic.math.discrete:product_measure.load':
        'def load(self, params, pts):\n    _len = 2 * sum(pts)\n    if len(params) > _len:\n        params, values = (params[:_len], params[_len:])\n    self.extend(unflatten(params, pts))\n    return self\n',
    'mystic.math.discrete:scenario.load':
        'def load(self, params, pts):\n    _len = 2 * sum(pts)\n    if len(params) > _len:\n        params, self.values = (params[:_len], params[_len:])\n    self.extend(unflatten(params, pts))\n    return self\n',
}
