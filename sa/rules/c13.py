"""C13 - compiled constraint functions enforce exactly the stated relation.

Decided: the decision table of constraints_parser ('>'/'>=' -> lhs = max(rhs', lhs);
'<'/'<=' -> lhs = min(rhs', lhs); '=' -> lhs = rhs; strict '>' adds and strict '<'
subtracts the tolerance; the '!=' rule adds a non-zero multiple of the tolerance);
both parsers replace x10 before x1 and replace_variables longer names first; every
template assigns only the left-hand variable; generate_solvers compiles each line
in a namespace of its own and returns x; generate_constraint couples with inner in
the order given; the strictness tolerance is tol + |x|*rel with tol, rel >= 0
enforced; the bounds constraint wiring (C02.g / C12.d).
Round 3: the tolerance appended to the bound is constant-folded per comparator
with the locals substituted in execution order; boundsconstrain is decided on
its return terms (every (min[i], max[i]) reaches impose_bounds; symbolic
pipeline).
Round 4: the strictness tolerances are read under their own keys; the plain
bounds constraint's None conversion, membership and addressing (shared with
C16.h); merge's exclusive table is selected by an explicit inclusive=False read
as given.
NOT decided: behaviour of the exec-generated functions on vectors.
"""
import ast

from ..core import rule
from ..srcmodel import AnalysisError, walk_no_nested, unparse, norm_stmt
from .. import terms as T
from .. import siblings as SB
from .common import *
from .symtab import *

SY = 'mystic.symbolic'


def _loops(f):
    return [n for n in f.node.body if isinstance(n, ast.For) and unparse(n.iter) == 'lines']


def _line_body(lp):
    ifs = [s for s in lp.body if isinstance(s, ast.If) and ''.join(unparse(s.test).split()) == 'line.strip()']
    if not ifs:
        raise AnalysisError('per-line body not found')
    return ifs[0].body


def _split_literal(term):
    """the separator literal of a `len(X.split(sep)) == 1` test"""
    for s in T.subterms(term):
        if isinstance(s, tuple) and s and s[0] == 'call' and T.show(s[1]).endswith('.split') and s[2] and s[2][0][0] == 'const':
            return s[2][0][1]
    return None


@rule('C13.a', min_instances=6)
def parser_decision_table(ctx):
    """constraints_parser: '>' family -> lhs = max(rhs', lhs), '<' family -> lhs = min(rhs', lhs), '=' -> lhs = rhs; strict '>' adds / strict '<' subtracts the tolerance; '!=' adds equal(lhs,rhs) * tolerance * 1.1"""
    f = ctx.func(SY + ':constraints_parser')
    lps = _loops(f)
    ctx.need(len(lps) == 2, 'constraints_parser: expected two passes over the lines, found %d' % len(lps))
    # second pass: the template chosen per comparator family
    body = _line_body(lps[1])
    table = {}
    for lits, b, effects, p in feasible_paths(body):
        fam = None
        seps = [(_split_literal(tt), tr) for tt, tr in lits if _split_literal(tt) is not None]
        if ('>', False) in seps:
            fam = '>'
        elif ('>', True) in seps and ('<', False) in seps:
            fam = '<'
        elif ('>', True) in seps and ('<', True) in seps and ('=', False) in seps:
            fam = '='
        if fam is None:
            continue
        expr = b.env.get('expression')
        # the template is the format string of the last `expression = '...' % eqn` before processing
        tpl = [s for s in T.subterms(expr) if isinstance(s, tuple) and s and s[0] == 'const' and isinstance(s[1], str) and '%(lhs)s' in s[1]] if expr else []
        table.setdefault(fam, set()).update(x[1] for x in tpl)
    want = {'>': {'%(lhs)s = max(%(rhs)s, %(lhs)s)'}, '<': {'%(lhs)s = min(%(rhs)s, %(lhs)s)'}, '=': {'%(lhs)s = %(rhs)s'}}
    for fam in ('>', '<', '='):
        ctx.check(table.get(fam) == want[fam], 'constraints_parser#template[%s]' % fam, '%s -> %s' % (fam, sorted(want[fam])[0]),
                  "a '%s' relation is compiled with template %s" % (fam, sorted(table.get(fam, []))), f, lps[1])
    # tolerance tables
    eps = [s for s in stmts_of(lps[1]) if isinstance(s, ast.Assign) and isinstance(s.targets[0], ast.Name) and s.targets[0].id == 'eps' and isinstance(s.value, ast.IfExp)]
    ctx.need(eps, 'constraints_parser: eps table not found')
    tb, dflt = eq_table(eps[0].value, 'eps')
    ctx.check({k: v[1] for k, v in tb.items()} == {'>': ' + e_ ', '<': ' - e_ '} and dflt == ('const', ''), 'constraints_parser#eps', "strict '>' adds, strict '<' subtracts the tolerance",
              'strictness table is %s' % {k: T.show(v) for k, v in tb.items()}, f, eps[0])
    eta = [s for s in stmts_of(lps[1]) if isinstance(s, ast.Assign) and isinstance(s.targets[0], ast.Name) and s.targets[0].id == 'eta' and isinstance(s.value, ast.IfExp)]
    ctx.need(eta, 'constraints_parser: eta table not found')
    rows, dflt = ifexp_table(eta[0].value)
    signs = {}
    for c, v in rows:
        lit = [x for x in T.subterms(c) if isinstance(x, tuple) and x and x[0] == 'const' and x[1] in ('>=', '<=')]
        sg = [x[1] for x in T.subterms(v) if isinstance(x, tuple) and x and x[0] == 'const' and isinstance(x[1], str) and x[1].strip() in ('+', '-')]
        if lit and sg:
            signs[lit[0][1]] = sg[0].strip()
    ctx.check(signs == {'>=': '+', '<=': '-'} and dflt == ('const', ''), 'constraints_parser#eta', "'>=' beside a '!=' moves up, '<=' moves down",
              'eta table is %s' % signs, f, eta[0])
    # the eta template itself: the tolerance applies when the BOUND (rhs) coincides with a value forbidden by a '!=' on the same lhs
    eta0 = [s for s in stmts_of(lps[1]) if isinstance(s, ast.Assign) and isinstance(s.targets[0], ast.Name) and s.targets[0].id == 'eta' and isinstance(s.value, ast.Constant)]
    ctx.need(eta0, 'constraints_parser: eta template not found')

    def tpl_term(text):
        src = text
        for k in ('lhs', 'rhs', 'neq'):
            src = src.replace('%%(%s)s' % k, '_%s_' % k)
        try:
            return T.term(ast.parse(src.strip(), mode='eval').body)
        except SyntaxError:
            return ('opaque', text)
    want_eta = tpl_term('(_tol(%(rhs)s,tol,rel) * any(equal(%(rhs)s,%(neq)s)))')
    ctx.stats['terms_compared'] += 1
    ctx.check(tpl_term(eta0[0].value.value) == want_eta, 'constraints_parser#eta-template', 'tolerance * any(equal(rhs, values forbidden for lhs))',
              'the inclusive-bound nudge is `%s`: it must test the bound (rhs) against the values a != forbids' % eta0[0].value.value, f, eta0[0])
    neq = [s for s in stmts_of(lps[1]) if isinstance(s, ast.Assign) and ''.join(unparse(s.targets[0]).split()) == "eqn['neq']"]
    want_neq = T.term(ast.parse("'[' + ','.join(j for (i,j) in zip(xLHS+xRHS,xRHS+xLHS) if eqn['lhs'] == i) + ']'", mode='eval').body)
    ctx.check(bool(neq) and t(neq[0].value) == want_neq, 'constraints_parser#neq-list', "forbidden values = partners of this lhs in the '!=' lines",
              "the list of values forbidden by '!=' is built as %s" % (unparse(neq[0].value) if neq else None), f, neq[0] if neq else lps[1])
    rhs = [s for s in stmts_of(lps[1]) if isinstance(s, ast.AugAssign) and ''.join(unparse(s.target).split()) == "eqn['rhs']"]
    want = T.term(ast.parse("eps.replace('e_', '_tol(%(rhs)s,tol,rel)' % eqn) or eta % eqn", mode='eval').body)
    ctx.check(bool(rhs) and t(rhs[0].value) == want, 'constraints_parser#rhs', 'rhs extended by the tolerance term', 'rhs is extended by %s' % (unparse(rhs[0].value) if rhs else None), f, rhs[0] if rhs else lps[1])
    # data flow: what is appended to the bound for each comparator, with the locals of the per-line body substituted in the
    # order they are executed (a table that tests a variable after it was overwritten selects nothing)
    if rhs:
        bld = T.Builder()
        for st in _line_body(lps[1]):
            if st is rhs[0]:
                break
            if isinstance(st, ast.Assign) and len(st.targets) == 1 and isinstance(st.targets[0], ast.Name):
                bld.exec_stmt(st)
        added = T.simp(bld.t(rhs[0].value))
        cmpcalls = [x for x in T.subterms(added) if isinstance(x, tuple) and x and x[0] == 'call' and T.show(x[1]) == 'comparator']
        ctx.need(len(set(cmpcalls)) == 1, 'constraints_parser: the tolerance term does not depend on exactly one comparator(...) value')
        tpl = eta0[0].value.value
        expect = {'>': ('call', ' + e_ '), '<': ('call', ' - e_ '), '>=': ('mod', ' + ' + tpl), '<=': ('mod', ' - ' + tpl), '=': ('mod', ''), '==': ('mod', '')}
        for cm, (head, const) in sorted(expect.items()):
            v = fold_consts(T.substitute(added, cmpcalls[0], ('const', cm)))
            if head == 'call':
                if v[0] == 'or':
                    v = v[1]        # a non-empty literal with its placeholder replaced is non-empty: the `or` stops here
                ok_ = v[0] == 'call' and v[1][0] == 'attr' and v[1][2] == 'replace' and v[1][1] == ('const', const)
            else:
                ok_ = v[0] in ('mod', 'fmt') and v[1] == ('const', const)
            ctx.stats['terms_compared'] += 1
            ctx.check(ok_, 'constraints_parser#added[%s]' % cm, "'%s' appends %r to the bound" % (cm, const),
                      "for the comparator '%s' the bound is extended by %s, not by %r (the strictness / inclusive-bound nudge is selected from a variable that no longer holds the comparator)"
                      % (cm, T.show(v)[:160], const), f, rhs[0])
    # first pass: the != rule
    b1 = _line_body(lps[0])
    e1 = [s for s in stmts_of(lps[0]) if isinstance(s, ast.Assign) and isinstance(s.targets[0], ast.Name) and s.targets[0].id in ('eta', 'expression')]
    vals = {s.targets[0].id: unparse(s.value) for s in e1}
    ok_ne = ''.join(vals.get('expression', '').split()) == "'%(lhs)s=%(lhs)s+equal(%(lhs)s,%(rhs)s)'+eta" and \
        ''.join(vals.get('eta', '').split()) == "'*(_tol(%(rhs)s,tol,rel)*1.1)'"
    ctx.check(ok_ne, 'constraints_parser#neq', "'!=' -> lhs = lhs + equal(lhs,rhs) * (tolerance * 1.1)", "the '!=' rule is %s" % vals, f, e1[0] if e1 else lps[0])
    sk = [s for s in b1 if isinstance(s, ast.If) and any(isinstance(x, ast.Continue) for x in s.body)]
    sk2 = [s for s in _line_body(lps[1]) if isinstance(s, ast.If) and any(isinstance(x, ast.Continue) for x in s.body)]
    ctx.check(bool(sk) and ''.join(unparse(sk[0].test).split()) == "'!='!=comparator(constraint)" and bool(sk2) and ''.join(unparse(sk2[0].test).split()) == "eps=='!='",
              'constraints_parser#passes', "pass 1 handles only '!=', pass 2 everything else", 'the two passes no longer partition the lines by comparator', f, lps[0])
    ret = [s for s in f.node.body if isinstance(s, ast.Return)]
    ctx.check(bool(ret) and ''.join(unparse(ret[-1].value).split()) == 'tuple(reversed(parsed))', 'constraints_parser#order', 'solvers returned in reverse order (applied last-to-first by inner coupling)',
              'constraints_parser returns %s' % (unparse(ret[-1].value) if ret else None), f, ret[-1] if ret else f.node)


@rule('C13.b', min_instances=3)
def index_replacement_cannot_clobber(ctx):
    """both parsers substitute x10 before x1 (descending index); replace_variables substitutes longer names first"""
    for anchor in (SY + ':constraints_parser._process_line', SY + ':penalty_parser'):
        f = ctx.func(anchor)
        src = ''.join(unparse(f.node).split())
        rev = 'indices=list(range(ndim))' in src and 'indices.reverse()' in src and "foriinindices:" in src
        rep = [c for c in calls_where(f.node, lambda c: callee_text(c).endswith('.replace') and 'varname' in unparse(c))]
        want = "(varname+str(i),'x['+str(i)+']')"
        ctx.check(rev and bool(rep) and ''.join(unparse(rep[0]).split()).endswith(want), f.qualname + '#descending', 'indices replaced in descending order',
                  '%s no longer replaces variable indices from the highest down (x1 would clobber x10)' % f.qualname, f, rep[0] if rep else f.node)
    g = ctx.func(SY + ':replace_variables')
    src = ''.join(unparse(g.node).split())
    ctx.check('variablescopy.sort(key=lambdax:-len(x))' in src, 'replace_variables#longest-first', 'longer names replaced first',
              'replace_variables no longer sorts names by decreasing length', g, g.node)


@rule('C13.c', min_instances=4)
def only_lhs_assigned(ctx):
    """every assignment template of constraints_parser has %(lhs)s as its only target"""
    f = ctx.func(SY + ':constraints_parser')
    tpls = [s for s in strs(f.node) if '%(lhs)s' in s and '=' in s.replace('!=', '')]
    ctx.need(len(tpls) >= 4, 'expected >= 4 assignment templates, found %d' % len(tpls))
    for tp in tpls:
        head = tp.split('=')[0].strip()
        ctx.check(head == '%(lhs)s', 'constraints_parser#target[%s]' % tp[:28], 'assigns %(lhs)s only', 'template `%s` assigns %s' % (tp, head), f, f.node)


@rule('C13.d', min_instances=4)
def composition(ctx):
    """generate_solvers compiles each line into `exec(line); return x` in a namespace created per call; generate_constraint couples with inner by default, in the order given"""
    f = ctx.func(SY + ':generate_solvers')
    _namespace_rule(ctx, f, 'generate_solvers')
    tp = [s for s in strs(f.node) if 'def {container}_{name}(x)' in s]
    ctx.check(bool(tp) and "exec('{equation}')" in tp[0] and 'return x' in tp[0], 'generate_solvers#template', "solver = exec(line); return x", 'solver template changed', f, f.node)
    g = ctx.func(SY + ':generate_constraint')
    src = ''.join(unparse(g.node).split())
    ctx.check('frommystic.couplerimportinner' in src and 'ctype=list((inner,))*len(conditions)' in src, 'generate_constraint#default', 'default coupling is inner',
              'generate_constraint no longer couples with inner by default', g, g.node)
    lp = [n for n in g.node.body if isinstance(n, ast.For)]
    ok_ = bool(lp) and ''.join(unparse(lp[-1].iter).split()) == 'zip(ctype,conditions)' and 'apply=wrapper(condition,**kwds)' in ''.join(unparse(lp[-1]).split()) and \
        'cf=apply(cf)' in ''.join(unparse(lp[-1]).split())
    ctx.check(ok_, 'generate_constraint#stacking', 'cf = wrapper(condition)(cf) for every (wrapper, condition) pair in order', 'constraint stacking changed', g, lp[-1] if lp else g.node)


def _namespace_rule(ctx, f, label):
    """the dict handed to exec as globals is created inside the call (fresh per call), filled, then extended by the user's locals"""
    g = [s for s in f.node.body if isinstance(s, ast.Assign) and isinstance(s.targets[0], ast.Name) and s.targets[0].id == 'globals']
    execs = calls_where(f.node, lambda c: callee_text(c) == 'exec')
    g = [s for s in stmts_of(f.node) if isinstance(s, (ast.Assign, ast.AugAssign)) and any(isinstance(n, ast.Name) and n.id == 'globals' and isinstance(n.ctx, ast.Store) for n in ast.walk(s))]
    fresh = bool(g) and all(isinstance(x, ast.Assign) and isinstance(x.value, ast.Dict) and not x.value.keys for x in g)
    if g and not fresh:
        g = [x for x in g if not (isinstance(x, ast.Assign) and isinstance(x.value, ast.Dict) and not x.value.keys)] + g
    uses = [c for c in execs if len(c.args) >= 2]
    names_ok = all(isinstance(c.args[1], ast.Name) and c.args[1].id == 'globals' for c in uses) and bool(uses)
    modlevel = [n for n in ast.walk(f.node) if isinstance(n, ast.Global)]
    ctx.check(fresh and names_ok and not modlevel, label + '#namespace', 'compiled functions live in a namespace created per call',
              '%s evaluates the generated code in a namespace that is shared between calls (%s): a later call rebinds the locals/tolerances of functions generated earlier'
              % (label, unparse(g[0].value) if g else [unparse(c.args[1]) for c in uses if len(c.args) > 1][:1]), f, g[0] if g else f.node)
    upd = calls_where(f.node, lambda c: ''.join(unparse(c).split()) == 'globals.update(locals)')
    ctx.check(bool(upd), label + '#locals', "user locals (and tol/rel) are visible to the generated code", '%s no longer passes the locals to the generated code' % label, f, f.node)


@rule('C13.e', min_instances=3)
def tolerance_nonnegative(ctx):
    """tolerance(x, tol, rel) = tol + |x|*rel; the generators reject tol < 0 or rel < 0"""
    f = ctx.func('mystic.math.approx:tolerance')
    rets = [s for s in f.node.body if isinstance(s, ast.Return)]
    ctx.need(rets, 'tolerance: no return')
    b = T.Builder()
    for s in f.node.body:
        if isinstance(s, ast.Assign):
            b.exec_stmt(s)
    got = T.simp(b.t(rets[-1].value))
    a = f.args()
    want = T.term(ast.parse('%s + abs(%s)*%s' % (a[1], a[0], a[2]), mode='eval').body)
    ctx.stats['terms_compared'] += 1
    ctx.check(got == want, 'approx.tolerance', 'tol + |x|*rel', 'tolerance returns %s' % T.show(got), f, rets[-1])
    for name in ('generate_solvers', 'generate_conditions'):
        g = ctx.func('%s:%s' % (SY, name))
        chk = [s for s in g.node.body if isinstance(s, ast.If) and any(isinstance(x, ast.Raise) for x in ast.walk(s))
               and 'tol' in unparse(s.test)]
        ok_ = bool(chk) and t(chk[0].test) == T.term(ast.parse('tol < 0 or rel < 0', mode='eval').body)
        ctx.check(ok_, name + '#nonneg', 'rejects tol < 0 or rel < 0', '%s no longer rejects negative tolerances' % name, g, chk[0] if chk else g.node)
    epsilon_keys(ctx)


def epsilon_keys(ctx):
    """generate_solvers and generate_conditions read the strictness tolerances from the caller's locals under their own names:
    locals['tol'] is the caller's 'tol' (default 1e-15) and locals['rel'] the caller's 'rel' (default 1e-15) - the constraint
    and the penalty built from one text with one locals dict then use the same margin (shared by C13.e and C14.e)"""
    for name in ('generate_solvers', 'generate_conditions'):
        g = ctx.func('%s:%s' % (SY, name))
        lp = 'locals'
        L = ('name', lp)
        found = {}
        eb = T.Builder()
        for st in g.node.body:
            if isinstance(st, ast.Assign):
                for tg in st.targets:
                    if isinstance(tg, ast.Subscript) and isinstance(tg.value, ast.Name) and tg.value.id == lp and isinstance(tg.slice, ast.Constant):
                        # (a temporary that holds the value first is looked through)
                        found[tg.slice.value] = (st, T.simp(eb.t(st.value)), [x.id for x in st.targets if isinstance(x, ast.Name)])
                if all(isinstance(tg, ast.Name) for tg in st.targets) and len(st.targets) == 1 and st.targets[0].id != lp:
                    eb.exec_stmt(st)
        for key in ('tol', 'rel'):
            ctx.need(key in found, '%s no longer stores locals[%r]' % (name, key))
            st, v, names = found[key]
            want = ('ifexp', ('cmp', 'in', ('const', key), L), ('sub', L, ('const', key)), T.simp(T.term(ast.parse('1e-15', mode='eval').body)))
            ctx.stats['terms_compared'] += 1
            ctx.check(v == want, '%s#%s' % (name, key), "locals[%r] = the caller's %r, default 1e-15 (bound to the local `%s`)" % (key, key, key),
                      '%s takes its %r from %s (bound to %s): the strictness margin of the generated function is not the one the caller gave under %r'
                      % (name, key, T.show(v)[:80], names, key), g, st)


@rule('C13.f', min_instances=1)
def bounds_constraint(ctx):
    """the symbolic bounds constraint is symbolic_bounds(min, max) -> simplify -> generate_solvers -> generate_constraint"""
    from .c12 import matrix_and_bounds_to_text
    matrix_and_bounds_to_text(ctx)     # the bounds text itself (numbers printed in full, '>=' with min, '<=' with max)
    h = ctx.func('mystic.constraints:boundsconstrain')
    rts = return_terms(h.node)
    ctx.need(len(rts) >= 2, 'boundsconstrain: expected a symbolic and a non-symbolic return')
    ctx.stats['paths_enumerated'] += len(rts)
    MIN, MAX = ('name', 'min'), ('name', 'max')
    pairs = ('call', ('name', 'enumerate'), (('call', ('name', 'zip'), (MIN, MAX), ()),), ())
    n_sym = n_plain = 0
    for p, tm, b, conds in rts:
        def tail(x):
            return T.show(x).split('.')[-1]
        if tm[0] == 'call' and tail(tm[1]) == 'generate_constraint':
            n_sym += 1
            chain = []
            cur = tm
            while cur[0] == 'call' and len(cur[2]) >= 1 and tail(cur[1]) in ('generate_constraint', 'generate_solvers', 'simplify', 'symbolic_bounds'):
                chain.append(tail(cur[1]))
                if tail(cur[1]) == 'symbolic_bounds':
                    break
                cur = cur[2][0]
            # the text symbolic_bounds writes ('xi >= <min[i] in full>' / 'xi <= <max[i] in full>') is already in solved form and
            # is compiled as it is: routed through simplify, sympy re-prints every number with 15 significant digits (a bound
            # of 1/3 becomes 0.333333333333333, BELOW the bound, so the "clipped" value lies outside the box), an all-open box
            # raises, and random test points are drawn (C07)
            ok_ = chain in (['generate_constraint', 'generate_solvers', 'symbolic_bounds'], ['generate_constraint', 'generate_solvers', 'simplify', 'symbolic_bounds']) \
                and cur[2][:2] == (MIN, MAX) and not cur[3]
            ctx.check(ok_, 'boundsconstrain#symbolic', 'symbolic_bounds(min, max) -> generate_solvers -> generate_constraint',
                      'the symbolic bounds pipeline is %s' % T.show(tm)[:200], h, p.exit_node)
            ctx.check('simplify' not in chain, 'boundsconstrain#verbatim-bounds', 'the bounds text is compiled as symbolic_bounds wrote it (numbers in full)',
                      'boundsconstrain sends the bounds text through simplify: sympy re-prints the numbers with 15 significant digits, so a bound that is not representable in 15 digits is moved '
                      '(boundsconstrain([1/3.],[2/3.])([0.]) -> [0.333333333333333] < 1/3: outside the box)', h, p.exit_node, statement='symbolic bounds text re-printed by simplify')
        else:
            n_plain += 1
            ok_ = tm[0] == 'call' and tm[1][0] == 'call' and tail(tm[1][1]) == 'impose_bounds' and len(tm[1][2]) == 1 and \
                len(tm[2]) == 1 and tm[2][0][0] == 'lambda' and len(tm[2][0][1]) == 1 and tm[2][0][3] == ('name', tm[2][0][1][0])
            d = tm[1][2][0] if ok_ else None
            every = False
            if d is not None and d[0] == 'call' and T.show(d[1]) == 'dict' and len(d[2]) == 1:
                a = d[2][0]
                if a == pairs:
                    every = True
                elif a[0] in ('listcomp', 'genexp') and len(a[2]) == 1:
                    g = a[2][0]
                    every = a[1] == (g[0],) and g[1] == pairs and not g[2]
            elif d is not None and d[0] == 'dictcomp':
                every = False     # (not an idiom of this code base: left undecided below)
                raise AnalysisError('boundsconstrain builds its bounds table with a dict comprehension: not modelled')
            ctx.check(ok_ and every, 'boundsconstrain#plain', 'impose_bounds({i: (min[i], max[i]) for every i}, clip=clip)(identity)',
                      'without symbolic the bounds table is %s: an entry of (min, max) is dropped or altered before impose_bounds sees it (a bound of 0 is a bound)'
                      % (T.show(d)[:200] if d is not None else T.show(tm)[:200]), h, p.exit_node)
            if ok_:
                kws = dict(tm[1][3])
                clipv = kws.get('clip')
                wantc = ('ifexp', ('cmp', 'in', ('const', 'clip'), ('name', 'kwds')), ('sub', ('name', 'kwds'), ('const', 'clip')), ('const', True))
                ctx.check(clipv == wantc, 'boundsconstrain#clip', 'clip handed on as given (default True)', 'impose_bounds receives clip=%s' % (T.show(clipv) if clipv else None), h, p.exit_node)
    ctx.need(n_sym >= 1 and n_plain >= 1, 'boundsconstrain: symbolic / plain returns not both found')


@rule('C13.g', min_instances=1)
def constraint_composition_keeps_every_solver(ctx):
    """generate_constraint flattens the given solvers BEFORE it sizes the default coupling types (one ctype per solver), so zip(conditions, ctype) cannot drop trailing solvers of a nested tuple; conditions are folded in the order given with the identity as seed (reference summary)"""
    from .c13_refs import REFS
    a = 'mystic.symbolic:generate_constraint'
    f = ctx.func(a)
    got, want = SB.agree(f.node, REFS[a], strict_casts=True)
    ctx.stats['terms_compared'] += len(got)
    ctx.check(got == want, 'generate_constraint', 'flatten, then one coupling type per solver, then fold in order',
              'generate_constraint differs from its confirmed behaviour (solvers can be dropped or coupled differently): %s' % SB.diff(got, want), f, f.node)


@rule('C13.h', min_instances=4)
def plain_bounds_constraint_clips_to_the_given_box(ctx):
    """boundsconstrain(symbolic=False) clips through constraints.bounded: membership on closed intervals, only out-of-range entries are rewritten, a None bound becomes -inf (lower row) / +inf (upper row) through that row's own mask (shared with C16.h)"""
    from .c16 import bounded_membership_and_addressing
    bounded_membership_and_addressing(ctx)


@rule('C13.i', min_instances=3)
def symbolic_bounds_constraint_keeps_tied_bounds(ctx):
    """the symbolic bounds constraint is simplified before it is compiled: a coordinate with min[i] == max[i] survives only because the lines of a system are merged with the exclusive table ('x >= c', 'x <= c' -> 'x = c'), selected by an explicit inclusive=False that merge reads as given (`in kwds`, not truthiness) - shared with C12.c / C12.f"""
    from .c12 import merge_tables, systems_are_merged_as_conjunctions
    merge_tables(ctx)
    systems_are_merged_as_conjunctions(ctx)
