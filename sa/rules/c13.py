"""C13 - compiled constraint functions enforce exactly the stated relation.

Decided: the decision table of constraints_parser ('>'/'>=' -> lhs = max(rhs', lhs);
'<'/'<=' -> lhs = min(rhs', lhs); '=' -> lhs = rhs; strict '>' adds and strict '<'
subtracts the tolerance; the '!=' rule adds a non-zero multiple of the tolerance);
both parsers replace x10 before x1 and replace_variables longer names first; every
template assigns only the left-hand variable; generate_solvers compiles each line
in a namespace of its own and returns x; generate_constraint couples with inner in
the order given; the strictness tolerance is tol + |x|*rel with tol, rel >= 0
enforced; the bounds constraint wiring (C02.g / C12.d).
Round 3: the tolerance appended to the bound is constant-folded per comparator
with the locals substituted in execution order; boundsconstrain is decided on
its return terms (every (min[i], max[i]) reaches impose_bounds; symbolic
pipeline).
Round 4: the strictness tolerances are read under their own keys; the plain
bounds constraint's None conversion, membership and addressing (shared with
C16.h); merge's exclusive table is selected by an explicit inclusive=False read
as given.
Round 5 (hunt): the bound enters the generated statement parenthesised (repair
6d76e35); variable tokens and function renames are whole-name substitutions
(repairs 1626679, 94374e7); every name the line processor rewrites a call into
is bound in the generated code's namespace (repair c051ced).
Round 6: vectorize hands the caller's own rows to the compiled constraint.
NOT decided: behaviour of the exec-generated functions on vectors.
"""
import ast
import re

from ..core import rule
from ..srcmodel import AnalysisError, walk_no_nested, unparse, norm_stmt
from .. import terms as T
from .. import siblings as SB
from .common import *
from .symtab import *

SY = 'mystic.symbolic'


def _loops(f):
    return [n for n in f.node.body if isinstance(n, ast.For) and unparse(n.iter) == 'lines']


def _line_body(lp):
    ifs = [s for s in lp.body if isinstance(s, ast.If) and ''.join(unparse(s.test).split()) == 'line.strip()']
    if not ifs:
        raise AnalysisError('per-line body not found')
    return ifs[0].body


def _split_literal(term):
    """the separator literal of a `len(X.split(sep)) == 1` test"""
    for s in T.subterms(term):
        if isinstance(s, tuple) and s and s[0] == 'call' and T.show(s[1]).endswith('.split') and s[2] and s[2][0][0] == 'const':
            return s[2][0][1]
    return None


@rule('C13.a', min_instances=6)
def parser_decision_table(ctx):
    """constraints_parser: '>' family -> lhs = max(rhs', lhs), '<' family -> lhs = min(rhs', lhs), '=' -> lhs = rhs; strict '>' adds / strict '<' subtracts the tolerance; '!=' adds equal(lhs,rhs) * tolerance * 1.1"""
    f = ctx.func(SY + ':constraints_parser')
    lps = _loops(f)
    ctx.need(len(lps) == 2, 'constraints_parser: expected two passes over the lines, found %d' % len(lps))
    # second pass: the template chosen per comparator family
    body = _line_body(lps[1])
    table = {}
    for lits, b, effects, p in feasible_paths(body):
        fam = None
        seps = [(_split_literal(tt), tr) for tt, tr in lits if _split_literal(tt) is not None]
        if ('>', False) in seps:
            fam = '>'
        elif ('>', True) in seps and ('<', False) in seps:
            fam = '<'
        elif ('>', True) in seps and ('<', True) in seps and ('=', False) in seps:
            fam = '='
        if fam is None:
            continue
        expr = b.env.get('expression')
        # the template is the format string of the last `expression = '...' % eqn` before processing
        tpl = [s for s in T.subterms(expr) if isinstance(s, tuple) and s and s[0] == 'const' and isinstance(s[1], str) and '%(lhs)s' in s[1]] if expr else []
        table.setdefault(fam, set()).update(x[1] for x in tpl)
    want = {'>': {'%(lhs)s = max(%(rhs)s, %(lhs)s)'}, '<': {'%(lhs)s = min(%(rhs)s, %(lhs)s)'}, '=': {'%(lhs)s = %(rhs)s'}}
    for fam in ('>', '<', '='):
        ctx.check(table.get(fam) == want[fam], 'constraints_parser#template[%s]' % fam, '%s -> %s' % (fam, sorted(want[fam])[0]),
                  "a '%s' relation is compiled with template %s" % (fam, sorted(table.get(fam, []))), f, lps[1])
    # tolerance tables
    eps = [s for s in stmts_of(lps[1]) if isinstance(s, ast.Assign) and isinstance(s.targets[0], ast.Name) and s.targets[0].id == 'eps' and isinstance(s.value, ast.IfExp)]
    ctx.need(eps, 'constraints_parser: eps table not found')
    tb, dflt = eq_table(eps[0].value, 'eps')
    ctx.check({k: v[1] for k, v in tb.items()} == {'>': ' + e_ ', '<': ' - e_ '} and dflt == ('const', ''), 'constraints_parser#eps', "strict '>' adds, strict '<' subtracts the tolerance",
              'strictness table is %s' % {k: T.show(v) for k, v in tb.items()}, f, eps[0])
    eta = [s for s in stmts_of(lps[1]) if isinstance(s, ast.Assign) and isinstance(s.targets[0], ast.Name) and s.targets[0].id == 'eta' and isinstance(s.value, ast.IfExp)]
    ctx.need(eta, 'constraints_parser: eta table not found')
    rows, dflt = ifexp_table(eta[0].value)
    signs = {}
    for c, v in rows:
        lit = [x for x in T.subterms(c) if isinstance(x, tuple) and x and x[0] == 'const' and x[1] in ('>=', '<=')]
        sg = [x[1] for x in T.subterms(v) if isinstance(x, tuple) and x and x[0] == 'const' and isinstance(x[1], str) and x[1].strip() in ('+', '-')]
        if lit and sg:
            signs[lit[0][1]] = sg[0].strip()
    ctx.check(signs == {'>=': '+', '<=': '-'} and dflt == ('const', ''), 'constraints_parser#eta', "'>=' beside a '!=' moves up, '<=' moves down",
              'eta table is %s' % signs, f, eta[0])
    # the eta template itself: the tolerance applies when the BOUND (rhs) coincides with a value forbidden by a '!=' on the same lhs
    eta0 = [s for s in stmts_of(lps[1]) if isinstance(s, ast.Assign) and isinstance(s.targets[0], ast.Name) and s.targets[0].id == 'eta' and isinstance(s.value, ast.Constant)]
    ctx.need(eta0, 'constraints_parser: eta template not found')

    def tpl_term(text):
        src = text
        for k in ('lhs', 'rhs', 'neq'):
            src = src.replace('%%(%s)s' % k, '_%s_' % k)
        try:
            return T.term(ast.parse(src.strip(), mode='eval').body)
        except SyntaxError:
            return ('opaque', text)
    want_eta = tpl_term('(_tol(%(rhs)s,tol,rel) * any(equal(%(rhs)s,%(neq)s)))')
    ctx.stats['terms_compared'] += 1
    ctx.check(tpl_term(eta0[0].value.value) == want_eta, 'constraints_parser#eta-template', 'tolerance * any(equal(rhs, values forbidden for lhs))',
              'the inclusive-bound nudge is `%s`: it must test the bound (rhs) against the values a != forbids' % eta0[0].value.value, f, eta0[0])
    neq = [s for s in stmts_of(lps[1]) if isinstance(s, ast.Assign) and ''.join(unparse(s.targets[0]).split()) == "eqn['neq']"]
    want_neq = T.term(ast.parse("'[' + ','.join(j for (i,j) in zip(xLHS+xRHS,xRHS+xLHS) if eqn['lhs'] == i) + ']'", mode='eval').body)
    ctx.check(bool(neq) and t(neq[0].value) == want_neq, 'constraints_parser#neq-list', "forbidden values = partners of this lhs in the '!=' lines",
              "the list of values forbidden by '!=' is built as %s" % (unparse(neq[0].value) if neq else None), f, neq[0] if neq else lps[1])
    rhs = [s for s in stmts_of(lps[1]) if isinstance(s, ast.AugAssign) and ''.join(unparse(s.target).split()) == "eqn['rhs']"]
    want = T.term(ast.parse("eps.replace('e_', '_tol(%(rhs)s,tol,rel)' % eqn) or eta % eqn", mode='eval').body)
    ctx.check(bool(rhs) and t(rhs[0].value) == want, 'constraints_parser#rhs', 'rhs extended by the tolerance term', 'rhs is extended by %s' % (unparse(rhs[0].value) if rhs else None), f, rhs[0] if rhs else lps[1])
    # data flow: what is appended to the bound for each comparator, with the locals of the per-line body substituted in the
    # order they are executed (a table that tests a variable after it was overwritten selects nothing)
    if rhs:
        bld = T.Builder()
        for st in _line_body(lps[1]):
            if st is rhs[0]:
                break
            if isinstance(st, ast.Assign) and len(st.targets) == 1 and isinstance(st.targets[0], ast.Name):
                bld.exec_stmt(st)
        added = T.simp(bld.t(rhs[0].value))
        cmpcalls = [x for x in T.subterms(added) if isinstance(x, tuple) and x and x[0] == 'call' and T.show(x[1]) == 'comparator']
        ctx.need(len(set(cmpcalls)) == 1, 'constraints_parser: the tolerance term does not depend on exactly one comparator(...) value')
        tpl = eta0[0].value.value
        expect = {'>': ('call', ' + e_ '), '<': ('call', ' - e_ '), '>=': ('mod', ' + ' + tpl), '<=': ('mod', ' - ' + tpl), '=': ('mod', ''), '==': ('mod', '')}
        for cm, (head, const) in sorted(expect.items()):
            v = fold_consts(T.substitute(added, cmpcalls[0], ('const', cm)))
            if head == 'call':
                if v[0] == 'or':
                    v = v[1]        # a non-empty literal with its placeholder replaced is non-empty: the `or` stops here
                ok_ = v[0] == 'call' and v[1][0] == 'attr' and v[1][2] == 'replace' and v[1][1] == ('const', const)
            else:
                ok_ = v[0] in ('mod', 'fmt') and v[1] == ('const', const)
            ctx.stats['terms_compared'] += 1
            ctx.check(ok_, 'constraints_parser#added[%s]' % cm, "'%s' appends %r to the bound" % (cm, const),
                      "for the comparator '%s' the bound is extended by %s, not by %r (the strictness / inclusive-bound nudge is selected from a variable that no longer holds the comparator)"
                      % (cm, T.show(v)[:160], const), f, rhs[0])
    # first pass: the != rule
    b1 = _line_body(lps[0])
    e1 = [s for s in stmts_of(lps[0]) if isinstance(s, ast.Assign) and isinstance(s.targets[0], ast.Name) and s.targets[0].id in ('eta', 'expression')]
    vals = {s.targets[0].id: unparse(s.value) for s in e1}
    ok_ne = ''.join(vals.get('expression', '').split()) == "'%(lhs)s=%(lhs)s+equal(%(lhs)s,%(rhs)s)'+eta" and \
        ''.join(vals.get('eta', '').split()) == "'*(_tol(%(rhs)s,tol,rel)*1.1)'"
    ctx.check(ok_ne, 'constraints_parser#neq', "'!=' -> lhs = lhs + equal(lhs,rhs) * (tolerance * 1.1)", "the '!=' rule is %s" % vals, f, e1[0] if e1 else lps[0])
    sk = [s for s in b1 if isinstance(s, ast.If) and any(isinstance(x, ast.Continue) for x in s.body)]
    sk2 = [s for s in _line_body(lps[1]) if isinstance(s, ast.If) and any(isinstance(x, ast.Continue) for x in s.body)]
    ctx.check(bool(sk) and ''.join(unparse(sk[0].test).split()) == "'!='!=comparator(constraint)" and bool(sk2) and ''.join(unparse(sk2[0].test).split()) == "eps=='!='",
              'constraints_parser#passes', "pass 1 handles only '!=', pass 2 everything else", 'the two passes no longer partition the lines by comparator', f, lps[0])
    ret = [s for s in f.node.body if isinstance(s, ast.Return)]
    ctx.check(bool(ret) and ''.join(unparse(ret[-1].value).split()) == 'tuple(reversed(parsed))', 'constraints_parser#order', 'solvers returned in reverse order (applied last-to-first by inner coupling)',
              'constraints_parser returns %s' % (unparse(ret[-1].value) if ret else None), f, ret[-1] if ret else f.node)


def _module_strings(ctx, modname):
    """module-level NAME = 'text' constants"""
    out = {}
    for st in ctx.model.modules[modname].tree.body:
        if isinstance(st, ast.Assign) and len(st.targets) == 1 and isinstance(st.targets[0], ast.Name) and isinstance(st.value, ast.Constant) and isinstance(st.value.value, str):
            out[st.targets[0].id] = st.value
    return out


@rule('C13.b', min_instances=5)
def index_replacement_cannot_clobber(ctx):
    """both parsers turn the variable tokens into x[i] textually, for ANY variable-name scheme: (1) x1 must not clobber x10 - plain replacement runs over the indices in descending order, or the pattern refuses a following digit; (2) a token is only replaced where it stands as a whole name - with base name p a plain replacement also rewrites the p2 of exp2 (-> exx[2]), with e the e5 of 1e5: the substitution is a regular expression that refuses a letter, digit or underscore on either side (decided on the parsed pattern); replace_variables substitutes longer names first"""
    from .c12 import _fold_pattern, _whole_name_pattern
    consts = _module_strings(ctx, 'mystic.symbolic')
    for anchor in (SY + ':constraints_parser._process_line', SY + ':penalty_parser'):
        f = ctx.func(anchor)
        loops = [n for n in ast.walk(f.node) if isinstance(n, ast.For) and calls_where(n, lambda c: isinstance(c.func, ast.Attribute) and c.func.attr in ('replace', 'sub') and
                                                                                         'varname' in ' '.join(unparse(s) for s in n.body), include_lambda=False)]
        ctx.need(loops, '%s: the loop that substitutes the variable tokens is not found' % f.qualname)
        lp = min(loops, key=lambda n: sum(1 for _ in ast.walk(n)))      # the innermost such loop
        names = dict(consts)
        for st in lp.body:
            if isinstance(st, ast.Assign) and len(st.targets) == 1 and isinstance(st.targets[0], ast.Name):
                names[st.targets[0].id] = st.value
        plain = calls_where(lp, lambda c: isinstance(c.func, ast.Attribute) and c.func.attr == 'replace' and c.args and 'varname' in unparse(c.args[0]), include_lambda=False)
        subs = calls_where(lp, lambda c: isinstance(c.func, ast.Attribute) and c.func.attr == 'sub' and len(c.args) >= 2, include_lambda=False)
        src = ''.join(unparse(f.node).split())
        rev = 'indices=list(range(ndim))' in src and 'indices.reverse()' in src and ''.join(unparse(lp.iter).split()) == 'indices'
        rev = rev or ''.join(unparse(lp.iter).split()) in ('reversed(range(ndim))', 'range(ndim-1,-1,-1)')
        if plain:
            ctx.check(rev and ''.join(unparse(plain[0]).split()).endswith("(varname+str(i),'x['+str(i)+']')"), f.qualname + '#descending', 'indices replaced in descending order',
                      '%s no longer replaces variable indices from the highest down (x1 would clobber x10)' % f.qualname, f, plain[0])
            ctx.bad(f.qualname + '#whole-names', '%s substitutes the variable tokens with str.replace, wherever the characters occur: with the base name p the p2 inside exp2 becomes x[2] (NameError exx), '
                    'with e the exponent of 1e5 - a legal variable-name scheme breaks the generated constraint' % f.qualname, f, enclosing_stmt(plain[0]))
            continue
        ctx.need(subs, '%s: neither str.replace nor re.sub substitutes the variable tokens' % f.qualname)
        text = _fold_pattern(subs[0].args[0], names)
        ctx.need(text is not None, '%s: cannot fold the pattern %s to text' % (f.qualname, unparse(subs[0].args[0])[:80]))
        ok_ = _whole_name_pattern(text)
        ctx.need(ok_ is not None, '%s: pattern %r cannot be parsed' % (f.qualname, text))
        ctx.check(ok_ or rev, f.qualname + '#descending', 'x1 cannot clobber x10 (a following digit is refused, or descending order)',
                  '%s: the pattern %r accepts x1 inside x10 and the indices are not replaced from the highest down' % (f.qualname, text), f, subs[0])
        ctx.check(ok_, f.qualname + '#whole-names', 'tokens are matched as whole names (pattern %s)' % text,
                  '%s matches the variable tokens with the pattern %r, which accepts a match inside a longer name or a number (p2 in exp2, e5 in 1e5)' % (f.qualname, text), f, enclosing_stmt(subs[0]))
    g = ctx.func(SY + ':replace_variables')
    src = ''.join(unparse(g.node).split())
    ctx.check('variablescopy.sort(key=lambdax:-len(x))' in src, 'replace_variables#longest-first', 'longer names replaced first',
              'replace_variables no longer sorts names by decreasing length', g, g.node)


@rule('C13.c', min_instances=4)
def only_lhs_assigned(ctx):
    """every assignment template of constraints_parser has %(lhs)s as its only target"""
    f = ctx.func(SY + ':constraints_parser')
    tpls = [s for s in strs(f.node) if '%(lhs)s' in s and '=' in s.replace('!=', '')]
    ctx.need(len(tpls) >= 4, 'expected >= 4 assignment templates, found %d' % len(tpls))
    for tp in tpls:
        head = tp.split('=')[0].strip()
        ctx.check(head == '%(lhs)s', 'constraints_parser#target[%s]' % tp[:28], 'assigns %(lhs)s only', 'template `%s` assigns %s' % (tp, head), f, f.node)


@rule('C13.d', min_instances=4)
def composition(ctx):
    """generate_solvers compiles each line into `exec(line); return x` in a namespace created per call; generate_constraint couples with inner by default, in the order given"""
    f = ctx.func(SY + ':generate_solvers')
    _namespace_rule(ctx, f, 'generate_solvers')
    tp = [s for s in strs(f.node) if 'def {container}_{name}(x)' in s]
    ctx.check(bool(tp) and "exec('{equation}')" in tp[0] and 'return x' in tp[0], 'generate_solvers#template', "solver = exec(line); return x", 'solver template changed', f, f.node)
    g = ctx.func(SY + ':generate_constraint')
    src = ''.join(unparse(g.node).split())
    ctx.check('frommystic.couplerimportinner' in src and 'ctype=list((inner,))*len(conditions)' in src, 'generate_constraint#default', 'default coupling is inner',
              'generate_constraint no longer couples with inner by default', g, g.node)
    lp = [n for n in g.node.body if isinstance(n, ast.For)]
    ok_ = bool(lp) and ''.join(unparse(lp[-1].iter).split()) == 'zip(ctype,conditions)' and 'apply=wrapper(condition,**kwds)' in ''.join(unparse(lp[-1]).split()) and \
        'cf=apply(cf)' in ''.join(unparse(lp[-1]).split())
    ctx.check(ok_, 'generate_constraint#stacking', 'cf = wrapper(condition)(cf) for every (wrapper, condition) pair in order', 'constraint stacking changed', g, lp[-1] if lp else g.node)


def _namespace_rule(ctx, f, label):
    """the dict handed to exec as globals is created inside the call (fresh per call), filled, then extended by the user's locals"""
    g = [s for s in f.node.body if isinstance(s, ast.Assign) and isinstance(s.targets[0], ast.Name) and s.targets[0].id == 'globals']
    execs = calls_where(f.node, lambda c: callee_text(c) == 'exec')
    g = [s for s in stmts_of(f.node) if isinstance(s, (ast.Assign, ast.AugAssign)) and any(isinstance(n, ast.Name) and n.id == 'globals' and isinstance(n.ctx, ast.Store) for n in ast.walk(s))]
    fresh = bool(g) and all(isinstance(x, ast.Assign) and isinstance(x.value, ast.Dict) and not x.value.keys for x in g)
    if g and not fresh:
        g = [x for x in g if not (isinstance(x, ast.Assign) and isinstance(x.value, ast.Dict) and not x.value.keys)] + g
    uses = [c for c in execs if len(c.args) >= 2]
    names_ok = all(isinstance(c.args[1], ast.Name) and c.args[1].id == 'globals' for c in uses) and bool(uses)
    modlevel = [n for n in ast.walk(f.node) if isinstance(n, ast.Global)]
    ctx.check(fresh and names_ok and not modlevel, label + '#namespace', 'compiled functions live in a namespace created per call',
              '%s evaluates the generated code in a namespace that is shared between calls (%s): a later call rebinds the locals/tolerances of functions generated earlier'
              % (label, unparse(g[0].value) if g else [unparse(c.args[1]) for c in uses if len(c.args) > 1][:1]), f, g[0] if g else f.node)
    upd = calls_where(f.node, lambda c: ''.join(unparse(c).split()) == 'globals.update(locals)')
    ctx.check(bool(upd), label + '#locals', "user locals (and tol/rel) are visible to the generated code", '%s no longer passes the locals to the generated code' % label, f, f.node)


@rule('C13.e', min_instances=3)
def tolerance_nonnegative(ctx):
    """tolerance(x, tol, rel) = tol + |x|*rel; the generators reject tol < 0 or rel < 0"""
    f = ctx.func('mystic.math.approx:tolerance')
    rets = [s for s in f.node.body if isinstance(s, ast.Return)]
    ctx.need(rets, 'tolerance: no return')
    b = T.Builder()
    for s in f.node.body:
        if isinstance(s, ast.Assign):
            b.exec_stmt(s)
    got = T.simp(b.t(rets[-1].value))
    a = f.args()
    want = T.term(ast.parse('%s + abs(%s)*%s' % (a[1], a[0], a[2]), mode='eval').body)
    ctx.stats['terms_compared'] += 1
    ctx.check(got == want, 'approx.tolerance', 'tol + |x|*rel', 'tolerance returns %s' % T.show(got), f, rets[-1])
    for name in ('generate_solvers', 'generate_conditions'):
        g = ctx.func('%s:%s' % (SY, name))
        chk = [s for s in g.node.body if isinstance(s, ast.If) and any(isinstance(x, ast.Raise) for x in ast.walk(s))
               and 'tol' in unparse(s.test)]
        ok_ = bool(chk) and t(chk[0].test) == T.term(ast.parse('tol < 0 or rel < 0', mode='eval').body)
        ctx.check(ok_, name + '#nonneg', 'rejects tol < 0 or rel < 0', '%s no longer rejects negative tolerances' % name, g, chk[0] if chk else g.node)
    epsilon_keys(ctx)


def epsilon_keys(ctx):
    """generate_solvers and generate_conditions read the strictness tolerances from the caller's locals under their own names:
    locals['tol'] is the caller's 'tol' (default 1e-15) and locals['rel'] the caller's 'rel' (default 1e-15) - the constraint
    and the penalty built from one text with one locals dict then use the same margin (shared by C13.e and C14.e)"""
    for name in ('generate_solvers', 'generate_conditions'):
        g = ctx.func('%s:%s' % (SY, name))
        lp = 'locals'
        L = ('name', lp)
        found = {}
        eb = T.Builder()
        for st in g.node.body:
            if isinstance(st, ast.Assign):
                for tg in st.targets:
                    if isinstance(tg, ast.Subscript) and isinstance(tg.value, ast.Name) and tg.value.id == lp and isinstance(tg.slice, ast.Constant):
                        # (a temporary that holds the value first is looked through)
                        found[tg.slice.value] = (st, T.simp(eb.t(st.value)), [x.id for x in st.targets if isinstance(x, ast.Name)])
                if all(isinstance(tg, ast.Name) for tg in st.targets) and len(st.targets) == 1 and st.targets[0].id != lp:
                    eb.exec_stmt(st)
        for key in ('tol', 'rel'):
            ctx.need(key in found, '%s no longer stores locals[%r]' % (name, key))
            st, v, names = found[key]
            want = ('ifexp', ('cmp', 'in', ('const', key), L), ('sub', L, ('const', key)), T.simp(T.term(ast.parse('1e-15', mode='eval').body)))
            ctx.stats['terms_compared'] += 1
            ctx.check(v == want, '%s#%s' % (name, key), "locals[%r] = the caller's %r, default 1e-15 (bound to the local `%s`)" % (key, key, key),
                      '%s takes its %r from %s (bound to %s): the strictness margin of the generated function is not the one the caller gave under %r'
                      % (name, key, T.show(v)[:80], names, key), g, st)


@rule('C13.f', min_instances=1)
def bounds_constraint(ctx):
    """the symbolic bounds constraint is symbolic_bounds(min, max) -> simplify -> generate_solvers -> generate_constraint"""
    from .c12 import matrix_and_bounds_to_text
    matrix_and_bounds_to_text(ctx)     # the bounds text itself (numbers printed in full, '>=' with min, '<=' with max)
    h = ctx.func('mystic.constraints:boundsconstrain')
    rts = return_terms(h.node)
    ctx.need(len(rts) >= 2, 'boundsconstrain: expected a symbolic and a non-symbolic return')
    ctx.stats['paths_enumerated'] += len(rts)
    MIN, MAX = ('name', 'min'), ('name', 'max')
    pairs = ('call', ('name', 'enumerate'), (('call', ('name', 'zip'), (MIN, MAX), ()),), ())
    n_sym = n_plain = 0
    for p, tm, b, conds in rts:
        def tail(x):
            return T.show(x).split('.')[-1]
        if tm[0] == 'call' and tail(tm[1]) == 'generate_constraint':
            n_sym += 1
            chain = []
            cur = tm
            while cur[0] == 'call' and len(cur[2]) >= 1 and tail(cur[1]) in ('generate_constraint', 'generate_solvers', 'simplify', 'symbolic_bounds'):
                chain.append(tail(cur[1]))
                if tail(cur[1]) == 'symbolic_bounds':
                    break
                cur = cur[2][0]
            # the text symbolic_bounds writes ('xi >= <min[i] in full>' / 'xi <= <max[i] in full>') is already in solved form and
            # is compiled as it is: routed through simplify, sympy re-prints every number with 15 significant digits (a bound
            # of 1/3 becomes 0.333333333333333, BELOW the bound, so the "clipped" value lies outside the box), an all-open box
            # raises, and random test points are drawn (C07)
            ok_ = chain in (['generate_constraint', 'generate_solvers', 'symbolic_bounds'], ['generate_constraint', 'generate_solvers', 'simplify', 'symbolic_bounds']) \
                and cur[2][:2] == (MIN, MAX) and not cur[3]
            ctx.check(ok_, 'boundsconstrain#symbolic', 'symbolic_bounds(min, max) -> generate_solvers -> generate_constraint',
                      'the symbolic bounds pipeline is %s' % T.show(tm)[:200], h, p.exit_node)
            ctx.check('simplify' not in chain, 'boundsconstrain#verbatim-bounds', 'the bounds text is compiled as symbolic_bounds wrote it (numbers in full)',
                      'boundsconstrain sends the bounds text through simplify: sympy re-prints the numbers with 15 significant digits, so a bound that is not representable in 15 digits is moved '
                      '(boundsconstrain([1/3.],[2/3.])([0.]) -> [0.333333333333333] < 1/3: outside the box)', h, p.exit_node, statement='symbolic bounds text re-printed by simplify')
        else:
            n_plain += 1
            ok_ = tm[0] == 'call' and tm[1][0] == 'call' and tail(tm[1][1]) == 'impose_bounds' and len(tm[1][2]) == 1 and \
                len(tm[2]) == 1 and tm[2][0][0] == 'lambda' and len(tm[2][0][1]) == 1 and tm[2][0][3] == ('name', tm[2][0][1][0])
            d = tm[1][2][0] if ok_ else None
            every = False
            if d is not None and d[0] == 'call' and T.show(d[1]) == 'dict' and len(d[2]) == 1:
                a = d[2][0]
                if a == pairs:
                    every = True
                elif a[0] in ('listcomp', 'genexp') and len(a[2]) == 1:
                    g = a[2][0]
                    every = a[1] == (g[0],) and g[1] == pairs and not g[2]
            elif d is not None and d[0] == 'dictcomp':
                every = False     # (not an idiom of this code base: left undecided below)
                raise AnalysisError('boundsconstrain builds its bounds table with a dict comprehension: not modelled')
            ctx.check(ok_ and every, 'boundsconstrain#plain', 'impose_bounds({i: (min[i], max[i]) for every i}, clip=clip)(identity)',
                      'without symbolic the bounds table is %s: an entry of (min, max) is dropped or altered before impose_bounds sees it (a bound of 0 is a bound)'
                      % (T.show(d)[:200] if d is not None else T.show(tm)[:200]), h, p.exit_node)
            if ok_:
                kws = dict(tm[1][3])
                clipv = kws.get('clip')
                wantc = ('ifexp', ('cmp', 'in', ('const', 'clip'), ('name', 'kwds')), ('sub', ('name', 'kwds'), ('const', 'clip')), ('const', True))
                ctx.check(clipv == wantc, 'boundsconstrain#clip', 'clip handed on as given (default True)', 'impose_bounds receives clip=%s' % (T.show(clipv) if clipv else None), h, p.exit_node)
    ctx.need(n_sym >= 1 and n_plain >= 1, 'boundsconstrain: symbolic / plain returns not both found')


@rule('C13.g', min_instances=1)
def constraint_composition_keeps_every_solver(ctx):
    """generate_constraint flattens the given solvers BEFORE it sizes the default coupling types (one ctype per solver), so zip(conditions, ctype) cannot drop trailing solvers of a nested tuple; conditions are folded in the order given with the identity as seed (reference summary)"""
    from .c13_refs import REFS
    a = 'mystic.symbolic:generate_constraint'
    f = ctx.func(a)
    got, want = SB.agree(f.node, REFS[a], strict_casts=True)
    ctx.stats['terms_compared'] += len(got)
    ctx.check(got == want, 'generate_constraint', 'flatten, then one coupling type per solver, then fold in order',
              'generate_constraint differs from its confirmed behaviour (solvers can be dropped or coupled differently): %s' % SB.diff(got, want), f, f.node)


@rule('C13.h', min_instances=4)
def plain_bounds_constraint_clips_to_the_given_box(ctx):
    """boundsconstrain(symbolic=False) clips through constraints.bounded: membership on closed intervals, only out-of-range entries are rewritten, a None bound becomes -inf (lower row) / +inf (upper row) through that row's own mask (shared with C16.h)"""
    from .c16 import bounded_membership_and_addressing
    bounded_membership_and_addressing(ctx)


@rule('C13.i', min_instances=3)
def symbolic_bounds_constraint_keeps_tied_bounds(ctx):
    """the symbolic bounds constraint is simplified before it is compiled: a coordinate with min[i] == max[i] survives only because the lines of a system are merged with the exclusive table ('x >= c', 'x <= c' -> 'x = c'), selected by an explicit inclusive=False that merge reads as given (`in kwds`, not truthiness) - shared with C12.c / C12.f"""
    from .c12 import merge_tables, systems_are_merged_as_conjunctions
    merge_tables(ctx)
    systems_are_merged_as_conjunctions(ctx)


@rule('C13.j', min_instances=1)
def the_bound_is_one_operand(ctx):
    """for 'xi > f' / 'xi < f' (and for >=, <= next to a !=) constraints_parser appends ' + <tolerance>' / ' - <tolerance>' to the TEXT of f and hands the sum to max / min: f is any expression, so unless its text is parenthesised first the appended term binds only to the last operand of a conditional expression, `or`, `and`, comparison or lambda (x0 > x1 if x2 else x3: no epsilon when the first branch is taken - the strict relation does not hold). The dict entry that carries the bound into the second pass is the parenthesised text"""
    from .c12 import _fold_pattern
    f = ctx.func('mystic.symbolic:constraints_parser')
    lps = _loops(f)
    ctx.need(len(lps) >= 2, 'constraints_parser: the two passes over the lines are not found')
    lp = lps[1]
    aug = [s for s in stmts_of(lp) if isinstance(s, ast.AugAssign) and ''.join(unparse(s.target).split()) == "eqn['rhs']"]
    if not aug:
        ctx.need(False, 'constraints_parser: the statement that appends the tolerance to the bound is not found')
    dicts = [s for s in stmts_of(lp) if isinstance(s, ast.Assign) and len(s.targets) == 1 and isinstance(s.targets[0], ast.Name) and s.targets[0].id == 'eqn' and isinstance(s.value, ast.Dict)]
    # ... or the entry is (re)written by a statement of its own before the tolerance is appended: eqn['rhs'] = '(%s)' % eqn['rhs']
    sets = [s for s in stmts_of(lp) if isinstance(s, ast.Assign) and len(s.targets) == 1 and ''.join(unparse(s.targets[0]).split()) == "eqn['rhs']" and s.lineno < aug[0].lineno]
    ctx.need(dicts or sets, "constraints_parser: neither eqn = {...} nor eqn['rhs'] = ... is found in the second pass")
    if sets:
        d = sets[-1]
        v = d.value
    else:
        d = dicts[-1]
        val = [v for k, v in zip(d.value.keys, d.value.values) if isinstance(k, ast.Constant) and k.value == 'rhs']
        ctx.need(val, "constraints_parser: eqn has no 'rhs' entry")
        v = val[0]

    def core(e):
        # the bound's own text: split[-1] with whitespace / '=' stripped - stands for VAR
        while isinstance(e, ast.Call) and isinstance(e.func, ast.Attribute) and e.func.attr in ('strip', 'lstrip', 'rstrip'):
            e = e.func.value
        return e

    def fold(e):
        c = core(e)
        if isinstance(c, ast.Subscript) and isinstance(c.value, ast.Name):
            return 'VAR'
        if isinstance(e, ast.Constant) and isinstance(e.value, str):
            return e.value
        if isinstance(e, ast.BinOp) and isinstance(e.op, ast.Add):
            a, b_ = fold(e.left), fold(e.right)
            return None if a is None or b_ is None else a + b_
        if isinstance(e, ast.BinOp) and isinstance(e.op, ast.Mod) and isinstance(e.left, ast.Constant) and isinstance(e.left.value, str) and e.left.value.count('%s') == 1:
            r = fold(e.right)
            return None if r is None else e.left.value.replace('%s', r)
        if isinstance(e, ast.Call) and isinstance(e.func, ast.Attribute) and e.func.attr == 'format' and len(e.args) == 1 and isinstance(e.func.value, ast.Constant):
            r = fold(e.args[0])
            return None if r is None else e.func.value.value.replace('{}', r).replace('{0}', r)
        return None
    text = fold(v)
    ctx.need(text is not None and 'VAR' in text, "constraints_parser: cannot fold the 'rhs' entry %s to text" % unparse(v)[:80])
    compact = ''.join(text.split())
    ctx.check(compact.startswith('(') and compact.endswith(')') and compact.count('VAR') == 1 and compact.strip('()') == 'VAR', 'constraints_parser#bound-parenthesised',
              "the bound enters the generated statement as (%s)" % 'rhs',
              "constraints_parser appends the tolerance term to the bare text of the bound (%s): for a bound with a low-precedence operator (x1 if x2 else x3, x1 or 1.0) the term is added to its last operand only, "
              "so 'x0 > x1 if x2 else x3' returns x0 == x1 - the strict relation does not hold" % unparse(v)[:80], f, d)


# functions numpy has provided under these names throughout 1.x and 2.x (the generated code does `from numpy import *`)
STABLE_NUMPY = {'ptp', 'var', 'prod', 'mean', 'sum', 'std', 'average', 'abs', 'max', 'min'}


def _rewrites(fnode, consts=None):
    """{'old': ('new', call, whole_name)} for the renamings of a line processor: `constraint.replace('old(', 'new(')` (matches anywhere:
    whole_name False) or `re.sub(<pattern for old followed by (>, 'new(', constraint)` (whole_name as judged on the parsed pattern)"""
    from .c12 import _whole_name_pattern
    out = {}
    for c in ast.walk(fnode):
        if not (isinstance(c, ast.Call) and isinstance(c.func, ast.Attribute)):
            continue
        if c.func.attr == 'replace' and len(c.args) == 2 and \
                all(isinstance(a, ast.Constant) and isinstance(a.value, str) and a.value.endswith('(') and a.value[:-1].isidentifier() for a in c.args):
            out[c.args[0].value[:-1]] = (c.args[1].value[:-1], c, False)
        elif c.func.attr == 'sub' and len(c.args) >= 3 and isinstance(c.args[1], ast.Constant) and isinstance(c.args[1].value, str) and c.args[1].value.endswith('(') \
                and c.args[1].value[:-1].isidentifier():
            # pattern: <template with one %s> % 'old' + r'\('
            e = c.args[0]
            tail = ''
            if isinstance(e, ast.BinOp) and isinstance(e.op, ast.Add) and isinstance(e.right, ast.Constant):
                tail, e = e.right.value, e.left
            if isinstance(e, ast.BinOp) and isinstance(e.op, ast.Mod) and isinstance(e.right, ast.Constant) and isinstance(e.right.value, str) and e.right.value.isidentifier():
                tpl = e.left
                if isinstance(tpl, ast.Name) and consts and tpl.id in consts:
                    tpl = consts[tpl.id]
                if isinstance(tpl, ast.Constant) and isinstance(tpl.value, str) and tpl.value.count('%s') == 1 and tail in ('\\(', '[(]'):
                    out[e.right.value] = (c.args[1].value[:-1], c, bool(_whole_name_pattern(tpl.value.replace('%s', 'VAR'))))
    return out


def _preamble_names(f):
    """names bound EXPLICITLY by the import preamble a generator executes before the generated code (star imports aside)"""
    # every piece of import text the generator builds - `code = "..."; code += "..."`, or the pieces of a ''.join((...)) - in source order
    text = ''
    doc = f.node.body[0].value if f.node.body and isinstance(f.node.body[0], ast.Expr) and isinstance(f.node.body[0].value, ast.Constant) else None
    pieces = [n for n in walk_no_nested(f.node) if isinstance(n, ast.Constant) and isinstance(n.value, str) and n is not doc and
              re.match(r'\s*(from\s+[\w.]+\s+import|import)\s', n.value)]
    for n in sorted(pieces, key=lambda n: (n.lineno, n.col_offset)):
        text += n.value if n.value.rstrip().endswith(';') else n.value + ';'
    names, stars = set(), set()
    try:
        tree = ast.parse(text)
    except SyntaxError:
        return None, None
    for n in ast.walk(tree):
        if isinstance(n, ast.ImportFrom):
            for a in n.names:
                if a.name == '*':
                    stars.add(n.module)
                else:
                    names.add(a.asname or a.name)
        elif isinstance(n, ast.Import):
            names |= set((a.asname or a.name).split('.')[0] for a in n.names)
    return names, stars


def rewritten_names_are_bound(ctx, parser_anchor, generator_anchor, label):
    """writer / namespace agreement: every function name a line processor rewrites a call INTO must be bound in the namespace in which
    the generator executes the produced text - named explicitly in its import preamble, or one of the long-standing numpy functions its
    `from numpy import *` provides"""
    pf = ctx.func(parser_anchor)
    gf = ctx.func(generator_anchor)
    rw = _rewrites(pf.node, _module_strings(ctx, 'mystic.symbolic'))
    ctx.need(len(rw) >= 3, '%s: expected >= 3 call renamings in the line processor, found %d' % (label, len(rw)))
    names, stars = _preamble_names(gf)
    ctx.need(names is not None and (names or stars), '%s: the import preamble of %s cannot be read' % (label, gf.qualname))
    for old, (new, c, whole) in sorted(rw.items()):
        ctx.check(whole, '%s#%s-whole-name' % (label, old), '%s( is renamed only where it is the whole function name' % old,
                  '%s renames %s( wherever the characters occur: nan%s( / cum%s( in a legal text become nan%s( / cum%s(, names that do not exist (NameError when the generated function is first called)'
                  % (pf.qualname, old, old, old, new, new), pf, c)
        ok_ = new in names or ('numpy' in stars and new in STABLE_NUMPY)
        ctx.check(ok_, '%s#%s->%s' % (label, old, new), '%s( is bound where the generated text runs' % new,
                  '%s rewrites %s( into %s(, but %s does not bind the name %s explicitly and numpy does not provide it in every supported version (numpy.product was removed in 2.0): '
                  'a legal text using %s( raises NameError when the generated function is first called' % (pf.qualname, old, new, gf.qualname, new, old), pf, c)


@rule('C13.k', min_instances=4)
def solver_text_only_names_bound_functions(ctx):
    """constraints_parser renames ptp( / average( / var( / prod( into mystic's spread( / mean( / variance( / product(; generate_solvers executes the result: each of those names is bound by its import preamble"""
    rewritten_names_are_bound(ctx, SY + ':constraints_parser._process_line', SY + ':generate_solvers', 'constraints_parser')


@rule('C13.l', min_instances=1)
def vectorize_hands_the_callers_rows_to_the_constraint(ctx):
    """vectorize(constraint) applies a compiled (in-place) constraint to every row / column of a table: the rows it iterates over are the caller's own (x, or x.T of an array the caller made) - never rows of an array built here with asarray/array, which gives a table of python ints an integer dtype so that the constraint's float result is truncated on assignment (x0 = x1/2 on [2,3,-9] gave [1,3,-9])"""
    f = ctx.func('mystic.constraints:vectorize')
    n = 0
    for d in [x for x in ast.walk(f.node) if isinstance(x, ast.FunctionDef) and x is not f.node]:
        params = set(a.arg for a in d.args.args)
        rebound = {}
        for st in ast.walk(d):
            if isinstance(st, ast.Assign):
                for t_ in st.targets:
                    if isinstance(t_, ast.Name):
                        rebound.setdefault(t_.id, []).append(st)
        for comp in [x for x in ast.walk(d) if isinstance(x, (ast.ListComp, ast.GeneratorExp))]:
            if not any(isinstance(c, ast.Call) and isinstance(c.func, ast.Name) and c.func.id == 'constraint' for c in ast.walk(comp.elt)):
                continue
            n += 1
            it = comp.generators[0].iter
            root = it
            while isinstance(root, (ast.Attribute, ast.Subscript)):
                root = root.value
            # the comprehension may sit inside a lambda whose own parameter stands for the outer x
            lam = parent(comp)
            while lam is not None and not isinstance(lam, (ast.Lambda, ast.FunctionDef)):
                lam = parent(lam)
            lam_params = set(a.arg for a in lam.args.args) if isinstance(lam, ast.Lambda) else set()
            made_here = [st for st in rebound.get(getattr(root, 'id', None), []) if any(isinstance(c, ast.Call) and callee_text(c).split('.')[-1] in ('asarray', 'array', 'asanyarray', 'atleast_2d') for c in ast.walk(st.value))]
            ok_ = isinstance(root, ast.Name) and (root.id in params or root.id in lam_params) and not made_here
            ctx.check(ok_, 'vectorize.%s#rows@%d' % (d.name, comp.lineno), 'the constraint receives the caller\'s own rows (%s)' % unparse(it),
                      'vectorize iterates over %s, rows of an array it built itself (%s): a table of python ints becomes an integer array and the in-place constraint\'s float results are truncated'
                      % (unparse(it), norm_stmt(made_here[0])[:60] if made_here else 'not the argument'), f, comp)
    ctx.need(n >= 1, 'vectorize: the application of the constraint to the rows is not found')
