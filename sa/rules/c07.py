"""C07 - results depend only on configuration and seed, not on call order or schedule.

Decided: no configuration method can reach a random draw / reseed / private
generator through the whole-package call graph (positive control: the
Set*InitialPoints methods must reach one); configuration methods write only
their own settings (frozen table), never iteration state, so no setter silently
resets what another one set; in DE2 every strategy and constraints call precedes
the map, nothing in the mapped wrapper chain draws random numbers, results are
consumed by the loop index; the default map preserves order; ensembles map the
member list positionally and reduce by slot; nothing reachable from Step/Solve
builds a private or time/pid-seeded generator.
Round 3: no configuration method or initial-point setter reads a setting owned
by another one; the raw cost gets a copy in-process as it does under a process
map; the two closures the ensemble maps (_step / _solve) are siblings around
their run call.
Round 4: no function of the solver modules keeps, mutates or hands on an object
built once as a default argument.
Round 5 (hunt): random_seed never swallows numpy's refusal of a seed (repair
837d2bb); every user of self._map materialises the result before indexing it,
as the ensembles do (repair 3549835); no Set* method writes attributes of its
arguments (SetNestedSolver no longer sets NP on the solver class; repair
3fcd340).
Round 6: Step checks termination before every step but the first (guard
evaluated over monitor lengths); a replacement seed is reproducible across
processes; re-decoration draws random numbers only for members outside the box
(repair 7c43727).
NOT decided: identity of trajectories, step-wise vs run-to-completion equality,
process maps, hash randomisation of message strings.
"""
import ast

from ..core import rule
from ..srcmodel import AnalysisError, walk_no_nested, attr_chain, unparse, norm_stmt
from ..callgraph import attr_writes
from ..paths import enumerate_paths
from .. import terms as T
from .common import *

AS = 'mystic.abstract_solver:AbstractSolver'
CONFIG_METHODS = ['SetObjective', 'SetReducer', 'SetPenalty', 'SetConstraints', 'SetGenerationMonitor',
                  'SetEvaluationMonitor', 'SetStrictRanges', 'SetEvaluationLimits', 'SetTermination',
                  'SetSaveFrequency', 'SetMapper', 'SetNestedSolver', 'SetDistribution',
                  'enable_signal_handler', 'disable_signal_handler']
POSITIVE_CONTROLS = ['SetInitialPoints', 'SetRandomInitialPoints', 'SetMultinormalInitialPoints']

# what each configuration method may write on self (its own settings, plus the invalidation flag)
WRITE_TABLE = {
    'SetObjective': {'_cost', '_live'},
    'SetReducer': {'_reducer'},
    'SetPenalty': {'_penalty'},
    'SetConstraints': {'_constraints'},
    'SetGenerationMonitor': {'_stepmon', 'energy_history', 'solution_history'},
    'SetEvaluationMonitor': {'_evalmon'},
    'SetStrictRanges': {'_strictMax', '_strictMin', '_strictbounds', '_useClipRange', '_useStrictRange', '_useTightRange'},
    'SetEvaluationLimits': {'_maxfun', '_maxiter'},
    'SetTermination': {'_collapse', '_termination'},
    'SetSaveFrequency': {'_saveiter', '_state'},
    'SetMapper': {'_map', '_mapconfig'},
    'SetNestedSolver': {'_solver', '_NP'},      # _NP: the members' population size given with the nested solver class
    'SetDistribution': {'_dist'},
    'enable_signal_handler': {'_handle_sigint'},
    'disable_signal_handler': {'_handle_sigint'},
}
ITERATION_STATE = {'population', 'popEnergy', 'bestSolution', 'bestEnergy', '_bestSolution', '_bestEnergy', 'trialSolution',
                   'genealogy', '_direc', '_fcalls', '_allSolvers', '_bestSolver'}


def _impls(ctx, name):
    base = ctx.cls(AS)
    out = []
    for k in ctx.model.subclasses(base):
        if name in k.methods:
            out.append((k, k.methods[name]))
    return out


def _via(path):
    """the part of a call path after it leaves the solver classes (keys findings)"""
    tail = [f.anchor for f in path if f.cls is None and '.' not in f.qualname.split('.')[0][:0] and f.parent is None and f.cls is None]
    tail = [f.anchor for f in path[1:] if f.cls is None]
    return ' > '.join(tail[:2]) if tail else path[-1].anchor


@rule('C07.a', min_instances=18)
def config_methods_draw_no_random_numbers(ctx):
    """no RNG draw/seed/private generator is reachable from any Set* configuration method (all overrides); positive control: Set*InitialPoints reach one"""
    cg = ctx.cg
    n = 0
    for name in CONFIG_METHODS:
        impls = _impls(ctx, name)
        ctx.need(impls, 'configuration method %s no longer exists' % name)
        for k, f in impls:
            ctx.touch(f)
            hits = cg.reach(f, cg.rng_effects)
            ctx.stats['functions_reached'] += len(cg.last_seen)
            n += 1
            construct = '%s.%s' % (k.name, name)
            if not hits:
                ctx.ok(construct, 'no RNG primitive among the %d functions reachable' % len(cg.last_seen), f, f.node)
                continue
            seen = set()
            for path, (kind, text, node) in hits:
                via = _via(path)
                if via in seen:
                    continue
                seen.add(via)
                ctx.bad(construct, 'configuration method reaches a random-number %s (%s at %s:%d) through %s: the order of configuration calls changes '
                        'the random stream' % (kind, text, path[-1].file, node.lineno, ' > '.join(x.qualname for x in path)),
                        path[-1], node, statement='reaches RNG via ' + via)
    for name in POSITIVE_CONTROLS:
        f = ctx.func(AS + '.' + name)
        hits = cg.reach(f, cg.rng_effects)
        ctx.need(hits, 'positive control failed: %s should reach a random draw - the RNG detector is blind' % name)
        ctx.ok('control:' + name, 'reaches %s (detector alive)' % hits[0][1][1], f, hits[0][1][2])


@rule('C07.b', min_instances=15)
def config_methods_only_record_settings(ctx):
    """each configuration method writes only its own settings and no iteration state (frozen write table)"""
    for name in CONFIG_METHODS:
        for k, f in _impls(ctx, name):
            ctx.touch(f)
            sn = selfname_of(f)
            ws = attr_writes(f.node, sn)
            written = set(a for a, kind, node in ws)
            extra = written - WRITE_TABLE[name]
            construct = '%s.%s' % (k.name, name)
            if extra:
                node = next(node for a, kind, node in ws if a in extra)
                what = 'iteration state' if extra & ITERATION_STATE else 'a setting owned by another method'
                ctx.bad(construct, '%s writes %s (%s): configuring one thing changes another, so the order of Set* calls matters'
                        % (construct, sorted(extra), what), f, node)
            else:
                ctx.ok(construct, 'writes %s only' % sorted(written), f, f.node)
            # other solver objects must not be touched either (e.g. a nested prototype), except the documented NP hack
            for node in walk_no_nested(f.node):
                if isinstance(node, ast.Attribute) and isinstance(node.ctx, ast.Store) and not (isinstance(node.value, ast.Name) and node.value.id == sn):
                    root = node.value
                    while isinstance(root, (ast.Attribute, ast.Subscript)):
                        root = root.value
                    if isinstance(root, ast.Name) and root.id == sn:
                        continue
                    if name == 'SetNestedSolver' and node.attr == 'NP':
                        continue
                    ctx.bad(construct, '%s stores to %s' % (construct, unparse(node)), f, node)


@rule('C07.c', min_instances=5)
def de2_is_map_order_independent(ctx):
    """DE2._Step: all strategy/constraints calls precede the map; nothing in the mapped wrappers draws random numbers; results are consumed by loop index; python_map keeps order"""
    f = ctx.func('mystic.differential_evolution:DifferentialEvolutionSolver2._Step')
    sn = selfname_of(f)
    allmaps = [s for s in stmts_of(f.node) if not isinstance(s, (ast.If, ast.For, ast.While, ast.Try, ast.With)) and
               calls_where(s, lambda c: self_call(c, '_map', sn), include_lambda=False)]
    ctx.need(allmaps, 'DE2._Step: no map statement found')
    # only the decorated objective may run inside the map: constraints and strategies are user callables that may draw
    # random numbers, so mapping them makes the random stream depend on the map's schedule
    maps = []
    for s_ in allmaps:
        for c in calls_where(s_, lambda c: self_call(c, '_map', sn), include_lambda=False):
            a0 = c.args[0] if c.args else None
            is_obj = False
            if isinstance(a0, ast.Name):
                ds = [d for d in stmts_of(f.node) if isinstance(d, ast.Assign) and len(d.targets) == 1 and isinstance(d.targets[0], ast.Name) and d.targets[0].id == a0.id]
                is_obj = bool(ds) and all(isinstance(d.value, ast.Call) and self_call(d.value, '_bootstrap_objective', sn) for d in ds)
            if is_obj:
                maps.append(s_)
            else:
                ctx.bad('DifferentialEvolutionSolver2._Step#mapped-callable', 'self._map runs `%s`, which is not the decorated objective: a user callable that may draw random '
                        'numbers (constraints, strategy) is evaluated in whatever order the map chooses' % (unparse(a0)[:40] if a0 is not None else None), f, c)
    ctx.need(len(maps) == 1, 'DE2._Step: expected one map of the objective, found %d' % len(maps))
    ctx.ok('DifferentialEvolutionSolver2._Step#mapped-callable', 'the only mapped callable is the decorated objective', f, maps[0])
    ml = maps[0].lineno
    late = [c for c in calls_where(f.node, lambda c: isinstance(c.func, ast.Name) and c.func.id in ('strategy', 'constraints'), include_lambda=False)
            if c.lineno > ml]
    ctx.check(not late, 'DifferentialEvolutionSolver2._Step#before-map', 'every strategy/constraints call precedes the map',
              'a strategy/constraints call (which draws random numbers) follows the map, so the random stream depends on the map\'s schedule', f, late[0] if late else maps[0])
    # nothing after the map consumes randomness
    cg = ctx.cg
    post = [e for e in cg.rng_effects(f) if e[2].lineno > ml]
    ctx.check(not post, 'DifferentialEvolutionSolver2._Step#no-rng-after-map', 'no RNG use after the map', 'RNG use after the map: %s' % [e[1] for e in post], f, post[0][2] if post else maps[0])
    # the mapped wrapper chain draws nothing
    for q in ('mystic.tools:wrap_function.function_wrapper', 'mystic.tools:wrap_bounds.function_wrapper', 'mystic.tools:wrap_bounds.function_wrapper#2',
              'mystic.tools:wrap_penalty.function_wrapper', 'mystic.tools:reduced.dec.func', 'mystic.tools:reduced.dec.func#2'):
        w = ctx.func(q)
        hits = cg.reach(w, cg.rng_effects)
        ctx.check(not hits, q.split(':')[1], 'draws no random numbers', 'a wrapper executed inside the map draws random numbers: %s' % [h[1][1] for h in hits], w, hits[0][1][2] if hits else w.node)
    # results consumed by index
    loops = [n for n in f.node.body if isinstance(n, ast.For) and n.lineno > ml]
    ctx.need(loops, 'DE2._Step: no selection loop after the map')
    lp = loops[0]
    idx = lp.target.id if isinstance(lp.target, ast.Name) else None
    subs = [n for n in walk_no_nested(lp) if isinstance(n, ast.Subscript) and isinstance(n.value, ast.Name) and n.value.id == 'trialEnergy']
    good = idx is not None and subs and all(isinstance(s.slice, ast.Name) and s.slice.id == idx for s in subs) and \
        ''.join(unparse(lp.iter).split()) == 'range(%s.nPop)' % sn
    ctx.check(bool(good), 'DifferentialEvolutionSolver2._Step#by-index', 'results read as trialEnergy[%s] for %s in range(nPop)' % (idx, idx),
              'map results are not consumed position by position', f, lp)
    between = [s for s in f.node.body if ml < s.lineno < lp.lineno]
    reorder = [c for s in between for c in calls_where(s, lambda c: callee_text(c).split('.')[-1] in ('sorted', 'sort', 'reversed', 'shuffle', 'argsort', 'set'))]
    ctx.check(not reorder, 'DifferentialEvolutionSolver2._Step#no-reorder', 'results are not reordered between the map and their use',
              'map results are reordered (%s) before use' % (callee_text(reorder[0]) if reorder else ''), f, reorder[0] if reorder else maps[0])
    # the step itself must not branch on which map was supplied
    mapconds = [n for n in walk_no_nested(f.node) if isinstance(n, (ast.If, ast.IfExp, ast.While)) and
                any(is_self_attr(x, '_map', sn) or (isinstance(x, ast.Name) and x.id == 'python_map') for x in ast.walk(n.test))]
    ctx.check(not mapconds, 'DifferentialEvolutionSolver2._Step#map-agnostic', 'no branch of the step depends on the identity of the map',
              'DE2._Step behaves differently depending on which map is installed (`%s`): bookkeeping and stopping then depend on the map' % (unparse(mapconds[0].test) if mapconds else ''),
              f, mapconds[0] if mapconds else maps[0])
    pm = ctx.func('mystic.python_map:python_map')
    rets = [n for n in pm.node.body if isinstance(n, ast.Return)]
    b = T.Builder()
    for st in pm.node.body:
        b.exec_stmt(st)
    rt = T.simp(b.t(rets[0].value)) if rets else None
    want = ('call', ('name', 'list'), (('call', ('name', 'map'), (('name', pm.args()[0]), ('star', ('name', 'arglist'))), ()),), ())
    ctx.check(rt == want, 'python_map', 'list(map(func, *arglist)) - input order', 'python_map returns %s' % (T.show(rt) if rt else None), pm, pm.node)


@rule('C07.d', min_instances=3)
def ensembles_reduce_by_position(ctx):
    """ensembles hand the member list to the map positionally, write result k to slot k and scan slots in index order with a fixed tie rule"""
    E = 'mystic.abstract_ensemble_solver:AbstractEnsembleSolver'
    for meth, inner in (('_Step', '_step'), ('_Solve', '_solve')):
        f = ctx.func(E + '.' + meth)
        sn = selfname_of(f)
        mc = calls_where(f.node, lambda c: self_call(c, '_map', sn), include_lambda=False)
        ctx.need(mc, 'no map call in ensemble %s' % meth)
        c = mc[0]
        args = [unparse(a) for a in c.args]
        ctx.check(args[:3] == [inner, 'op', 'iv'], 'AbstractEnsembleSolver.%s#map' % meth, 'map(%s, op, iv, ...) positional' % inner,
                  'the ensemble map is called as %s' % unparse(c)[:80], f, c)
    g = ctx.func(E + '.__update_allSolvers')
    sn = selfname_of(g)
    # results.pop() paired with slot len(results)
    b = T.Builder()
    src = ''.join(unparse(g.node).split())
    good = '_solver,_stepmon,_evalmon=results.pop()' in src and 'lr=len(results)' in src and '%s._allSolvers[lr]=_solver' % sn in src and \
        's=%s._allSolvers[lr]' % sn in src
    ctx.check(good, 'AbstractEnsembleSolver.__update_allSolvers', 'result popped from position k is written to slot k',
              'results are no longer written back to the slot they came from', g, g.node)
    # the tie rule must make the outcome a function of the slots alone: with `<=` the last slot holding the minimum wins whatever
    # the incumbent was; with a strict `<` an incumbent that ties keeps its place, so the answer depends on the history of earlier
    # reductions (step-wise mode reduces after every step, run-to-completion once)
    from .c09 import best_member_scan, incumbent_term
    r = best_member_scan(ctx)
    h, sn = r['f'], r['sn']
    inc = incumbent_term(sn)
    bad = None
    for p, val, lits, node, member in r['stores']:
        if (T.mk_cmp('<=', ('attr', member, 'bestEnergy'), inc), True) not in lits:
            bad = (node, lits)
    ctx.check(r['iter_ok'] and bool(r['stores']) and bad is None, 'AbstractEnsembleSolver.__update_bestSolver',
              'scans all slots in index order, keeps a member under member.bestEnergy <= incumbent (ties: the last slot wins, independent of the incumbent)',
              'best-member scan over %s replaces the best under %s: on an exact tie the outcome depends on which member was the incumbent, i.e. on the history of earlier reductions'
              % (T.show(r['iter']), [(T.show(c)[:50], tr) for c, tr in (bad[1] if bad else [])][:3]), h, bad[0] if bad else r['loop'])


@rule('C07.e', min_instances=4)
def one_random_source(ctx):
    """nothing reachable from Step/Solve/_Step constructs a private generator or seeds from time/pid"""
    cg = ctx.cg
    base = ctx.cls(AS)
    entries = []
    for name in ('Step', 'Solve', '_Step', '_Solve'):
        for m in ctx.model.overriders(base, name):
            entries.append(m)

    def eff(f):
        return [e for e in cg.rng_effects(f) if e[0] in ('private-generator', 'seed')]
    for m in entries:
        ctx.touch(m)
        hits = cg.reach(m, eff)
        k = ctx.model.enclosing_class(m)
        construct = '%s.%s' % (k.name, m.name)
        if hits:
            path, (kind, text, node) = hits[0]
            ctx.bad(construct, 'a %s (%s) is reachable while stepping: %s' % (kind, text, ' > '.join(x.qualname for x in path)), path[-1], node,
                    statement='%s via %s' % (kind, _via(path)))
        else:
            ctx.ok(construct, 'no private generator / reseeding among %d reachable functions' % len(cg.last_seen), m, m.node)
    # the strategies use the module-level global generator only
    sm = ctx.model.module('mystic.strategy')
    for q, f in sorted(sm.funcs.items()):
        effs = cg.rng_effects(f)
        badk = [e for e in effs if e[0] != 'draw']
        if badk:
            ctx.bad('strategy.' + q, 'strategy uses %s' % badk[0][1], f, badk[0][2])
    ctx.ok('mystic.strategy', '%d strategy functions draw from the global generator only' % len(sm.funcs), None, None)


@rule('C07.f', min_instances=1)
def ensemble_query_does_not_resolve_limits_early(ctx):
    """AbstractEnsembleSolver.Terminated (default all=None) answers "not terminated" for an ensemble with missing members before it resolves the ensemble's None limits to defaults (which would then be pushed into every member, unlike run-to-completion mode)"""
    f = ctx.func('mystic.abstract_ensemble_solver:AbstractEnsembleSolver.Terminated')
    sn = selfname_of(f)

    def rel(n):
        if isinstance(n, ast.Call) and self_call(n, '_SetEvaluationLimits', sn):
            return True
        return isinstance(n, ast.Return) or (isinstance(n, ast.Name) and n.id in ('all', 'end'))
    paths = enumerate_paths(f.node, relevant=rel, unroll=(0, 1))
    ctx.stats['paths_enumerated'] += len(paths)
    bad = None
    n = 0
    for p in paths:
        all_none = False
        checked_members = False
        for e in p.events:
            if e[0] == 'cond':
                txt = ''.join(unparse(e[1]).split())
                if txt == 'allisNone' and e[2]:
                    all_none = True
                if txt == 'Falseinend' and not e[2]:
                    checked_members = True
            elif e[0] == 'stmt' and calls_where(e[1], lambda c: self_call(c, '_SetEvaluationLimits', sn), include_lambda=False):
                # which default mode is this path in?  `all is True` returns earlier; all=None must have passed the member check
                took_true = any(x[0] == 'cond' and ''.join(unparse(x[1]).split()) == 'allisTrue' and x[2] for x in p.events)
                mode_known = any(x[0] == 'cond' and ''.join(unparse(x[1]).split()) in ('allisTrue', 'allisNone') for x in p.events[:p.events.index(e)])
                n += 1
                if not mode_known or (all_none and not checked_members):
                    bad = (p, e[1])
    ctx.need(n > 0, 'ensemble Terminated no longer resolves the limits at all')
    ctx.check(bad is None, 'AbstractEnsembleSolver.Terminated#limits-after-member-check', '%d paths: limits are resolved only after the all/None member checks' % n,
              'the ensemble resolves its None limits to defaults before checking that its members exist/terminated; a `while not Terminated(): Step()` loop then '
              'pushes those defaults into every member, unlike Solve(): %s' % (bad[0].describe(6) if bad else ''), f, bad[1] if bad else f.node)


@rule('C07.g', min_instances=15)
def defaults_are_resolved_at_run_time_only(ctx):
    """no configuration method resolves the default limits: self._SetEvaluationLimits (default = f(nPop, nDim) plus the CURRENT counters) is reachable only from run-time code (Terminated / the wrappers); SetEvaluationLimits records None / the "*" sentinel instead - resolved at configuration time, the bound would depend on which other Set* calls (a monitor replaced with new=True resets the counters) came first"""
    cg = ctx.cg
    n = 0
    for name in CONFIG_METHODS:
        for k, f in _impls(ctx, name):
            ctx.touch(f)

            def eff(g):
                sn = selfname_of(g)
                return [c for c in calls_where(g.node, lambda c: isinstance(c.func, ast.Attribute) and c.func.attr == '_SetEvaluationLimits', include_lambda=False)]
            hits = cg.reach(f, eff)
            n += 1
            ctx.check(not hits, '%s.%s#no-default-resolution' % (k.name, name), 'does not reach _SetEvaluationLimits',
                      '%s.%s resolves the default limits at configuration time (%s): they then depend on the counters at that moment, i.e. on the order of the configuration calls'
                      % (k.name, name, ' > '.join(x.qualname for x in hits[0][0]) if hits else ''), f, hits[0][1] if hits else f.node)
    # positive control: Terminated must reach it
    t_ = ctx.func(AS + '.Terminated')
    ctx.need(calls_where(t_.node, lambda c: isinstance(c.func, ast.Attribute) and c.func.attr == '_SetEvaluationLimits', include_lambda=False),
             'positive control failed: Terminated no longer resolves the limits')


def _cross_reads(fnode, name, sn):
    """settings owned by OTHER configuration methods that this method body reads: [(attribute, owners, node)]"""
    owner = {}
    for k, v in WRITE_TABLE.items():
        for a in v:
            owner.setdefault(a, set()).add(k)
    out = []
    for n in walk_no_nested(fnode):
        if isinstance(n, ast.Attribute) and isinstance(n.ctx, ast.Load) and isinstance(n.value, ast.Name) and n.value.id == sn:
            if n.attr in owner and name not in owner[n.attr]:
                out.append((n.attr, sorted(owner[n.attr]), n))
    return out


@rule('C07.h', min_instances=20)
def config_methods_do_not_read_each_others_settings(ctx):
    """no configuration method, and no initial-point setter, reads a setting that another configuration method owns (write table of C07.b): what it records or draws would then depend on whether that other Set* call came before or after it"""
    # the detector must see the construct it looks for (positive control on a synthetic method)
    probe = ast.parse('def SetRandomInitialPoints(self, min=None):\n    if min is None: min = self._strictMin if len(self._strictMin) else self._defaultMin\n').body[0]
    ctx.need(len(_cross_reads(probe, 'SetRandomInitialPoints', 'self')) == 2, 'cross-read detector lost its positive control')
    for name in CONFIG_METHODS + POSITIVE_CONTROLS:
        for k, f in _impls(ctx, name):
            ctx.touch(f)
            sn = selfname_of(f)
            found = _cross_reads(f.node, name, sn)
            construct = '%s.%s#reads' % (k.name, name)
            if found:
                a, owners, node = found[0]
                ctx.bad(construct, '%s.%s reads self.%s, a setting recorded by %s: its effect depends on whether %s was called before or after it'
                        % (k.name, name, a, '/'.join(owners), '/'.join(owners)), f, enclosing_stmt(node))
            else:
                ctx.ok(construct, 'reads no setting owned by another configuration method', f, f.node)


@rule('C07.i', min_instances=1)
def in_process_and_process_maps_see_the_same_thing(ctx):
    """a process-based map always evaluates a pickled copy of each work item, so the in-process path must not hand the solver's own vector to user code either: on the way to the raw cost one of the always-present wrappers (wrap_penalty / wrap_function) copies it (otherwise a cost that normalises its argument in place changes the solver's population under the serial map only; shared with C01.b)"""
    from .c01 import raw_cost_receives_a_copy
    raw_cost_receives_a_copy(ctx)


@rule('C07.j', min_instances=2)
def step_wise_and_run_to_completion_prepare_members_alike(ctx):
    """the two functions the ensemble maps over its members - _step (step-wise mode) and _solve (run to completion) - are siblings: what they do to a member before it runs (initial points, re-imposed strict ranges with the same tight / clip arguments, the _live hack) and what they harvest afterwards (copies of the two monitors) are the same behaviour, path for path; they differ only in the run call itself"""
    from .. import siblings as SB
    E = 'mystic.abstract_ensemble_solver:AbstractEnsembleSolver'
    parts = {}
    for meth, inner, run in (('_Step', '_step', 'Step'), ('_Solve', '_solve', 'Solve')):
        g = ctx.func('%s.%s.%s' % (E, meth, inner))
        sp = g.args()[0]
        idx = [i for i, st in enumerate(g.node.body) if isinstance(st, ast.Expr) and isinstance(st.value, ast.Call) and isinstance(st.value.func, ast.Attribute)
               and st.value.func.attr == run and isinstance(st.value.func.value, ast.Name) and st.value.func.value.id == sp]
        ctx.need(len(idx) == 1, '%s: expected exactly one top-level %s.%s(...) statement' % (inner, sp, run))
        i = idx[0]
        pre = g.node.body[:i]
        # run-to-completion hands the objective over first when the member has none (C09.g): part of the run call, not of the preparation
        if pre and isinstance(pre[-1], ast.If) and 'SetObjective' in unparse(pre[-1]) and '_cost' in unparse(pre[-1].test):
            pre = pre[:-1]
        post = g.node.body[i + 1:]
        # helpers extracted inside one of the two closures (or shared private helpers of the package) are looked through
        inl = SB.Inline(ctx.model, g, known=(), depth=2)
        parts[inner] = (g, SB.summary(SB.block(pre), name_map={sp: 'solver'}, inline=inl), SB.summary(SB.block(post), name_map={sp: 'solver'}, inline=inl))
    (g1, pre1, post1), (g2, pre2, post2) = parts['_step'], parts['_solve']
    ctx.stats['terms_compared'] += len(pre1) + len(post1)
    ctx.check(pre1 == pre2, 'AbstractEnsembleSolver._step/_solve#prepare', '%d path summaries of the preparation agree' % len(pre1),
              'step-wise and run-to-completion mode prepare a member differently: %s' % SB.diff(pre1, pre2), g1, g1.node)
    ctx.check(post1 == post2, 'AbstractEnsembleSolver._step/_solve#harvest', '%d path summaries of the harvest agree' % len(post1),
              'step-wise and run-to-completion mode harvest a member differently: %s' % SB.diff(post1, post2), g1, g1.node)


@rule('C07.k', min_instances=5)
def no_object_is_shared_between_runs_through_a_default(ctx):
    """two runs with the same seed and settings in one process are identical only if nothing survives from the first into the second: no function of the solver modules and one-line interfaces (diffev / diffev2 / fmin / fmin_powell / lattice / buckshot / sparsity and the classes behind them) has a default argument that is an object built once at definition time (a Monitor(), a list, a dict) and that it stores, mutates or hands to a solver - an evaluation monitor shared through a default makes the second run start with the first run's evaluation count; positive control on a synthetic wrapper"""
    probe = ast.parse('def diffev(cost, x0, evalmon=Monitor(), **kwds):\n    solver.SetEvaluationMonitor(evalmon)\n').body[0]
    ctx.need(len(escaping_mutable_defaults(probe)) == 1, 'shared-default detector lost its positive control')
    mods = ('mystic.abstract_solver', 'mystic.abstract_map_solver', 'mystic.abstract_ensemble_solver', 'mystic.differential_evolution',
            'mystic.scipy_optimize', 'mystic.ensemble', 'mystic.solvers')
    for mname in mods:
        m = ctx.model.modules[mname]
        found = []
        for q, fi in sorted(m.funcs.items()):
            for pname, how, node in escaping_mutable_defaults(fi.node):
                found.append((fi, pname, how, node))
        for fi, pname, how, node in found:
            ctx.touch(fi)
            ctx.bad('%s#default[%s]' % (fi.qualname, pname), '%s: the default of `%s` is built once when the function is defined and is %s: every call that omits `%s` works on the same object, so a run depends on the runs before it'
                    % (fi.qualname, pname, how, pname), fi, node)
        if not found:
            ctx.ok(mname + '#defaults', '%d functions: no default object is kept, mutated or handed on' % len(m.funcs), next(iter(m.funcs.values())), m.tree)


@rule('C07.l', min_instances=2)
def both_modes_give_members_the_ensembles_objective(ctx):
    """a configured nested solver INSTANCE carries no objective of its own; run-to-completion mode (_Solve) hands such a member the ensemble's decorated objective (cost = self._bootstrap_objective(...); solver.SetObjective(cost, ...) when the member has none).  Step-wise mode must do the same: the objective its _step closure passes to solver.Step is bound from self._bootstrap_objective(...) too - handing on its own `cost` parameter (None when Solve(step=True) drives it) leaves the member without an objective"""
    E = 'mystic.abstract_ensemble_solver:AbstractEnsembleSolver'
    for meth, inner, run in (('_Solve', '_solve', None), ('_Step', '_step', 'Step')):
        f = ctx.func('%s.%s' % (E, meth))
        g = ctx.func('%s.%s.%s' % (E, meth, inner))
        sn = selfname_of(f)
        boot = [s for s in f.node.body if isinstance(s, ast.Assign) and len(s.targets) == 1 and isinstance(s.targets[0], ast.Name)
                and isinstance(s.value, ast.Call) and self_call(s.value, '_bootstrap_objective', sn)]
        used = set(n.id for n in ast.walk(g.node) if isinstance(n, ast.Name) and isinstance(n.ctx, ast.Load))
        params = set(a.arg for a in g.node.args.args)
        bound = [s.targets[0].id for s in boot if s.targets[0].id in used and s.targets[0].id not in params]
        ctx.check(bool(bound), 'AbstractEnsembleSolver.%s.%s#objective' % (meth, inner), 'the objective a member receives is bound from self._bootstrap_objective(...) in %s' % meth,
                  'in %s the members are driven with the method\'s own `cost` argument, not with self._bootstrap_objective(...): a configured nested solver instance (which has no objective of its own) gets None in step-wise mode and raises, while run-to-completion mode works' % meth,
                  f, g.node, statement='member objective not bootstrapped in %s' % meth)


@rule('C07.m', min_instances=1)
def random_seed_sets_both_global_sources(ctx):
    """mystic draws from two global sources - python's random and numpy.random (sampled / multinormal start points, Buckshot / Sparsity members) - and random_seed is the one way to make a run repeatable: for every seed python's random.seed accepts it must leave numpy seeded too, or fail loudly. numpy refuses negative, >= 2**32, float, str and bytes seeds (TypeError / ValueError): a handler that swallows that error and returns leaves numpy's stream unseeded - two runs with the same seed differ. Every handler that covers the numpy seed call re-seeds numpy itself or raises; only a handler for ImportError (numpy absent) may return"""
    f = ctx.func('mystic.tools:random_seed')
    aliases = set()
    for n in ast.walk(f.node):
        if isinstance(n, ast.ImportFrom) and n.module == 'numpy':
            aliases |= set(a.asname or a.name for a in n.names if a.name == 'random')
        if isinstance(n, ast.ImportFrom) and n.module == 'numpy.random':
            aliases |= set(a.asname or a.name for a in n.names if a.name == 'seed')
        if isinstance(n, ast.Import):
            aliases |= set((a.asname or a.name) for a in n.names if a.name in ('numpy', 'numpy.random'))

    def np_seed(c):
        if not isinstance(c, ast.Call):
            return False
        txt = unparse(c.func)
        return (txt.endswith('.seed') and txt.split('.')[0] in aliases and not (txt == 'random.seed' and 'random' not in aliases)) or (txt == 'seed' and 'seed' in aliases)
    seeds = [c for c in ast.walk(f.node) if np_seed(c)]
    # `from numpy import random` rebinds the name random: calls before the import are python's
    imp = [n for n in ast.walk(f.node) if isinstance(n, ast.ImportFrom) and n.module == 'numpy' and any(a.name == 'random' and not a.asname for a in n.names)]
    if imp:
        seeds = [c for c in seeds if (c.lineno, c.col_offset) > (imp[0].lineno, imp[0].col_offset)]
    ctx.need(seeds, 'random_seed: no call seeds numpy.random')
    n = 0
    for t in [x for x in ast.walk(f.node) if isinstance(x, ast.Try)]:
        covered = [c for c in seeds if any(c is y for st in t.body for y in ast.walk(st))]
        if not covered:
            continue
        for h in t.handlers:
            n += 1
            names = set()
            if h.type is not None:
                names = set(x.id for x in ast.walk(h.type) if isinstance(x, ast.Name))
            only_import = bool(names) and names <= {'ImportError', 'ModuleNotFoundError'}
            reseeds = any(np_seed(y) for st in h.body for y in ast.walk(st))
            raises = any(isinstance(y, ast.Raise) for st in h.body for y in ast.walk(st))
            # a replacement seed must be the same in every process: hash() of str / bytes is salted per process, id() and clocks are not reproducible at all
            salted = [y for st in h.body for y in ast.walk(st) if isinstance(y, ast.Call) and np_seed(y)
                      for z in ast.walk(y) if isinstance(z, ast.Call) and callee_text(z).split('.')[-1] in ('hash', 'id', 'time', 'urandom', 'getpid', 'time_ns', 'perf_counter')]
            ctx.check(not salted, 'random_seed#replacement@%s' % (unparse(h.type) if h.type is not None else 'bare'), 'the replacement seed is reproducible across processes',
                      'random_seed derives the replacement seed for numpy with hash() / id() / a clock: hash() of a str or bytes seed is salted per process (PYTHONHASHSEED), so the same seed gives different '
                      'sampled start points in two runs of the same script', f, h)
            ctx.check(only_import or reseeds or raises, 'random_seed#handler@%s' % (unparse(h.type) if h.type is not None else 'bare'), 'a refused numpy seed is replaced or reported',
                      'random_seed swallows the error numpy.random.seed raises for a seed it does not accept (negative, >= 2**32, float, str, bytes - all legal for random.seed) and returns normally: '
                      'python\'s stream is seeded, numpy\'s is not, and two runs with the same seed draw different start points', f, h)
    if n == 0:
        ctx.ok('random_seed#unguarded', 'numpy.random.seed is called outside any handler: a refused seed is reported to the caller', f, seeds[0])


@rule('C07.n', min_instances=3)
def map_results_are_materialised(ctx):
    """SetMapper accepts any map with the signature of the builtin - mystic.pools.SerialPool().map and the builtin itself return ITERATORS, pool maps return lists. Siblings must agree: the ensemble solvers wrap the result of self._map(...) in list(...) before they look at it; every other user of self._map does the same (or only iterates over it once) - a result that is indexed, measured with len() or traversed twice as it comes back works with a list-returning map and raises TypeError / sees nothing with an iterator-returning one, so the outcome would depend on the map supplied"""
    n = 0
    for mname, m in sorted(ctx.model.modules.items()):
        if mname.startswith('mystic.tests'):
            continue
        for q, fi in sorted(m.funcs.items()):
            sn = selfname_of(fi) if fi.cls else None
            if not sn:
                continue
            for c in calls_where(fi.node, lambda c: self_call(c, '_map', sn), include_lambda=False):
                n += 1
                ctx.touch(fi)
                par = parent(c)
                wrapped = isinstance(par, ast.Call) and isinstance(par.func, ast.Name) and par.func.id in ('list', 'tuple', 'asarray', 'array') and par.args and par.args[0] is c
                if wrapped:
                    ctx.ok('%s#_map-result' % fi.qualname, 'result of self._map materialised with %s(...)' % par.func.id, fi, c)
                    continue
                st = enclosing_stmt(c)
                name = st.targets[0].id if isinstance(st, ast.Assign) and len(st.targets) == 1 and isinstance(st.targets[0], ast.Name) and st.value is c else None
                if name is None:
                    it_only = isinstance(par, (ast.For, ast.comprehension)) and par.iter is c
                    ctx.need(it_only, '%s: cannot tell how the result of self._map is used (%s)' % (fi.qualname, unparse(st)[:60]))
                    ctx.ok('%s#_map-result' % fi.qualname, 'result of self._map only iterated once', fi, c)
                    continue
                uses = [u for u in ast.walk(fi.node) if isinstance(u, ast.Name) and u.id == name and isinstance(u.ctx, ast.Load) and (u.lineno, u.col_offset) > (c.lineno, c.col_offset)]
                uses.sort(key=lambda u: (u.lineno, u.col_offset))
                if uses:      # `name = list(name)` right after the call materialises it just as well
                    pu = parent(uses[0])
                    st2 = enclosing_stmt(uses[0])
                    if isinstance(pu, ast.Call) and isinstance(pu.func, ast.Name) and pu.func.id in ('list', 'tuple', 'asarray', 'array') and isinstance(st2, ast.Assign) and st2.value is pu \
                            and len(st2.targets) == 1 and isinstance(st2.targets[0], ast.Name) and st2.targets[0].id == name:
                        ctx.ok('%s#_map-result' % fi.qualname, 'result of self._map materialised with %s(...) before any other use' % pu.func.id, fi, c)
                        continue
                random_access = [u for u in uses if (isinstance(parent(u), ast.Subscript) and parent(u).value is u) or
                                 (isinstance(parent(u), ast.Call) and isinstance(parent(u).func, ast.Name) and parent(u).func.id == 'len')]
                ctx.check(not random_access and len(uses) <= 1, '%s#_map-result' % fi.qualname, 'result of self._map is materialised before it is indexed',
                          '%s binds %s to the raw result of self._map and then indexes / measures it (%d uses): with a map that returns an iterator (builtin map, mystic.pools.SerialPool().map) the step raises TypeError, '
                          'with a list-returning map it works - the run depends on the map supplied' % (fi.qualname, name, len(uses)), fi, st)
    ctx.need(n >= 3, 'expected >= 3 uses of self._map, found %d' % n)


def stores_into_arguments(methods):
    """[(method, parameter, attribute, node)]: `<param>.<attr> = ...` (or augmented) where <param> is a parameter of the method other than
    self and has not been re-bound to a fresh object inside the method"""
    out = []
    for m in methods:
        sn = selfname_of(m)
        params = [a for a in m.args() if a != sn]
        rebound = set(t_.id for st in stmts_of(m.node) if isinstance(st, ast.Assign) for t_ in st.targets if isinstance(t_, ast.Name))
        for n in walk_no_nested(m.node):
            if isinstance(n, ast.Attribute) and isinstance(n.ctx, ast.Store) and isinstance(n.value, ast.Name) and n.value.id in params and n.value.id not in rebound:
                out.append((m, n.value.id, n.attr, n))
    return out


@rule('C07.o', min_instances=20)
def configuration_is_kept_on_the_solver_not_on_its_arguments(ctx):
    """a configuration method stores what it is given ON THE SOLVER: it never writes attributes of an object handed to it - in particular not of a solver CLASS (SetNestedSolver(cls, NP=n) used to set cls.NP: every later ensemble in the process, configured or not, then built members with that population size, and the setting was not part of a checkpoint because it did not live on the instance). All Set* methods of the solver hierarchy are scanned; positive control on a synthetic method"""
    import types
    probe = ast.parse('class E(object):\n    def SetNestedSolver(self, solver, **kwds):\n        self._solver = solver\n        solver.NP = kwds["NP"]\n')
    for n in ast.walk(probe):
        for c in ast.iter_child_nodes(n):
            c._parent = n
    fm = types.SimpleNamespace(node=probe.body[0].body[0], qualname='E.SetNestedSolver', args=lambda: ['self', 'solver'], cls=True, parent=None)
    ctx.need(len(stores_into_arguments([fm])) == 1, 'argument-store detector lost its positive control')
    from .c04 import AS
    classes = [ctx.cls(AS)] + list(ctx.model.subclasses(ctx.cls(AS), strict=True))
    methods = [m for k in classes for name, m in sorted(k.methods.items()) if name.startswith('Set')]
    found = stores_into_arguments(methods)
    for m in methods:
        ctx.touch(m)
    for m, p, a, node in found:
        ctx.bad('%s#%s.%s' % (m.qualname, p, a), '%s writes the attribute %s of its argument %s: the setting lands on an object the solver does not own (a solver class is shared by every ensemble of the process) '
                'instead of on the solver itself - later solvers inherit it and checkpoints lose it' % (m.qualname, a, p), m, enclosing_stmt(node))
    flagged = set(id(m) for m, _, _, _ in found)
    for m in methods:
        if id(m) not in flagged:
            ctx.ok('%s#arguments-untouched' % m.qualname, 'stores only into the solver', m, m.node)


@rule('C07.p', min_instances=1)
def step_checks_termination_before_every_step_but_the_first(ctx):
    """Step tests the termination condition before stepping whenever the initial evaluation has been made - i.e. whenever the step monitor is non-empty, also when it holds the initial record only: a solver that met its stop condition at generation 0 must not take an iteration when Step is called again (in step mode the ensemble calls Step on every member each round; run-to-completion never steps such a member - the two modes would differ). The guard of the pre-step check is evaluated for monitor lengths 0..3 with `generations` read as max(0, len-1): it has to be true exactly for len >= 1"""
    f = ctx.func(AS + '.Step')
    sn = selfname_of(f)
    pre = None
    steps = calls_where(f.node, lambda c: self_call(c, '_Step', sn), include_lambda=False)
    ctx.need(steps, 'Step: no _Step call')
    for n in walk_no_nested(f.node):
        if isinstance(n, ast.If) and n.lineno < steps[0].lineno and not any(x is steps[0] for x in ast.walk(n)) and \
                calls_where(ast.Module(body=n.body, type_ignores=[]), lambda c: self_call(c, 'Terminated', sn), include_lambda=False):
            pre = n
            break
    ctx.need(pre is not None, 'Step: the pre-step termination check is not found')
    src = unparse(pre.test)
    expr = src.replace('len(%s._stepmon)' % sn, 'L').replace('%s.generations' % sn, 'max(0, L - 1)')
    try:
        vals = [bool(eval(compile(ast.parse(expr, mode='eval'), '<guard>', 'eval'), {'__builtins__': {}}, {'L': L, 'max': max, 'len': len, 'bool': bool})) for L in range(4)]
    except Exception as ex:
        raise AnalysisError('Step: cannot evaluate the guard of the pre-step check (%s): %s' % (src, ex))
    ctx.check(vals == [False, True, True, True], 'AbstractSolver.Step#pre-check-guard', 'termination is checked before stepping for every non-empty step monitor (guard: %s)' % src,
              'Step skips the pre-step termination check under `%s` (true for monitor lengths %s): with only the initial record logged a solver that already stopped at generation 0 takes a further iteration '
              'when stepped again - step-wise and run-to-completion ensembles then differ' % (src, [L for L, v in enumerate(vals) if v]), f, pre)


@rule('C07.q', min_instances=1)
def redecoration_draws_only_for_members_outside_the_box(ctx):
    """the objective is re-decorated whenever a setting changes, a cost is handed to Step again, or a stopped solver is continued - none of which may change the trajectory of a run whose members all lie inside the strict ranges: _clipGuessWithinRangeBoundary(at=False) (called for every member on re-decoration) draws from the global random source only on paths that have established that some coordinate was clipped; an unconditional draw makes `Step(cost)` x n differ from `SetObjective(cost); Step()` x n for the same seed"""
    f = ctx.func(AS + '._clipGuessWithinRangeBoundary')
    x0 = f.args()[1]

    def is_draw(n):
        return isinstance(n, ast.Call) and callee_text(n).split('.')[0] in ('random', 'rng', 'numpy') and callee_text(n).split('.')[-1] in ('uniform', 'random', 'rand', 'randn', 'normal', 'choice', 'randint')
    draws = [c for c in walk_no_nested(f.node) if is_draw(c)]
    ctx.need(draws, '_clipGuessWithinRangeBoundary: no random draw found (how are out-of-box coordinates replaced?)')
    paths = [p for p in enumerate_paths(f.node, relevant=lambda n: is_draw(n) or isinstance(n, ast.Return), unroll=(0, 1)) if p.exit != 'raise']
    ctx.stats['paths_enumerated'] += len(paths)
    bad = None
    n = 0
    for p in paths:
        established = False
        for e in p.events:
            if e[0] == 'cond':
                cmp_ = [c for c in ast.walk(e[1]) if isinstance(c, ast.Compare) and any(isinstance(x, ast.Name) and x.id == x0 for x in ast.walk(c))]
                anyc = [c for c in ast.walk(e[1]) if isinstance(c, ast.Call) and isinstance(c.func, ast.Attribute) and c.func.attr in ('any', 'all')]
                if cmp_ or anyc:
                    established = True
            elif e[0] in ('stmt', 'partial') and any(is_draw(c) for c in ast.walk(e[1])):
                n += 1
                if not established:
                    bad = p
    ctx.need(n >= 1, '_clipGuessWithinRangeBoundary: no path reaches the draw')
    ctx.check(bad is None, '_clipGuessWithinRangeBoundary#draw-only-when-clipped', 'random numbers are drawn only after a test that some coordinate was clipped',
              '_clipGuessWithinRangeBoundary draws from the global random source on a path that has not tested whether anything was clipped (%s): every re-decoration of the objective with strict ranges consumes '
              'random numbers, so the trajectory depends on how often the objective was (re)registered' % (bad.describe(5) if bad else ''), f, draws[0])


@rule('C07.r', min_instances=1)
def a_sampler_sets_its_nested_solver_once(ctx):
    """SetNestedSolver replaces the nested solver AND its population size (NP is kept on the ensemble since repair 3fcd340): the samplers call it exactly once on every path - a second, bare call after the one that carried NP would clear the NP the user gave"""
    f = ctx.func('mystic.abstract_sampler:AbstractSampler._reset_sampler') if 'AbstractSampler._reset_sampler' in ctx.model.modules['mystic.abstract_sampler'].funcs else None
    cands = [fi for q, fi in sorted(ctx.model.modules['mystic.abstract_sampler'].funcs.items())
             if calls_where(fi.node, lambda c: isinstance(c.func, ast.Attribute) and c.func.attr == 'SetNestedSolver', include_lambda=False)]
    ctx.need(cands, 'abstract_sampler: no SetNestedSolver call found')
    for fi in cands:
        ctx.touch(fi)
        paths = [p for p in enumerate_paths(fi.node, relevant=lambda n: isinstance(n, ast.Call) and isinstance(n.func, ast.Attribute) and n.func.attr == 'SetNestedSolver', unroll=(0, 1)) if p.exit != 'raise']
        ctx.stats['paths_enumerated'] += len(paths)
        worst = 0
        for p in paths:
            k_ = sum(len(calls_where(e[1], lambda c: isinstance(c.func, ast.Attribute) and c.func.attr == 'SetNestedSolver', include_lambda=False)) for e in p.events if e[0] in ('stmt', 'partial'))
            worst = max(worst, k_)
        ctx.check(worst <= 1, '%s#SetNestedSolver' % fi.qualname, 'at most one SetNestedSolver call per path',
                  '%s calls SetNestedSolver %d times on one path: the later call (without NP) resets the population size given with the earlier one, so the sampler ignores its NP keyword' % (fi.qualname, worst), fi, fi.node)
