"""C09 - ensemble solvers return the best member and account for all work.

Decided: the reduction scans every member slot and hands back all reported
state from one and the same best member; totals are sums over all members; the
member count is nbins / prod(nbins) / npts and every empty slot is filled with
its own deep copy and id; every ensemble-level setting is pushed into the member
prototype on every path that returns one (exhaustiveness), and ranges are
re-imposed after SetInitialPoints; lattice starting points are cell centres,
buckshot/sparsity pass (lower, upper, npts); sampled points are an affine image
of the unit cube / pass through clip; the three wrappers agree.
Round 3: __update_state hands back on every path on which the scan found a
member.
Round 4: grid.randomly_bin and its nested factors keep their confirmed
definitions (bins multiply to N, primes included).
Round 6: the settings an ensemble pushes into its members are stored on every
path of their setters (a setting can always be cleared); starting points are
drawn once.
NOT decided: that gridpts enumerates the full Cartesian product, that fillpts
stays in range (it runs an optimiser), step-vs-solve equality, real-call counts.
"""
import ast

from ..core import rule
from ..srcmodel import AnalysisError, walk_no_nested, unparse, norm_stmt
from ..paths import enumerate_paths
from ..callgraph import attr_writes
from .. import terms as T
from .. import siblings as SB
from .common import *

E = 'mystic.abstract_ensemble_solver:AbstractEnsembleSolver'


def mangled_name(cls, attr):
    return '_%s%s' % (cls.lstrip('_'), attr) if attr.startswith('__') and not attr.endswith('__') else attr


def best_member_scan(ctx):
    """path-based facts about AbstractEnsembleSolver.__update_bestSolver (used by C09.a and C07.d):
    returns dict(f, loop, stores=[(path, member term, literals, node)], skip_ok, iter_ok)"""
    f = ctx.func(E + '.__update_bestSolver')
    sn = selfname_of(f)
    S = ('name', sn)
    loops = [n for n in walk_no_nested(f.node) if isinstance(n, ast.For)]
    if not loops:
        raise AnalysisError('no scan loop in __update_bestSolver')
    lp = loops[0]
    it = T.term(lp.iter)
    alls = ('attr', S, '_allSolvers')
    iter_ok = it in (alls, ('sub', alls, ('slice', None, None, None)))
    BEST = ('attr', S, '_bestSolver')

    def rel(n):
        return isinstance(n, (ast.Assign, ast.AugAssign, ast.Continue, ast.Break, ast.Return))
    paths = [p for p in enumerate_paths(f.node, relevant=rel, unroll=(0, 1)) if p.exit != 'raise']
    ctx.stats['paths_enumerated'] += len(paths)
    stores = []
    seen = set()
    for p in paths:
        b = T.Builder()
        lits = []
        member = None
        for e in p.events:
            if e[0] == 'iter' and e[1] is lp:
                for n in ast.walk(lp.target):
                    if isinstance(n, ast.Name):
                        b.env.pop(n.id, None)
                member = ('name', lp.target.id) if isinstance(lp.target, ast.Name) else None
                lits = []
            elif e[0] == 'cond':
                c, tr = T.simp(b.t(e[1])), e[2]
                while isinstance(c, tuple) and c and c[0] == 'not':
                    c, tr = c[1], not tr
                if c[0] == 'cmp' and c[1] == 'isnot':
                    c, tr = ('cmp', 'is') + c[2:], not tr
                lits.append((c, tr))
            elif e[0] == 'stmt':
                st = e[1]
                if isinstance(st, ast.Assign) and any(T.term(tg) == BEST for tg in st.targets) and member is not None:
                    k = (id(st), tuple(lits))
                    if k not in seen:
                        seen.add(k)
                        stores.append((p, T.simp(b.t(st.value)), list(lits), st, member))
                    continue
                if isinstance(st, ast.Assign) and all(isinstance(tg, ast.Name) for tg in st.targets):
                    b.exec_stmt(st)
    return {'f': f, 'loop': lp, 'stores': stores, 'iter_ok': iter_ok, 'iter': it, 'sn': sn}


def incumbent_term(sn):
    S = ('name', sn)
    return ('call', ('name', 'getattr'), (('attr', S, '_bestSolver'), ('const', 'bestEnergy'), ('attr', S, 'bestEnergy')), ())


@rule('C09.a', min_instances=3)
def reduction(ctx):
    """__update_bestSolver scans all slots and keeps a member only if its best energy is <= the incumbent's; __update_state copies every reported attribute from the one best member, attribute for attribute"""
    r = best_member_scan(ctx)
    f, lp, sn = r['f'], r['loop'], r['sn']
    ctx.check(r['iter_ok'], '__update_bestSolver#scan', 'scans every member slot',
              'the best-member scan iterates over %s, not over all members' % T.show(r['iter']), f, lp)
    ctx.need(r['stores'], 'no path of __update_bestSolver replaces the best member')
    inc = incumbent_term(sn)
    for p, val, lits, node, member in r['stores']:
        want_le = T.mk_cmp('<=', ('attr', member, 'bestEnergy'), inc)
        want_lt = T.mk_cmp('<', ('attr', member, 'bestEnergy'), inc)
        known = (want_le, True) in lits or (want_lt, True) in lits
        ctx.check(val == member and known, '__update_bestSolver#keep', 'member kept only where member.bestEnergy <= incumbent best energy is known',
                  'the reduction keeps %s under %s' % (T.show(val)[:40], [(T.show(c)[:50], tr) for c, tr in lits][:3]), f, node)
        # members are skipped only when the slot is empty: every literal on the way is the emptiness test or the energy test
        others = [(c, tr) for c, tr in lits if c not in (want_le, want_lt)]
        ok_skip = all(c == ('cmp', 'is', member, ('const', None)) and tr is False for c, tr in others)
        ctx.check(ok_skip, '__update_bestSolver#skip', 'only empty slots are skipped',
                  'members are skipped under `%s`' % [(T.show(c)[:60], tr) for c, tr in others][:2], f, node)
    g = ctx.func(E + '.__update_state')
    sn = selfname_of(g)
    S = ('name', sn)
    BEST = ('attr', S, '_bestSolver')
    need = {'population', 'popEnergy', 'bestSolution', 'bestEnergy', '_fcalls'}
    # straight-line substitution: `best = self._bestSolver; self.population = best.population` is the same hand-back
    bld = T.Builder()
    seen = set()
    mons = {}
    scan_names = None
    for st in stmts_of(g.node):
        if isinstance(st, ast.Assign) and len(st.targets) == 1 and is_self_attr(st.targets[0], None, sn):
            a = st.targets[0].attr
            v = T.simp(bld.t(st.value))
            if a in ('_stepmon', '_evalmon'):
                mons[a] = v
            elif v[0] == 'attr' and v[1] == BEST:
                seen.add(a)
                ctx.check(v[2] == a, '__update_state#' + a, 'self.%s = self._bestSolver.%s' % (a, a),
                          'the ensemble reports %s taken from the best member\'s %s' % (a, v[2]), g, st)
            elif a in need:
                ctx.bad('__update_state#' + a, 'the ensemble reports %s from %s, not from the best member' % (a, T.show(v)[:60]), g, st)
                seen.add(a)
        elif isinstance(st, ast.Assign):
            bld.exec_stmt(st)
    ctx.check(need <= seen, '__update_state#complete', 'hands back %s' % sorted(need), '__update_state no longer hands back %s' % sorted(need - seen), g, g.node)
    scan = ('call', ('attr', S, mangled_name('AbstractEnsembleSolver', '__update_bestSolver')), (), ())
    ok_m = mons.get('_stepmon') == ('sub', scan, T.num(0)) and mons.get('_evalmon') == ('sub', scan, T.num(1))
    ctx.check(ok_m, '__update_state#monitors', 'monitors are the two results of the best-member scan, in order (step, evaluation)',
              'monitors handed back as %s' % {k: T.show(v)[:50] for k, v in mons.items()}, g, g.node)
    # every path hands back, except the one on which the scan found nothing (both results None): a "nothing changed" shortcut
    # would keep a stale bestEnergy while the member that stays best goes on improving (the arrays are shared, the scalar is not)
    def relh(n):
        return isinstance(n, ast.Assign)
    hp = [p for p in enumerate_paths(g.node, relevant=relh, unroll=(0, 1)) if p.exit != 'raise']
    ctx.stats['paths_enumerated'] += len(hp)
    badp = None
    for p in hp:
        b2 = T.Builder()
        handed = set()
        nothing = False
        for e in p.events:
            if e[0] == 'cond':
                c = T.simp(b2.t(e[1]))
                parts = list(c[1:]) if c[0] == 'and' else [c]
                isnone = [x for x in parts if x[0] == 'cmp' and x[1] == 'is' and ('const', None) in x[2:] and any(y in x[2:] for y in (('sub', scan, T.num(0)), ('sub', scan, T.num(1))))]
                if e[2] and isnone:
                    nothing = True
            elif e[0] == 'stmt' and isinstance(e[1], ast.Assign):
                st = e[1]
                if len(st.targets) == 1 and is_self_attr(st.targets[0], None, sn):
                    handed.add(st.targets[0].attr)
                else:
                    b2.exec_stmt(st)
        if not (need <= handed) and not nothing:
            badp = p
    ctx.check(badp is None, '__update_state#always', 'every path hands the best member\'s state back unless the scan found no member (%d paths)' % len(hp),
              '__update_state returns without handing back %s on path %s although a best member was found: bestEnergy goes stale while that member keeps improving'
              % (sorted(need), badp.describe(5) if badp else ''), g, badp.exit_node if badp is not None and badp.exit_node is not None else g.node)
    # the scan returns (step monitor, evaluation monitor) of the member it kept
    h = r['f']
    rts = return_terms(h.node)
    ctx.need(rts, '__update_bestSolver: no return value')
    okr = True
    for p, term, b, conds in rts:
        elems = flatten_seq(term)
        if not elems or len(elems) != 2:
            okr = False
            continue
        for e_, attr in zip(elems, ('_stepmon', '_evalmon')):
            if e_ == ('const', None):
                continue
            if not (e_[0] == 'attr' and e_[2] == attr and e_[1][0] in ('name', 'elem')):
                okr = False
    ctx.check(okr, '__update_bestSolver#monitors', 'returns (member._stepmon, member._evalmon) of the kept member (or None, None)',
              'bestpath/besteval no longer come from the kept member', h, h.node)


@rule('C09.b', min_instances=4)
def accounting(ctx):
    """_total_evals = sum over all members of member.evaluations (likewise iterations), wired as properties"""
    c = ctx.cls(E)
    for total, each, attr in (('_total_evals', '_all_evals', 'evaluations'), ('_total_iters', '_all_iters', 'generations')):
        pt = ctx.model.lookup_prop(c, total)
        pe = ctx.model.lookup_prop(c, each)
        ctx.need(pt and pt[0] and pe and pe[0], 'properties %s/%s vanished' % (total, each))
        ft, fe = ctx.touch(pt[0]), ctx.touch(pe[0])
        sn = selfname_of(ft)
        r = [s for s in ft.node.body if isinstance(s, ast.Return)]
        ctx.check(bool(r) and ''.join(unparse(r[0].value).split()) == 'sum(%s.%s)' % (sn, each), total, 'sum(self.%s)' % each,
                  '%s is %s' % (total, unparse(r[0].value) if r else None), ft, ft.node)
        sn = selfname_of(fe)
        r = [s for s in fe.node.body if isinstance(s, ast.Return)]
        want = "[getattr(i,'%s',0)foriin%s._allSolvers]" % (attr, sn)
        ctx.check(bool(r) and ''.join(unparse(r[0].value).split()) == want, each, 'every member\'s %s (0 for an empty slot)' % attr,
                  '%s is %s' % (each, unparse(r[0].value) if r else None), fe, fe.node)


@rule('C09.c', min_instances=4)
def member_count(ctx):
    """_npts is nbins (int) / prod(nbins) (sequence) / npts; _allSolvers has _npts slots; every empty slot gets its own deep copy and id"""
    f = ctx.func(E + '.__init__')
    sn = selfname_of(f)
    b = T.Builder()
    stores = [s for s in stmts_of(f.node) if isinstance(s, ast.Assign) and is_self_attr(s.targets[0], '_npts', sn)]
    ctx.need(len(stores) >= 3, 'expected 3 stores to _npts in the ensemble __init__, found %d' % len(stores))
    kinds = {}
    for s_ in stores:
        gs = guards_of(s_, stop=f.node)
        v = ''.join(unparse(s_.value).split())
        if not gs:
            kinds['default'] = v
        else:
            tests = [(''.join(unparse(g[0]).split()), g[1]) for g in gs]
            if ('isinstance(nbins,Integral)', True) in tests:
                kinds['int'] = v
            elif ('isinstance(nbins,Integral)', False) in tests and ('nbinsisNone', False) in tests:
                kinds['seq'] = v
            else:
                kinds['?' + str(tests)] = v
    good = kinds.get('default') == 'npts' and kinds.get('int') == 'nbins' and kinds.get('seq') == 'reduce(lambdai,j:i*j,nbins)' and len(kinds) == 3
    ctx.check(good, 'AbstractEnsembleSolver.__init__#npts', 'npts | nbins | prod(nbins)', 'member count is computed as %s' % kinds, f, stores[0])
    slots = [s for s in stmts_of(f.node) if isinstance(s, ast.Assign) and is_self_attr(s.targets[0], '_allSolvers', sn)]
    ctx.check(bool(slots) and ''.join(unparse(slots[0].value).split()) == '[Noneforjinrange(%s._npts)]' % sn and slots[0].lineno > max(s.lineno for s in stores),
              'AbstractEnsembleSolver.__init__#slots', '_npts empty slots, allocated after _npts is final', 'slots allocated as %s' % (unparse(slots[0].value) if slots else None), f, slots[0] if slots else f.node)
    g = ctx.func(E + '.__init_allSolvers')
    sn = selfname_of(g)
    # behavioural summary against the reference form (renamed locals, guard-by-continue, `x if x else 0` vs `x or 0` are absorbed)
    ref = '''def __init_allSolvers(self, reset=False):
    solver = self._AbstractEnsembleSolver__get_solver_instance(reset)
    from copy import deepcopy as _copy
    at = self.id if self.id else 0
    for i,op in enumerate(self._allSolvers):
        if op is None:
            op = _copy(solver)
            op.id = i + at
            self._allSolvers[i] = op
    return self._allSolvers
'''.replace('self', sn)
    got, want = SB.agree(g.node, ref)
    ctx.stats['terms_compared'] += len(got)
    ctx.check(got == want, '__init_allSolvers', 'every empty slot i gets its own _copy(prototype) with id i + offset; filled slots are left alone',
              'member creation changed: %s' % SB.diff(got, want), g, g.node)
    imp = [n for n in walk_no_nested(g.node) if isinstance(n, ast.ImportFrom) and n.module == 'copy']
    ctx.check(any(a.name == 'deepcopy' and a.asname == '_copy' for n in imp for a in n.names), '__init_allSolvers#deepcopy', '_copy is copy.deepcopy',
              'members are no longer deep copies of the prototype', g, imp[0] if imp else g.node)


REQUIRED_SETTERS = {
    'SetStrictRanges': ('_useStrictRange', {'min': '_strictMin', 'max': '_strictMax', 'tight': '_useTightRange', 'clip': '_useClipRange'}),
    'SetEvaluationMonitor': (None, None), 'SetGenerationMonitor': (None, None),
    'SetEvaluationLimits': (None, ['_maxiter', '_maxfun']),
    'SetTermination': (None, ['_termination']),
    'SetConstraints': (None, ['_constraints']),
    'SetPenalty': (None, ['_penalty']),
    'SetReducer': ('_reducer', ['_reducer']),
    'SetObjective': (None, None),
    'SetSaveFrequency': (None, ['_saveiter', '_state']),
}


@rule('C09.d', min_instances=3)
def configuration_propagation(ctx):
    """every path of __get_solver_instance that returns a member prototype has pushed every ensemble-level setting into it; _step/_solve re-impose the ranges after SetInitialPoints"""
    f = ctx.func(E + '.__get_solver_instance')
    sn = selfname_of(f)

    def rel(n):
        return isinstance(n, ast.Return) or (isinstance(n, ast.Call) and isinstance(n.func, ast.Attribute) and n.func.attr.startswith('Set'))
    paths = [p for p in enumerate_paths(f.node, relevant=rel, unroll=(0, 1)) if p.exit == 'return']
    ctx.stats['paths_enumerated'] += len(paths)
    ctx.need(paths, 'no returning path in __get_solver_instance')
    groups = {}
    for p in paths:
        calls = {}
        conds = {}
        for e in p.events:
            if e[0] == 'cond':
                conds[''.join(unparse(e[1]).split())] = e[2]
            elif e[0] == 'stmt':
                for c in calls_where(e[1], lambda c: isinstance(c.func, ast.Attribute) and isinstance(c.func.value, ast.Name)
                                     and c.func.value.id == 'solver' and c.func.attr.startswith('Set'), include_lambda=False):
                    calls[c.func.attr] = c
        missing = []
        crossed = []
        for name, (guard, args) in REQUIRED_SETTERS.items():
            gkey = '%s.%s' % (sn, guard) if guard else None
            if gkey and conds.get(gkey) is False:
                continue
            if name not in calls:
                missing.append(name)
                continue
            c = calls[name]
            if isinstance(args, dict):
                for kw, attr in args.items():
                    v = kwarg(c, kw)
                    if v is None or not is_self_attr(v, attr, sn):
                        crossed.append('%s(%s=%s)' % (name, kw, unparse(v) if v is not None else 'missing'))
            elif isinstance(args, list):
                got = [a.attr if is_self_attr(a, None, sn) else unparse(a) for a in c.args[:len(args)]]
                if got != args:
                    crossed.append('%s(%s)' % (name, ', '.join(got)))
        is_instance_path = conds.get('isinstance(solver,AbstractSolver)') is True
        key = ('configured-instance' if is_instance_path else 'class', tuple(missing), tuple(crossed))
        groups.setdefault(key, p)
    for (kind, missing, crossed), p in groups.items():
        construct = 'AbstractEnsembleSolver.__get_solver_instance#' + kind
        if missing or crossed:
            what = []
            if missing:
                what.append('without pushing %s' % ', '.join(missing))
            if crossed:
                what.append('with crossed arguments %s' % ', '.join(crossed))
            ctx.bad(construct, 'a member prototype is returned %s into it: members then ignore those ensemble settings (path %s)' % (
                ' and '.join(what), p.describe(5)), f, p.exit_node,
                statement=('returns the configured instance unchanged' if kind == 'configured-instance' and len(missing) >= 8
                           else '%s missing=%s crossed=%s' % (kind, list(missing), list(crossed))))
        else:
            ctx.ok(construct, 'all ensemble settings pushed into the prototype', f, p.exit_node)
    # _step / _solve
    for meth, inner in (('_Step', '_step'), ('_Solve', '_solve')):
        g = ctx.func('%s.%s.%s' % (E, meth, inner))
        ifs = [n for n in g.node.body if isinstance(n, ast.If) and ''.join(unparse(n.test).split()) == 'x0isnotNone']
        ctx.need(ifs, '%s: `if x0 is not None` not found' % inner)
        body = ifs[0].body
        src = ''.join(unparse(ast.Module(body=body, type_ignores=[])).split())
        good = src.startswith('solver.SetInitialPoints(x0)') and 'ifsolver._useStrictRange:solver.SetStrictRanges(solver._strictMin,solver._strictMax,tight=solver._useTightRange,' in src
        ctx.check(good, 'AbstractEnsembleSolver.%s.%s#ranges' % (meth, inner), 'SetInitialPoints(x0) then ranges re-imposed (min,max uncrossed)',
                  'a member started from x0 no longer has the strict ranges re-imposed: %s' % src[:140], g, ifs[0])


@rule('C09.e', min_instances=7)
def starting_points(ctx):
    """lattice: bin j of axis i is lower + (j+1/2)(upper-lower)/nbins[i] (cell centre), bounds from the strict ranges when set; buckshot/sparsity pass (lower, upper, npts); samples are affine images of the unit cube / pass through clip"""
    for cname in ('LatticeSolver', 'BuckshotSolver', 'SparsitySolver'):
        f = ctx.func('mystic.ensemble:%s._InitialPoints' % cname)
        sn = selfname_of(f)
        for var, strict, dflt in (('upper', '_strictMax', '_defaultMax'), ('lower', '_strictMin', '_defaultMin')):
            asg = [s for s in stmts_of(f.node) if isinstance(s, ast.Assign) and isinstance(s.targets[0], ast.Name) and s.targets[0].id == var]
            vals = {}
            for s_ in asg:
                gs = guards_of(s_, stop=f.node)
                key = (''.join(unparse(gs[0][0]).split()), gs[0][1]) if gs else None
                vals[key] = ''.join(unparse(s_.value).split())
            good = vals == {('len(%s.%s)' % (sn, strict), True): 'list(%s.%s)' % (sn, strict), ('len(%s.%s)' % (sn, strict), False): 'list(%s.%s)' % (sn, dflt)}
            ctx.check(good, '%s._InitialPoints#%s' % (cname, var), '%s = strict range when set, else default' % var,
                      '%s bound of the starting region is chosen as %s' % (var, vals), f, asg[0] if asg else f.node)
    f = ctx.func('mystic.ensemble:LatticeSolver._InitialPoints')
    # an integer bin count is factored EXACTLY (prod(bins) == number of member slots allocated from the same integer)
    rb = calls_where(f.node, lambda c: callee_text(c) == 'randomly_bin')
    ctx.need(rb, 'lattice: randomly_bin call not found')
    gs = guards_of(enclosing_stmt(rb[0]), stop=f.node)
    a = rb[0]
    exact = kwarg(a, 'exact', 3)
    ok_rb = [unparse(x) for x in a.args[:2]] == ['nbins', 'self.nDim'] and (exact is None or const_value(exact) is True) and \
        any(''.join(unparse(g[0]).split()) == 'isinstance(nbins,Integral)' and g[1] for g in gs)
    ctx.check(ok_rb, 'LatticeSolver._InitialPoints#exact-bins', 'integer nbins -> randomly_bin(nbins, nDim, exact=True): prod(bins) == nbins == number of members',
              'an integer bin count is factored as %s: the grid no longer has as many cells as members were allocated (primes lose a member)' % unparse(a), f, a)
    nb = [s_ for s_ in f.node.body if isinstance(s_, ast.Assign) and isinstance(s_.targets[0], ast.Name) and s_.targets[0].id == 'nbins']
    ctx.check(bool(nb) and ''.join(unparse(nb[0].value).split()) == 'self._nbinsorself._npts', 'LatticeSolver._InitialPoints#nbins', 'bins = the requested nbins (else npts)',
              'lattice bins come from %s' % (unparse(nb[0].value) if nb else None), f, nb[0] if nb else f.node)
    rbf = ctx.func('mystic.math.grid:randomly_bin')
    inexact = [n_ for n_ in rbf.node.body if isinstance(n_, ast.If) and 'exact' in unparse(n_.test)]
    ctx.check(bool(inexact) and all(t(n_.test)[0] == 'and' and ('not', ('name', 'exact')) in t(n_.test)[1:] for n_ in inexact), 'randomly_bin#exact',
              'N-1 is factored only when exact is False', 'randomly_bin departs from prod(bins) == N although exact is requested', rbf, inexact[0] if inexact else rbf.node)
    prod_ = [s_ for s_ in rbf.node.body if isinstance(s_, ast.Assign) and 'product(result[i::dim])' in ''.join(unparse(s_.value).split())]
    ctx.check(bool(prod_), 'randomly_bin#product', 'bins are products of the prime factors of N dealt round-robin (so prod(bins) == N)',
              'randomly_bin no longer builds its bins as products of the factors of N', rbf, prod_[0] if prod_ else rbf.node)
    loops = [n for n in f.node.body if isinstance(n, ast.For)]
    ctx.need(loops, 'lattice: bin loop not found')
    lp = loops[0]
    b = T.Builder()
    app = None
    for st in lp.body:
        if isinstance(st, ast.Assign):
            b.exec_stmt(st)
        elif isinstance(st, ast.Expr) and isinstance(st.value, ast.Call) and callee_text(st.value) == 'bins.append':
            app = st.value
    ctx.need(app is not None and isinstance(app.args[0], ast.ListComp), 'lattice: bins.append([...]) not found')
    lc = app.args[0]
    elt = T.simp(b.t(lc.elt))
    i = lp.target.id
    want = T.term(ast.parse('lower[{i}] + (j + 0.5) * (abs(upper[{i}] - lower[{i}]) / nbins[{i}])'.format(i=i), mode='eval').body)
    gen = lc.generators[0]
    ctx.stats['terms_compared'] += 1
    ctx.check(elt == want and ''.join(unparse(gen.iter).split()) == 'range(nbins[%s])' % i and unparse(gen.target) == 'j' and not gen.ifs, 'LatticeSolver._InitialPoints#centres',
              'bin j = lower + (j+1/2)*|upper-lower|/nbins for j in range(nbins[i])', 'lattice bins are %s for %s' % (T.show(elt), unparse(gen.iter)), f, app)
    ctx.check(''.join(unparse(lp.iter).split()) in ('range(grid_dimensions)', 'range(self.nDim)'), 'LatticeSolver._InitialPoints#axes', 'one bin list per dimension',
              'bins built for %s' % unparse(lp.iter), f, lp)
    rets = [s for s in f.node.body if isinstance(s, ast.Return)]
    ctx.check(bool(rets) and ''.join(unparse(rets[-1].value).split()) == 'gridpts(bins,self._dist)', 'LatticeSolver._InitialPoints#grid', 'gridpts(bins, dist)',
              'lattice returns %s' % (unparse(rets[-1].value) if rets else None), f, rets[-1] if rets else f.node)
    for cname, want in (('BuckshotSolver', 'samplepts(lower,upper,npts,self._dist)'), ('SparsitySolver', 'fillpts(lower,upper,npts,data,self._rtol,self._dist)')):
        g = ctx.func('mystic.ensemble:%s._InitialPoints' % cname)
        rets = [s for s in g.node.body if isinstance(s, ast.Return)]
        np_ = [s for s in g.node.body if isinstance(s, ast.Assign) and isinstance(s.targets[0], ast.Name) and s.targets[0].id == 'npts']
        ctx.check(bool(rets) and ''.join(unparse(rets[-1].value).split()) == want and bool(np_) and ''.join(unparse(np_[0].value).split()) == 'self._npts',
                  '%s._InitialPoints#call' % cname, want, '%s starts from %s' % (cname, unparse(rets[-1].value) if rets else None), g, rets[-1] if rets else g.node)
    h = ctx.func('mystic.math.samples:_random_samples')
    st = [s for s in stmts_of(h.node) if isinstance(s, ast.Assign) and isinstance(s.targets[0], ast.Subscript) and unparse(s.targets[0].value) == 'pts']
    b = T.Builder()
    for s_ in stmts_of(h.node):
        if isinstance(s_, ast.Assign) and isinstance(s_.targets[0], ast.Name) and s_.targets[0].id in ('lbi', 'ubi'):
            b.exec_stmt(s_)
    ctx.need(st, '_random_samples: scaling store not found')
    v = T.simp(b.t(st[0].value))
    want = T.term(ast.parse('pts[i] * abs(ub[i] - lb[i]) + lb[i]', mode='eval').body)
    ctx.stats['terms_compared'] += 1
    ctx.check(v == want, '_random_samples#affine', 'unit sample mapped affinely onto [lb, ub]', 'samples are scaled as %s' % T.show(v), h, st[0])
    k = ctx.func('mystic.math.samples:random_samples')

    def rel(n):
        return isinstance(n, ast.Return) or (isinstance(n, ast.Name) and n.id == 'pts' and isinstance(n.ctx, ast.Store)) or \
            (isinstance(n, ast.Subscript) and isinstance(n.ctx, ast.Store))
    bad = None
    n = 0
    for p in enumerate_paths(k.node, relevant=rel, unroll=(0, 1, 2)):
        if p.exit != 'return' or p.exit_node.value is None or unparse(p.exit_node.value) != 'pts':
            continue
        n += 1
        clipped = False
        for e in p.events:
            if e[0] != 'stmt':
                continue
            st_ = e[1]
            if isinstance(st_, ast.Assign) and isinstance(st_.targets[0], ast.Name) and st_.targets[0].id == 'pts':
                clipped = 'np.clip(' in unparse(st_.value) and [unparse(a) for a in calls_where(st_.value, lambda c: callee_text(c) == 'np.clip')[0].args[1:3]] == ['lb', 'ub']
            elif isinstance(st_, ast.Assign) and isinstance(st_.targets[0], ast.Subscript) and unparse(st_.targets[0]).startswith('pts'):
                clipped = False
        if not clipped:
            bad = p
    ctx.need(n > 0, 'random_samples: no path returns pts')
    ctx.check(bad is None, 'random_samples#clip', '%d paths: the returned samples last passed through np.clip(., lb, ub)' % n,
              'random_samples can return values that were not clipped to [lb, ub]: %s' % (bad.describe(6) if bad else ''), k, bad.exit_node if bad else k.node)


@rule('C09.f', min_instances=3)
def wrappers(ctx):
    """lattice/buckshot/sparsity report solver._total_evals as the extra count and agree on how results are read"""
    outs = {}
    for name in ('lattice', 'buckshot', 'sparsity'):
        f = ctx.func('mystic.ensemble:' + name)
        b = T.Builder()
        solve_seen = False
        for st in f.node.body:
            if calls_where(st, lambda c: callee_text(c) == 'solver.Solve', include_lambda=False):
                solve_seen = True
            if solve_seen and isinstance(st, ast.Assign) and isinstance(st.targets[0], ast.Name) and isinstance(st.value, ast.Attribute):
                b.exec_stmt(st)
        rl = [s for s in walk_no_nested(f.node) if isinstance(s, ast.Assign) and isinstance(s.targets[0], ast.Name) and s.targets[0].id == 'retlist'
              and isinstance(s.value, ast.Tuple) and len(s.value.elts) >= 6]
        ctx.need(rl, '%s: full_output tuple not found' % name)
        tup = T.simp(b.t(rl[0].value))
        outs[name] = tup
        sv = ('name', 'solver')
        want = ('tuple', ('attr', sv, 'bestSolution'), ('attr', sv, 'bestEnergy'), ('attr', sv, 'generations'), ('attr', sv, 'evaluations'),
                ('name', 'warnflag'), ('attr', sv, '_total_evals'))
        ctx.check(tup == want, name + '#full_output', '(x, fval, iterations, fcalls, warnflag, total evaluations of all members)',
                  '%s returns %s' % (name, T.show(tup)), f, rl[0])


@rule('C09.g', min_instances=1)
def members_get_the_decorated_objective(ctx):
    """a member that still needs an objective at solve time (a configured nested instance) receives the ensemble's *decorated* objective (self._bootstrap_objective(...): bounds gate, penalty, constraints), never the raw cost - for a configured instance that wrapper is the only route by which the ensemble's settings reach it"""
    f = ctx.func(E + '._Solve')
    sn = selfname_of(f)
    n = 0
    for q, nf in sorted(f.module.funcs.items()):
        if nf.parent is not f:
            continue
        calls = calls_where(nf.node, lambda c: isinstance(c.func, ast.Attribute) and c.func.attr == 'SetObjective', include_lambda=False)
        for c in calls:
            n += 1
            ctx.need(c.args, 'SetObjective without a positional objective in %s' % nf.qualname)
            # value of the objective expression: locals of the closure first, then the enclosing function's bindings
            # that precede the nested def (free variables of the closure)
            b = T.Builder()
            for st in f.node.body:
                if st is nf.node:
                    break
                if isinstance(st, (ast.Assign, ast.AugAssign)):
                    b.exec_stmt(st)
            inner_locals = set(x for st_ in stmts_of(nf.node) for x in assigned_names(st_)) | set(a.arg for a in nf.node.args.args)
            for name in inner_locals:
                b.env.pop(name, None)
            for st in stmts_of(nf.node):
                if st.lineno >= c.lineno:
                    break
                if isinstance(st, ast.Assign) and not guards_of(st, stop=nf.node):
                    b.exec_stmt(st)
            v = T.simp(b.t(c.args[0]))
            good = v[0] == 'call' and v[1] == ('attr', ('name', sn), '_bootstrap_objective')
            ctx.check(good, '%s#SetObjective' % nf.qualname, 'member objective = %s' % T.show(v)[:70],
                      'a member solver is handed %s as its objective instead of the ensemble-decorated one (self._bootstrap_objective(...)): '
                      'the ensemble\'s strict ranges, penalty and constraints never reach a configured nested instance' % T.show(v)[:80], nf, c)
    ctx.need(n >= 1, 'no SetObjective call found in the closures of AbstractEnsembleSolver._Solve')


@rule('C09.h', min_instances=3)
def ensemble_wrappers_forward_the_settings(ctx):
    """lattice / buckshot / sparsity hand what the caller gave to the ensemble before Solve: the limits always; a penalty, constraints and bounds (as strict ranges, with the tight / clip options) exactly on the paths where they were given"""
    for name in ('lattice', 'buckshot', 'sparsity'):
        f = ctx.func('mystic.ensemble:' + name)
        r = wrapper_forwarding(ctx, f)
        ctx.need(r['paths'] >= 1, '%s: no path reaches Solve' % name)
        ctx.stats['paths_enumerated'] += r['paths']
        kw = f.node.args.kwarg.arg if f.node.args.kwarg else 'kwds'
        problems = []
        for p, seen, lits in r['per_path']:
            know = dict(lits)
            for key, setter in (('penalty', 'SetPenalty'), ('constraints', 'SetConstraints')):
                given = know.get(('cmp', 'in', ('const', key), ('name', kw)))
                calls = seen.get(setter, [])
                okc = any(a[:1] == [('sub', ('name', kw), ('const', key))] for _, a, k, _ in calls)
                if given is True and not okc:
                    problems.append('%s given but %s(%s[%r]) is not called' % (key, setter, kw, key))
            b_given = know.get(('cmp', 'is', ('name', 'bounds'), ('const', None)))
            if b_given is False and not seen.get('SetStrictRanges'):
                problems.append('bounds given but SetStrictRanges is not called')
            if not seen.get('SetEvaluationLimits'):
                problems.append('SetEvaluationLimits is not called')
        ctx.check(not problems, name + '#forwarding', 'limits, penalty, constraints and bounds reach the ensemble on all %d paths to Solve' % r['paths'],
                  '%s: %s' % (name, problems[0] if problems else ''), f, f.node)


@rule('C09.i', min_instances=2)
def integer_bin_counts_multiply_to_the_member_count(ctx):
    """a lattice given an integer number of bins factorises it (grid.randomly_bin): the nested `factors` is trial division by 2 and by every odd number up to n itself - so a prime n yields [n] - and the bins are the products of the shuffled factors taken with stride dim, so they multiply to N (reference summaries confirmed by reading; a bound of n//2 returns no factor at all for an odd prime, the lattice then allocates N members and runs one)"""
    from .c09_refs import REFS
    a = 'mystic.math.grid:randomly_bin'
    f = ctx.func(a)
    g = ctx.func(a + '.factors')
    ref_tree = ast.parse(REFS[a]).body[0]
    ref_factors = [n for n in ref_tree.body if isinstance(n, ast.FunctionDef) and n.name == 'factors'][0]
    got, want = SB.agree(g.node, ast.unparse(ref_factors) + '\n')
    ctx.stats['terms_compared'] += len(got)
    ctx.check(got == want, 'randomly_bin.factors', 'trial division by 2, 3, 5, ... up to n', 'randomly_bin.factors differs from its confirmed behaviour: %s' % SB.diff(got, want)[:500], g, g.node)
    import copy as _copy
    outer = _copy.deepcopy(f.node)
    ref_outer = _copy.deepcopy(ref_tree)
    for tree_ in (outer, ref_outer):
        for n_ in ast.walk(tree_):
            if isinstance(n_, ast.FunctionDef) and n_.name == 'factors':
                n_.body = [ast.Pass()]
    ast.fix_missing_locations(outer)
    got, want = SB.agree(outer, ast.unparse(ref_outer) + '\n')
    ctx.stats['terms_compared'] += len(got)
    ctx.check(got == want, 'randomly_bin', 'bins = products of the shuffled factors with stride dim', 'randomly_bin differs from its confirmed behaviour: %s' % SB.diff(got, want)[:500], f, f.node)


@rule('C09.j', min_instances=10)
def a_setting_can_always_be_set_again(ctx):
    """members are subject to the ensemble's settings AS THEY ARE when the members are built: every configuration method stores the setting(s) it owns on every normally-returning path, so a later call - including one that clears the setting (SetDistribution(None), SetPenalty(None)) - always replaces what an earlier call left (an early `if not dist: return` keeps the old distribution and lattice members start at perturbed points instead of their cell centres). Table of owners shared with C07.a; the documented "unchanged" early returns of SetObjective are the only exemption"""
    from .c07 import WRITE_TABLE, _impls
    EXEMPT = {('SetObjective', '_cost'): 'returns early when cost and ExtraArgs are unchanged (C01.l decides that test)',
              ('SetObjective', '_live'): 'same early return'}
    n = 0
    # the settings an ensemble pushes into its members (__get_solver_instance) and its own two; the monitor setters (foreign monitor kinds fall
    # through unstored) and SetStrictRanges(False) (switches the ranges off, keeps the numbers) have documented non-storing paths
    PUSHED = ('SetNestedSolver', 'SetDistribution', 'SetPenalty', 'SetConstraints', 'SetReducer', 'SetTermination', 'SetEvaluationLimits', 'SetSaveFrequency')
    for name, owned in sorted(WRITE_TABLE.items()):
        if name not in PUSHED:
            continue
        for k, m in _impls(ctx, name):
            sn = selfname_of(m)
            written = set(a for a, kind, node in attr_writes(m.node, sn) if kind == 'bind')
            # delegating overrides (super().SetX(...)) store through the base implementation
            if calls_where(m.node, lambda c: isinstance(c.func, ast.Attribute) and c.func.attr == name, include_lambda=False):
                continue
            for a in sorted(owned & written):
                if (name, a) in EXEMPT:
                    continue

                def rel(nn, a=a):
                    return isinstance(nn, ast.Attribute) and nn.attr == a and isinstance(nn.ctx, ast.Store)
                paths = [p for p in enumerate_paths(m.node, relevant=rel, unroll=(0, 1)) if p.exit != 'raise']
                ctx.stats['paths_enumerated'] += len(paths)
                bad = None
                for p in paths:
                    stored = False
                    for e in p.events:
                        if e[0] in ('stmt', 'partial') and any(a2 == a and kind == 'bind' for a2, kind, node in attr_writes(ast.Module(body=[e[1]], type_ignores=[]), sn)):
                            stored = True
                    if not stored:
                        bad = p
                        break
                n += 1
                ctx.touch(m)
                ctx.check(bad is None, '%s.%s[%s]' % (k.name, name, a), 'stored on every normally-returning path',
                          '%s.%s can return without storing %s (path %s): a call that should replace or clear the setting leaves the earlier one in force'
                          % (k.name, name, a, bad.describe(5) if bad else ''), m, bad.exit_node if bad is not None and bad.exit_node is not None else m.node)
    ctx.need(n >= 10, 'expected >= 10 (configuration method, setting) pairs, found %d' % n)


@rule('C09.k', min_instances=1)
def starting_points_are_drawn_once(ctx):
    """an ensemble draws its members' starting points (_InitialPoints) only while it is new, and it is new exactly as long as it has no member solvers: _is_new() == not any(self._allSolvers). Judged by the members' progress instead (members are still at generation 0 after the first Step) the second Step draws NEW starting points and overwrites population[0] of members whose stored energies belong to the old points"""
    f = ctx.func('mystic.abstract_ensemble_solver:AbstractEnsembleSolver._is_new')
    got, want = SB.agree(f.node, 'def _is_new(self):\n    return not any(self._allSolvers)\n')
    ctx.stats['terms_compared'] += len(got)
    ctx.check(got == want, 'AbstractEnsembleSolver._is_new', 'new <=> no member solvers exist', '_is_new differs from `not any(self._allSolvers)`: %s' % SB.diff(got, want)[:300], f, f.node)
    uses = [c for q, fi in sorted(ctx.model.modules['mystic.abstract_ensemble_solver'].funcs.items()) for c in ast.walk(fi.node)
            if isinstance(c, ast.If) and '_is_new()' in unparse(c.test) and '_InitialPoints' in unparse(c)]
    ctx.need(len(uses) >= 2, 'expected the two `if self._is_new(): iv = self._InitialPoints()` sites (_Step / _Solve), found %d' % len(uses))
