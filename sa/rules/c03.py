"""C03 - hard constraints hold at every evaluation and for the reported result.

Decided: every evaluation site receives a constrained vector (DE/DE2: the trial is
overwritten by constraints(trial) right before it is evaluated, for every
candidate; NM/Powell/base: the objective nests the constraints - fact from the
wrapper-chain analysis); what is recorded/reported is the constrained image
(typestate over point variables along every path of _Step, as an inductive
invariant on the best slot); constraints installed mid-run invalidate the
objective; and_ falls back to the bounds in all six coupling sites.
Round 6: wrap_penalty calls the cost before the penalty on their shared working
copy, on every path; an ensemble reports its best member's own (constrained)
best point.
NOT decided: that an arbitrary user constraint is satisfied by an arbitrary
vector; idempotence/determinism are the property's premises; clip=False mode.
"""
import ast

from ..core import rule
from ..srcmodel import AnalysisError, walk_no_nested, attr_chain, unparse, norm_stmt
from ..paths import enumerate_paths
from .. import terms as T
from .common import *
from . import decorate as D
from . import invalidate

AS = 'mystic.abstract_solver:AbstractSolver'


def _is_constraints_call(term):
    """constraints(A) possibly wrapped in asarray(..)/float conversions (transparent in sa.terms)"""
    return isinstance(term, tuple) and term and term[0] == 'call' and term[1] == ('name', 'constraints') and len(term[2]) == 1


def _coupling_sites(ctx):
    sites = [(k, ctx.touch(ctx.model.lookup_method(ctx.cls(v), '_Step'))) for k, v in CONCRETE_SOLVERS.items()] + \
            [('base-deco', ctx.func(D.DECORATORS['base'])), ('NM-deco', ctx.func(D.DECORATORS['NM']))]
    return sites


@rule('C03.a', min_instances=6)
def every_evaluation_is_constrained(ctx):
    """DE/DE2: each trial is replaced by constraints(trial) immediately before evaluation, for every candidate; NM/Powell/base objectives nest the constraints"""
    for key in ('DE', 'DE2'):
        cls = ctx.cls(CONCRETE_SOLVERS[key])
        f = ctx.touch(ctx.model.lookup_method(cls, '_Step'))
        sn = selfname_of(f)
        S = ('name', sn)
        trial = ('attr', S, 'trialSolution')
        loops = [n for n in f.node.body if isinstance(n, ast.For)]
        ctx.need(loops, 'no candidate loop in %s._Step' % cls.name)
        lp = loops[0]
        it = ''.join(unparse(lp.iter).split())
        ctx.check(it == 'range(%s.nPop)' % sn, '%s._Step#loop' % cls.name, 'candidate loop covers range(nPop)',
                  'the candidate loop iterates over %s, so not every member is constrained/evaluated' % it, f, lp)
        cand = lp.target.id if isinstance(lp.target, ast.Name) else None
        point = trial if key == 'DE' else ('sub', trial, ('name', cand))
        # the constraining store, unconditional in the loop body
        cons_idx = None
        for i, st in enumerate(lp.body):
            if isinstance(st, ast.Assign) and len(st.targets) == 1:
                tg = t(st.targets[0])
                v = t(st.value)
                if tg == ('sub', point, ('slice', None, None, None)) and _is_constraints_call(v) and v[2][0] in (point, ('sub', point, ('slice', None, None, None))):
                    cons_idx = i
        ctx.check(cons_idx is not None, '%s._Step#constrain' % cls.name, 'trial[:] = constraints(trial) unconditionally for every candidate',
                  'the trial vector is no longer replaced by constraints(trial) for every candidate before evaluation', f, lp)
        if cons_idx is None:
            continue
        # nothing writes the trial between the constraining store and the evaluation
        after = lp.body[cons_idx + 1:]
        if key == 'DE':
            evals = [(i, st) for i, st in enumerate(after) if calls_where(st, lambda c: isinstance(c.func, ast.Name) and c.func.id == 'cost', include_lambda=False)]
            ctx.need(evals, 'DE: no cost call after the constraining store')
            ei, est = evals[0]
            ctx.check(not guards_of(est, stop=lp) , 'DifferentialEvolutionSolver._Step#eval', 'evaluation is unconditional', 'evaluation is conditional', f, est)
            arg_ok = any(t(c.args[0]) == point for c in calls_where(est, lambda c: isinstance(c.func, ast.Name) and c.func.id == 'cost') if c.args)
            ctx.check(arg_ok, 'DifferentialEvolutionSolver._Step#eval-arg', 'cost is called at the constrained trial',
                      'the objective is evaluated at something other than the constrained trial vector', f, est)
            between = after[:ei]
            # any other evaluation site in the step must also be behind the constraining store
            others = [c for c in calls_where(f.node, lambda c: isinstance(c.func, ast.Name) and c.func.id == 'cost', include_lambda=False)
                      if enclosing_stmt(c) is not est]
            for c in others:
                ctx.bad('%s._Step#extra-eval' % cls.name, 'an additional evaluation site does not pass through the constraints', f, c)
        else:
            between = after + [s for s in f.node.body if s.lineno > lp.lineno]
            maps = [s for s in f.node.body if s.lineno > lp.lineno and calls_where(s, lambda c: self_call(c, '_map', sn), include_lambda=False)]
            ctx.need(maps, 'DE2: no map call after the candidate loop')
            mc = calls_where(maps[0], lambda c: self_call(c, '_map', sn))[0]
            ctx.check(len(mc.args) >= 2 and t(mc.args[0]) == ('name', 'cost') and t(mc.args[1]) == trial, 'DifferentialEvolutionSolver2._Step#eval-arg',
                      'the map evaluates cost over the constrained trial population', 'the map call is %s' % unparse(mc)[:80], f, mc)
            between = after + [s for s in f.node.body if lp.lineno < s.lineno < maps[0].lineno]
        writes = []
        for st in between:
            for n in [st] + list(walk_no_nested(st)):
                if isinstance(n, (ast.Assign, ast.AugAssign)):
                    for tg in store_targets(n):
                        base = tg
                        while isinstance(base, ast.Subscript):
                            base = base.value
                        if is_self_attr(base, 'trialSolution', sn):
                            writes.append(n)
                if isinstance(n, ast.Call) and isinstance(n.func, ast.Name) and n.func.id == 'strategy':
                    writes.append(n)
        ctx.check(not writes, '%s._Step#no-write' % cls.name, 'no write to the trial between constraining and evaluating it',
                  'the trial vector is modified after the constraints were applied and before it is evaluated', f, writes[0] if writes else lp)
    for key in ('base', 'NM'):
        f = ctx.func(D.DECORATORS[key])
        for r in D.analyse(ctx, f):
            names = [c[0] for c in r['chain']]
            ctx.check('wrap_nested' in names, '%s._decorate_objective#nested[strict=%s]' % (f.cls.name, r['strict']),
                      'objective nests the constraints', 'the objective no longer nests the constraints', f, r['path'].exit_node)
    pw = ctx.cls(CONCRETE_SOLVERS['Powell'])
    d = ctx.model.lookup_method(pw, '_decorate_objective')
    ctx.check(d is not None and d.anchor == D.DECORATORS['base'], 'PowellDirectionalSolver#decorator', 'Powell uses the nesting base decorator',
              'Powell no longer decorates its objective with the nesting base decorator', d, d.node if d else None)


# ---------------------------------------------------------------- typestate
def _index_may_be_zero(idx, loops):
    """can this subscript denote slot 0 ?  (slot -1 and loop ranges starting at >= 1 cannot)"""
    if isinstance(idx, ast.Constant) and isinstance(idx.value, int):
        return idx.value == 0
    if isinstance(idx, ast.UnaryOp) and isinstance(idx.op, ast.USub) and isinstance(idx.operand, ast.Constant):
        return False

    def lo_of(name):
        lp = loops.get(name)
        if lp is None:
            return None
        it = lp.iter
        if isinstance(it, ast.Name):
            it = loops.get('=' + it.id, it)
        if isinstance(it, ast.Call) and isinstance(it.func, ast.Name) and it.func.id == 'range':
            if len(it.args) == 1:
                return 0
            if isinstance(it.args[0], ast.Constant) and isinstance(it.args[0].value, int):
                return it.args[0].value
        return None
    if isinstance(idx, ast.Name):
        lo = lo_of(idx.id)
        return lo is None or lo <= 0
    if isinstance(idx, ast.BinOp) and isinstance(idx.op, ast.Add) and isinstance(idx.left, ast.Name) and \
            isinstance(idx.right, ast.Constant) and isinstance(idx.right.value, int):
        lo = lo_of(idx.left.id)
        return lo is None or lo + idx.right.value <= 0
    return True


def _strip_copy(term):
    """x.copy(), x[:], numpy.array(x, copy=True) denote the same point as x"""
    while True:
        if term[0] == 'sub' and term[2] == ('slice', None, None, None):
            term = term[1]
            continue
        if term[0] == 'call' and term[1][0] == 'attr' and term[1][2] in ('copy', 'flatten', 'tolist') and not term[2]:
            term = term[1][1]
            continue
        return term


class PointState(object):
    """set of canonical point expressions known to be constraints(...) images"""

    def __init__(self, sn, arrays, assume_best):
        self.sn = sn
        self.arrays = arrays      # local names that hold the member array ('sim')
        self.C = set()
        if assume_best:
            self.C.add(('sub', ('attr', ('name', sn), 'population'), T.num(0)))

    def is_c(self, term):
        term = _strip_copy(term)
        if term in self.C:
            return True
        # self.bestSolution is population[0] for solvers that never decouple it
        if term == ('attr', ('name', self.sn), 'bestSolution'):
            return ('sub', ('attr', ('name', self.sn), 'population'), T.num(0)) in self.C
        return False

    def kill(self, term):
        self.C.discard(term)
        # whole-array rebinding kills its slots
        for c in list(self.C):
            if c[0] == 'sub' and c[1] == term:
                self.C.discard(c)

    def assign(self, tgt_node, val_node, loops):
        tg = t(tgt_node)
        v = t(val_node) if val_node is not None else None
        constrained = v is not None and (_is_constraints_call(v) or self.is_c(v))
        if tg[0] == 'sub' and tg[2] == ('slice', None, None, None):
            tg = tg[1]     # in-place slice copy
        if isinstance(tgt_node, ast.Subscript) and not (isinstance(tgt_node.slice, ast.Slice)):
            base = t(tgt_node.value)
            slot0 = ('sub', base, T.num(0))
            if t(tgt_node.slice) == T.num(0):
                self.C.discard(slot0)
                if constrained:
                    self.C.add(slot0)
            elif _index_may_be_zero(tgt_node.slice, loops):
                self.C.discard(slot0)
            return
        # whole-variable (re)binding
        self.kill(tg)
        if v is not None:
            # aliasing of arrays: sim = self.population ; self.population = sim
            src = _strip_copy(v)
            for c in list(self.C):
                if c[0] == 'sub' and c[1] == src:
                    self.C.add(('sub', tg, c[2]))
        if constrained:
            self.C.add(tg)


def _typestate(ctx, key, cls, f, arrays):
    sn = selfname_of(f)
    loops = {}
    for n in walk_no_nested(f.node):
        if isinstance(n, ast.For) and isinstance(n.target, ast.Name):
            loops[n.target.id] = n
        if isinstance(n, ast.Assign) and isinstance(n.targets[0], ast.Name) and isinstance(n.value, ast.Call) and \
                isinstance(n.value.func, ast.Name) and n.value.func.id == 'range':
            loops['=' + n.targets[0].id] = n.value
    best = ('sub', ('attr', ('name', sn), 'population'), T.num(0))

    def rel(n):
        if isinstance(n, ast.Call) and (self_call(n, '_stepmon', sn) or (isinstance(n.func, ast.Name) and n.func.id in ('constraints', '_linesearch_powell'))):
            return True
        if isinstance(n, (ast.Name, ast.Attribute, ast.Subscript)) and isinstance(getattr(n, 'ctx', None), ast.Store):
            return True
        if isinstance(n, ast.Attribute) and n.attr in ('_stepmon', 'generations'):
            return True
        return False
    paths = [p for p in enumerate_paths(f.node, relevant=rel, unroll=(0, 1, 2)) if p.exit != 'raise']
    ctx.stats['paths_enumerated'] += len(paths)
    ctx.need(paths, 'no normal path through %s._Step' % cls.name)
    rec_bad = exit_bad = None
    n_rec = 0
    for p in paths:
        gen0 = any(e[0] == 'cond' and ''.join(unparse(e[1]).split()) == 'notlen(%s._stepmon)' % sn and e[2] for e in p.events)
        ps = PointState(sn, arrays, assume_best=not gen0)
        for e in p.events:
            if e[0] != 'stmt':
                continue
            st = e[1]
            for c in calls_where(st, lambda c: self_call(c, '_stepmon', sn), include_lambda=False):
                n_rec += 1
                if not c.args or not ps.is_c(t(c.args[0])):
                    rec_bad = rec_bad or (c, p)
            if isinstance(st, ast.Assign):
                tgs = st.targets
                if len(tgs) == 1 and isinstance(tgs[0], (ast.Tuple, ast.List)):
                    for el in tgs[0].elts:
                        ps.assign(el, None, loops)
                else:
                    for tg in tgs:
                        ps.assign(tg, st.value, loops)
            elif isinstance(st, ast.AugAssign):
                ps.assign(st.target, None, loops)
        if not ps.is_c(best):
            exit_bad = exit_bad or p
    ctx.need(n_rec > 0, 'no step-monitor record on any path of %s._Step' % cls.name)
    construct = '%s._Step' % cls.name
    if rec_bad:
        c, p = rec_bad
        ctx.bad(construct + '#record', 'the step monitor can record a point that is not the constrained image of an evaluated point (the objective nests '
                'the constraints, so a stored argument of cost() is a pre-image) on path %s' % p.describe(10), f, c)
    else:
        ctx.ok(construct + '#record', '%d record sites on %d paths: the recorded point is constraints(..) or a copy of such a value' % (n_rec, len(paths)), f, f.node)
    if exit_bad:
        ctx.bad(construct + '#exit', 'the best slot population[0] can leave the step holding an unconstrained pre-image on path %s' % exit_bad.describe(10),
                f, exit_bad.exit_node or f.node, statement='population[0] unconstrained at exit')
    else:
        ctx.ok(construct + '#exit', 'invariant kept: population[0] is a constrained image at every exit (%d paths)' % len(paths), f, f.node)


@rule('C03.b', min_instances=6)
def reported_point_is_constrained_image(ctx):
    """typestate as an inductive invariant: for NM/Powell the best slot and every recorded point are constraints(..) images on every path; DE/DE2 write best/members only through the guarded stores"""
    for key in ('NM', 'Powell'):
        cls = ctx.cls(CONCRETE_SOLVERS[key])
        f = ctx.touch(ctx.model.lookup_method(cls, '_Step'))
        _typestate(ctx, key, cls, f, ('sim',))
    fin = ctx.func('mystic.scipy_optimize:PowellDirectionalSolver.Finalize')
    sn = selfname_of(fin)
    for c in calls_where(fin.node, lambda c: self_call(c, '_stepmon', sn)):
        a0 = ''.join(unparse(c.args[0]).split()) if c.args else ''
        ctx.check(a0 in ('%s.bestSolution' % sn, '%s.population[0]' % sn), 'PowellDirectionalSolver.Finalize#record',
                  'Finalize records the best slot (constrained by the _Step invariant)', 'Finalize records %s' % a0, fin, c)
    from . import deselect as DS
    for key in ('DE', 'DE2'):
        cls = ctx.cls(CONCRETE_SOLVERS[key])
        f = ctx.touch(ctx.model.lookup_method(cls, '_Step'))
        r = DS.analyse(ctx, key, f)
        sn = r['sn']
        by_attr = {}
        for st in r['stores']:
            if st.kind == 'trial':
                continue
            attr = {'member-energy': 'popEnergy', 'member-point': 'population', 'best-energy': 'bestEnergy', 'best-point': 'bestSolution'}[st.kind]
            if st.in_loop == 0:
                # prologue of the step: only the generation-0 initialisation may touch the reported state
                good = st.gen0 is True
            else:
                il = DS.improvement_literal(st, sn, r['mode'])
                good = il is not None and (il[0], True) in st.lits
            by_attr.setdefault(attr, []).append((good, st))
        for attr in ('bestSolution', 'population', 'popEnergy', 'bestEnergy'):
            items = by_attr.get(attr, [])
            ctx.need(items, '%s._Step: no store to %s found' % (cls.name, attr))
            bad = [st for good, st in items if not good]
            ctx.check(not bad, '%s._Step#writes-%s' % (cls.name, attr), 'written only where the path knows the (constrained, evaluated) trial is strictly better, or at generation 0',
                      '%s is written outside the improvement-guarded stores: %s (path %s)' % (attr, norm_stmt(bad[0].node) if bad else '', bad[0].path.describe(6) if bad else ''),
                      f, bad[0].node if bad else items[0][1].node)


@rule('C03.c', min_instances=3)
def constraints_installed_midrun(ctx):
    """a method that replaces the captured constraints invalidates the objective (NM/Powell/base); DE/DE2 read self._constraints at every step"""
    for key, anchor in CONCRETE_SOLVERS.items():
        cls = ctx.cls(anchor)
        n, decoin = invalidate.check_class(ctx, key, cls, only_attrs={'_constraints', '_strictbounds'}, label_prefix=key + ':')
        if key in ('NM', 'Powell'):
            ctx.need('_constraints' in decoin, '%s: _constraints not captured by the decorator?' % cls.name)
        else:
            f = ctx.touch(ctx.model.lookup_method(cls, '_Step'))
            sn = selfname_of(f)
            reads = [n_ for n_ in walk_no_nested(f.node) if is_self_attr(n_, '_constraints', sn) and isinstance(n_.ctx, ast.Load)]
            ctx.check(bool(reads), '%s._Step#reads-constraints' % cls.name, 'self._constraints is read at every step (not captured)',
                      '%s._Step no longer reads self._constraints each step: constraints installed mid-run are ignored' % cls.name, f, f.node)


@rule('C03.d', min_instances=12)
def and_falls_back_to_bounds(ctx):
    """all six coupling sites build and_(self._constraints, self._strictbounds, onfail=self._strictbounds) under strict ranges and self._constraints otherwise"""
    for key, m in _coupling_sites(ctx):
        D.check_coupling(ctx, key, m)


@rule('C03.e', min_instances=4)
def coupling_reports_success_only_at_a_fixed_point(ctx):
    """the and_ that couples the constraints with the strict bounds hands back a vector only where both members leave it unchanged (success path guarded by the fixed-point test and no pending exception), otherwise the bounds fallback (onfail); the members are called on copies, so an in-place member cannot make the history alias itself and fake the fixed point (shared with C17.a)"""
    from .c17 import success_only_at_fixed_point
    success_only_at_fixed_point(ctx, names=('and_',))


def best_survives_a_change_of_constraints(ctx):
    """differential evolution keeps an all-time best (self.bestSolution / self.bestEnergy) apart from its population and replaces
    it only by a better trial.  When the constraints change between iterations (SetConstraints, a collapse) the objective is
    re-decorated at the next step; unless that re-decoration (or the setters) also re-validates or resets the stored best, the
    old best - found without the new constraints - keeps winning and is what the solver reports.  Shared by C03.f and C11.m."""
    from .common import CONCRETE_SOLVERS
    n = 0
    for key in ('DE', 'DE2'):
        cls = ctx.cls(CONCRETE_SOLVERS[key])
        step = ctx.model.lookup_method(cls, '_Step')
        sn = selfname_of(step)
        keeps_best = any(isinstance(x, ast.Attribute) and x.attr in ('bestEnergy', '_bestEnergy') and isinstance(x.ctx, ast.Store) for x in ast.walk(step.node))
        if not keeps_best:
            continue
        n += 1
        scope = [ctx.model.lookup_method(cls, m) for m in ('_decorate_objective', '_update_objective', 'SetConstraints', 'Collapse', '_bootstrap_objective')]
        refreshed = None
        for m in scope:
            if m is None:
                continue
            ctx.touch(m)
            for x in ast.walk(m.node):
                if isinstance(x, ast.Attribute) and x.attr in ('bestEnergy', '_bestEnergy', 'bestSolution', '_bestSolution') and isinstance(x.ctx, ast.Store):
                    refreshed = (m, x)
        deco = ctx.model.lookup_method(cls, '_decorate_objective')
        ctx.check(refreshed is not None, '%s#best-across-constraints' % cls.name, 'the stored all-time best is re-validated or reset when the constraints change',
                  '%s keeps its all-time best across a change of constraints: neither the re-decoration of the objective nor SetConstraints / Collapse touches bestSolution / bestEnergy, so a best found before the constraints were installed is reported although it violates them'
                  % cls.name, deco, deco.node, statement='all-time best kept across re-decoration')
    ctx.need(n >= 2, 'expected the two DE solvers to keep an all-time best')


@rule('C03.f', min_instances=2)
def reported_best_satisfies_the_constraints_in_force(ctx):
    """the reported solution satisfies the constraints in force also when they were installed between iterations: a solver that stores an all-time best re-validates it when the constraints change"""
    best_survives_a_change_of_constraints(ctx)


@rule('C03.g', min_instances=3)
def an_ensemble_reports_its_best_members_constrained_point(ctx):
    """the solution a solver reports satisfies the constraints wherever the run is stopped: an ensemble reports the best member's own bestSolution (a constrained, evaluated point) together with that member's energy - never a fall-back to population[0] (for a differential-evolution member that is an arbitrary candidate) - on every path on which the scan found a member (shared with C09.a / C01.k)"""
    from .c09 import reduction
    reduction(ctx)


def _calls_in_evaluation_order(node):
    """Call nodes of an expression / statement in the order python evaluates them (operands left to right, arguments before the call)"""
    out = []

    def rec(n):
        if isinstance(n, (ast.Lambda, ast.FunctionDef)):
            return
        for ch in ast.iter_child_nodes(n):
            rec(ch)
        if isinstance(n, ast.Call):
            out.append(n)
    rec(node)
    return out


@rule('C03.h', min_instances=2)
def the_cost_sees_the_constrained_vector_before_the_penalty_does(ctx):
    """hard constraints hold at every evaluation: wrap_penalty hands cost and penalty ONE working copy of the (constrained) candidate; penalties built with mystic.symbolic work in place, so the cost has to be called first - on every path, also when the penalty is infinite (a short-cut that evaluates the penalty first and skips the cost on inf lets the cost see the vector the penalty rewrote, and makes the evaluation count depend on the penalty)"""
    f = ctx.func('mystic.tools:wrap_penalty.function_wrapper')
    outer = ctx.func('mystic.tools:wrap_penalty')
    cf, pf = outer.args()[:2]

    def rel(n):
        return isinstance(n, ast.Return) or (isinstance(n, ast.Call) and isinstance(n.func, ast.Name) and n.func.id in (cf, pf))
    paths = [p for p in enumerate_paths(f.node, relevant=rel, unroll=(0, 1)) if p.exit != 'raise']
    ctx.stats['paths_enumerated'] += len(paths)
    ctx.need(paths, 'wrap_penalty.function_wrapper has no returning path')
    skipped = wrong_order = None
    for p in paths:
        order = []
        for e in p.events:
            if e[0] in ('stmt', 'partial'):
                for c in _calls_in_evaluation_order(e[1]):
                    if isinstance(c.func, ast.Name) and c.func.id in (cf, pf):
                        order.append((c.func.id, unparse(c.args[0]) if c.args else ''))
            elif e[0] == 'cond':
                for c in _calls_in_evaluation_order(e[1]):
                    if isinstance(c.func, ast.Name) and c.func.id in (cf, pf):
                        order.append((c.func.id, unparse(c.args[0]) if c.args else ''))
        names = [o[0] for o in order]
        if cf not in names:
            skipped = skipped or p
        elif pf in names and names.index(pf) < names.index(cf) and order[names.index(pf)][1] == order[names.index(cf)][1]:
            wrong_order = wrong_order or p
    ctx.check(skipped is None, 'wrap_penalty#cost-on-every-path', 'the cost is evaluated on every path (%d paths)' % len(paths),
              'wrap_penalty can return without calling the cost (path %s): the number of evaluations - and what the evaluation monitor holds - depends on the penalty' % (skipped.describe(4) if skipped else ''),
              f, skipped.exit_node if skipped is not None and skipped.exit_node is not None else f.node)
    ctx.check(wrong_order is None, 'wrap_penalty#cost-first', 'the cost is called before the penalty on their shared working copy',
              'wrap_penalty calls the penalty before the cost on the same working copy: a penalty that works in place (every penalty generated by mystic.symbolic does) rewrites the vector, and the cost is then '
              'evaluated at a point that does not satisfy the hard constraints', f, f.node)
