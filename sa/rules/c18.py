"""C18 - moment-imposing transforms hit their target and keep what they promise to keep.

Decided: in every transform that promises to keep the (weighted) mean, the mean
is captured from the *input* samples and weights before anything is modified and
restored last through impose_mean with the final weights - and the weights
returned are the ones used for that restoration (snapshot/restore typestate);
impose_mean is a pure translation, impose_variance / impose_spread are
scale-then-translate with scale**2*var = v and scale*spread = r (canonical
terms); variance/std/moment/mean are defined by the textbook delegation chain;
impose_support keeps exactly the listed weights and impose_unweighted zeroes
exactly the listed ones, with negative indices normalised by the length.
Round 4: impose_variance / impose_spread case analysis (unchanged only for zero
statistic and zero target; nan only for degenerate samples).
Round 5 (hunt): distances are computed on float casts (repair 7928278); Lnorm
takes the absolute value before the power.
Round 6: _sort keeps its (samples, weights) table in floats; connected keeps
absorbed keys (impose_collapse).
NOT decided: reaching targets numerically, medians/MADs/trimmed variants,
distances and norms.
"""
import ast

from ..core import rule
from ..srcmodel import AnalysisError, walk_no_nested, unparse, norm_stmt
from ..paths import enumerate_paths
from .. import terms as T
from .. import siblings as SB
from .common import *

MS = 'mystic.math.measures'
KEEP_MEAN = ['impose_variance', 'impose_spread', 'impose_moment', 'impose_weight_norm', 'impose_support', 'impose_unweighted', 'impose_collapse']


def _strip_conv(term):
    """list(x) / asarray(list(x)) denote the same points as x"""
    while isinstance(term, tuple) and term and term[0] == 'call' and T.show(term[1]) in ('list', 'tuple') and len(term[2]) == 1 and not term[3]:
        term = term[2][0]
    return term


@rule('C18.a', min_instances=7)
def snapshot_and_restore(ctx):
    """the preserved mean is captured from the input (samples, weights) before the first modification and restored last via impose_mean(m, ., final weights); the returned weights are the ones used for the restoration"""
    for name in KEEP_MEAN:
        f = ctx.func('%s:%s' % (MS, name))
        params = f.args()
        smp, wts = ('samples', 'weights')
        ctx.need(smp in params and wts in params, '%s: parameters changed' % name)

        def rel(n):
            return isinstance(n, ast.Return) or (isinstance(n, ast.Name) and isinstance(n.ctx, ast.Store))
        paths = [p for p in enumerate_paths(f.node, relevant=rel, unroll=(0, 1)) if p.exit == 'return']
        ctx.stats['paths_enumerated'] += len(paths)
        bad = None
        n_restore = 0
        for p in paths:
            b = T.Builder()
            m_term = None
            m_ok = None
            for e in p.events:
                if e[0] != 'stmt':
                    continue
                st = e[1]
                if isinstance(st, ast.Assign) and isinstance(st.targets[0], ast.Name) and st.targets[0].id == 'm' and isinstance(st.value, ast.Call) \
                        and callee_text(st.value) == 'mean' and m_term is None:
                    tt = T.simp(b.t(st.value))
                    a0 = _strip_conv(tt[2][0]) if tt[2] else None
                    a1 = _strip_conv(tt[2][1]) if len(tt[2]) > 1 else None
                    m_ok = a0 == ('name', smp) and a1 == ('name', wts)
                    m_term = ('name', '_M0')
                    b.env['m'] = m_term
                    continue
                if isinstance(st, ast.Assign) and isinstance(st.targets[0], ast.Name) and st.targets[0].id == 'm' and name == 'impose_moment' and m_term is None:
                    # `v = m` change of variables at the top of impose_moment
                    b.exec_stmt(st)
                    continue
                if isinstance(st, ast.Return):
                    v = T.simp(b.t(st.value)) if st.value is not None else None
                    call = v[1] if (v and v[0] == 'tuple') else v
                    if call and call[0] == 'call' and T.show(call[1]) == 'impose_mean':
                        n_restore += 1
                        if m_term is None or call[2][0] != m_term:
                            bad = bad or ('the mean restored at the end is %s, not the mean captured from the input' % T.show(call[2][0])[:60], st)
                        elif not m_ok:
                            bad = bad or ('the preserved mean is captured after the samples/weights were already modified', st)
                        elif v[0] == 'tuple' and (len(call[2]) < 3 or v[2] != call[2][2]):
                            bad = bad or ('the weights returned (%s) are not the weights used to restore the mean (%s)' % (
                                T.show(v[2])[:50], T.show(call[2][2])[:50] if len(call[2]) > 2 else 'none'), st)
                        elif len(call[2]) < 3:
                            bad = bad or ('the mean is restored without the weights', st)
                    continue
                b.exec_stmt(st)
        ctx.need(n_restore > 0 or bad, '%s no longer restores the mean through impose_mean' % name)
        if bad:
            ctx.bad(name, '%s: %s' % (name, bad[0]), f, bad[1])
        else:
            ctx.ok(name, '%d restoring returns: impose_mean(mean of the input, modified samples, final weights)' % n_restore, f, f.node)
    g = ctx.func(MS + ':impose_std')
    r = [s for s in g.node.body if isinstance(s, ast.Return)]
    ctx.check(bool(r) and t(r[0].value) == T.term(ast.parse('impose_variance(s**2, samples, weights)', mode='eval').body), 'impose_std', 'impose_variance(s**2, ...)',
              'impose_std returns %s' % (unparse(r[0].value) if r else None), g, g.node)


def _ret_term(ctx, anchor, env=None):
    f = ctx.func(anchor)
    out = []
    for lits, eff, outc in SB.summary(f.node, unroll=(0, 1)):
        if outc[0] == 'return':
            out.append((lits, outc[1]))
    return f, out


@rule('C18.b', min_instances=3)
def affine_shape(ctx):
    """impose_mean is samples + (m - mean): a pure translation; impose_variance scales by sqrt(v/var) and impose_spread by r/spread before restoring the mean"""
    f, rets = _ret_term(ctx, MS + ':impose_mean')
    want = T.term(ast.parse('list(samples + (m - mean(samples, weights)))', mode='eval').body)
    got = [v for l, v in rets]

    def norm(v):
        # asarray/list conversions are transparent for the point values
        return T.substitute(v, ('call', ('name', 'list'), (('name', 'samples'),), ()), ('name', 'samples'))
    ctx.stats['terms_compared'] += 1
    ctx.check(len(got) == 1 and norm(got[0]) == want, 'impose_mean', 'samples + (m - mean(samples, weights))', 'impose_mean returns %s' % [T.show(norm(g))[:120] for g in got], f, f.node)
    f, rets = _ret_term(ctx, MS + ':impose_variance')
    main = [v for l, v in rets if v[0] == 'call' and T.show(v[1]) == 'impose_mean']
    want = T.term(ast.parse('impose_mean(mean(samples, weights), samples * (v / variance(samples, weights))**0.5, weights)', mode='eval').body)
    ctx.stats['terms_compared'] += 1
    ctx.check(len(main) == 1 and norm(main[0]) == want, 'impose_variance', 'samples * sqrt(v / variance), then the mean restored',
              'impose_variance computes %s' % [T.show(norm(g))[:160] for g in main], f, f.node)
    f, rets = _ret_term(ctx, MS + ':impose_spread')
    main = [v for l, v in rets if v[0] == 'call' and T.show(v[1]) == 'impose_mean']
    want = T.term(ast.parse('impose_mean(mean(samples, weights), samples * (r / spread(samples)), weights)', mode='eval').body)
    ctx.stats['terms_compared'] += 1
    ctx.check(len(main) == 1 and norm(main[0]) == want, 'impose_spread', 'samples * (r / spread), then the mean restored',
              'impose_spread computes %s' % [T.show(norm(g))[:160] for g in main], f, f.node)
    # degenerate variance / spread are refused, not silently passed through: every path that reaches the rescaling has
    # established that the divisor (variance(samples, weights) / spread(samples), whatever local holds it) is non-zero
    for name, div in (('impose_variance', 'variance(samples, weights)'), ('impose_spread', 'spread(samples)')):
        g, rets2 = _ret_term(ctx, '%s:%s' % (MS, name))
        D = T.term(ast.parse(div, mode='eval').body)
        Dl = T.substitute(D, ('name', 'samples'), ('call', ('name', 'list'), (('name', 'samples'),), ()))
        mains = [(l, v) for l, v in rets2 if v[0] == 'call' and T.show(v[1]) == 'impose_mean']
        def _plits(l):
            return [(lit[1], lit[0] == 'T') for lit in l if len(lit) == 2 and lit[0] in ('T', 'F')]
        ok_ = bool(mains) and all(decided(D, _plits(l)) is True or decided(Dl, _plits(l)) is True for l, v in mains)
        ctx.check(ok_, name + '#degenerate', 'zero %s handled before dividing' % div.split('(')[0],
                  '%s divides by a possibly zero %s' % (name, div), g, g.node)
        # the other returns: the samples are handed back unchanged only where they already have the target (the statistic is
        # zero AND the target is zero); nan only where the statistic is zero; nothing else
        tgt = ('name', g.args()[0])
        SL = ('call', ('name', 'list'), (('name', 'samples'),), ())
        for l, v in rets2:
            if (l, v) in mains:
                continue
            plits = [(lit[1], lit[0] == 'T') for lit in l if len(lit) == 2 and lit[0] in ('T', 'F')]
            zero_stat = decided(D, plits) is False or decided(Dl, plits) is False
            zero_tgt = decided(tgt, plits) is False
            same = v in (('name', 'samples'), SL) or (v[0] == 'listcomp' and len(v[2]) == 1 and v[2][0][1] in (('name', 'samples'), SL) and not v[2][0][2]
                                                       and v[1] in ((v[2][0][0],), (('call', ('name', 'float'), (v[2][0][0],), ()),)))
            isnan = 'nan' in T.show(v)
            ctx.stats['terms_compared'] += 1
            if same:
                ctx.check(zero_stat and zero_tgt, name + '#unchanged', 'samples returned unchanged only when both the %s and the target are zero' % div.split('(')[0],
                          '%s returns the samples unchanged on a path that knows only %s: for a zero target and samples that are not degenerate the target is missed (they must collapse onto the mean)'
                          % (name, [(k2[0], T.show(k2[1])[:40]) for k2 in l if len(k2) == 2]), g, g.node)
            elif isnan:
                ctx.check(zero_stat, name + '#nan', 'nan only for degenerate samples', '%s answers nan although the %s is not known to be zero' % (name, div.split('(')[0]), g, g.node)
            else:
                ctx.bad(name + '#other-return', '%s has a return that is neither the rescaled samples, the unchanged degenerate samples nor nan: %s' % (name, T.show(v)[:100]), g, g.node)


def _ref(ctx, anchor, src, what):
    f = ctx.func(anchor)
    got, want = SB.agree(f.node, src, strict_casts=True)
    ctx.stats['terms_compared'] += len(got)
    ctx.check(got == want, f.qualname, what, '%s differs from its definition: %s' % (f.qualname, SB.diff(got, want)), f, f.node)


@rule('C18.c', min_instances=5)
def definitions_by_delegation(ctx):
    """variance = moment(order=2); std = sqrt(variance); moment = mean of (s - mean)**order; mean = weighted sum / sum of weights; spread = max - min"""
    _ref(ctx, MS + ':variance', 'def variance(samples, weights=None):\n    return moment(samples, weights, order=2)\n', 'moment of order 2')
    _ref(ctx, MS + ':std', 'def std(samples, weights=None):\n    return sqrt(variance(samples, weights))\n', 'sqrt(variance)')
    _ref(ctx, MS + ':spread', 'def spread(samples):\n    return max(samples) - min(samples)\n', 'max - min')
    _ref(ctx, MS + ':moment', '''def moment(samples, weights=None, order=1, tol=0):
    if order == 0: return 1.0
    if order == 1: return 0.0
    _mean = mean(samples, weights)
    mom = [(s - _mean)**order for s in samples]
    return mean(mom,weights,tol)
''', 'weighted mean of (s - mean)**order')
    _ref(ctx, MS + ':mean', '''def mean(samples, weights=None, tol=0):
    if weights is None:
        ssum = sum(samples)/len(samples)
        wts = 1.0
    else:
        ssum = sum(i*j for i,j in zip(samples, weights))
        wts = float(sum(weights))
    if wts:
        ssum = ssum / wts
        return 0.0 if abs(ssum) <= tol else ssum
    return ssum * inf
''', 'sum(w*s)/sum(w) (plain average without weights)')


@rule('C18.d', min_instances=2)
def zeroed_weights(ctx):
    """impose_support keeps a weight iff its index is listed, impose_unweighted zeroes it iff listed; negative indices are normalised by len(weights); the mean and the total weight are captured from the input first and restored last (behavioural summaries against reference transcriptions; helpers of the package are looked through)"""
    from .c18_refs import REFS
    for name, what in (('impose_support', 'weight kept iff its index is listed'), ('impose_unweighted', 'weight zeroed iff its index is listed')):
        _ref(ctx, '%s:%s' % (MS, name), REFS['%s:%s' % (MS, name)], what + '; negative indices count from the end; total weight and mean restored')


@rule('C18.e', min_instances=4)
def conservative_collapse(ctx):
    """impose_collapse moves weight conservatively: each collapsed weight is read into the group's accumulator and zeroed in the same step, and the accumulator is written back to the surviving index before the next group - or, the groups being the disjoint ones tools.connected returns, all group sums are taken first and the stores follow (two-phase form); normalize / impose_sum / impose_product / impose_weight_norm keep their confirmed scaling"""
    from .c18_refs import REFS
    f = ctx.func(MS + ':impose_collapse')
    # structural clause first: read-and-zero of weights[k] share one innermost loop body, write-back in the enclosing one
    loops = [n for n in walk_no_nested(f.node) if isinstance(n, ast.For)]
    zero = []
    for lp in loops:
        for s in lp.body:
            if isinstance(s, ast.Assign) and isinstance(s.targets[0], ast.Subscript) and unparse(s.targets[0].value) == 'weights' and \
                    isinstance(s.value, ast.Call) and [const_value(a) for a in s.value.args] == [0.0]:
                zero.append((lp, s))
    ctx.need(bool(zero), 'impose_collapse: no zeroing store `weights[k] = type(v)(0.0)` found in a loop body')
    # the groups are what tools.connected returns - disjoint since repair (C18.i), negative indices converted before: with disjoint groups the
    # order of "sum the group" and "zero its members" no longer matters, so the two-phase form (all sums, then all stores) is accepted as well
    via_connected = any(isinstance(st, ast.Assign) and isinstance(st.value, ast.Call) and callee_text(st.value).split('.')[-1] == 'connected' and
                        any(isinstance(lp.iter, ast.Call) and isinstance(lp.iter.func, ast.Attribute) and unparse(lp.iter.func.value) == unparse(st.targets[0]) for lp in loops)
                        for st in stmts_of(f.node))
    if via_connected:
        gotB, wantB = SB.agree(f.node, REFS[MS + ':impose_collapse#two-phase'], strict_casts=True)
        if gotB == wantB:
            ctx.ok('impose_collapse', 'per group: sum of the group first, then w[k] = 0; x[k] = x[i]; w[i] = sum (groups from tools.connected are disjoint)', f, f.node)
            zero = []
    for lp, s in zero:
        key = unparse(s.targets[0])
        before = lp.body[:lp.body.index(s)]
        bld = T.Builder()
        keyt = T.simp(bld.t(s.targets[0]))
        moved = []
        for b_ in before:
            # `v += weights[k]`, possibly through a temporary or spelled `v = v + weights[k]`
            if isinstance(b_, ast.AugAssign) and isinstance(b_.op, ast.Add) and T.simp(bld.t(b_.value)) == keyt:
                moved.append(b_)
            elif isinstance(b_, ast.Assign) and isinstance(b_.targets[0], ast.Name) and isinstance(b_.value, ast.BinOp) and isinstance(b_.value.op, ast.Add) and \
                    T.simp(bld.t(b_.value)) == T.simp(T.padd(bld.t(b_.targets[0]), keyt)):
                moved.append(b_)
            else:
                bld.exec_stmt(b_)
        ctx.check(bool(moved), 'impose_collapse#atomic-move', '%s is accumulated and zeroed in the same step' % key,
                  'impose_collapse zeroes %s without having accumulated it in the same step (overlapping groups would count or drop weight twice)' % key, f, s)
    if not (via_connected and gotB == wantB):
        _ref(ctx, MS + ':impose_collapse', REFS[MS + ':impose_collapse'], 'per group: v = w[i]; for k: v += w[k]; w[k] = 0; x[k] = x[i]; then w[i] = v')
    for name, what in (('normalize', 'weights / norm * mass, zero-sum handling'), ('impose_weight_norm', 'mean captured, normalize, mean restored'),
                       ('impose_sum', 'normalize(weights, mass, zsum, zmass)'), ('impose_product', 'weights / (prod/mass)**(1/n)')):
        _ref(ctx, '%s:%s' % (MS, name), REFS['%s:%s' % (MS, name)], what)


@rule('C18.f', min_instances=27)
def textbook_definitions(ctx):
    """the remaining statistics and metrics keep their confirmed definitions: support / ess_* extrema over the supported points, expectation as weighted mean of f over supported points, median / mad / trimmed mean and variance with their shift/scale impose_* constructions, the L-p norm decision table and the Minkowski family of distances"""
    from .c18_refs import REFS
    what = {
        'support_index': 'indices with weight > tol', 'support': 'samples with weight > tol',
        'expectation': 'mean of f(x) weighted by w over |w| > tol', 'expected_variance': '_expected_moment(order=2)', '_expected_moment': 'moment of f(x) weighted by w over |w| > tol',
        'ess_maximum': 'maximum over the support', 'ess_minimum': 'minimum over the support', 'ess_ptp': 'ptp over the support',
        'maximum': 'max f(x)', 'minimum': 'min f(x)', 'ptp': 'max f(x) - min f(x)',
        'median': 'weighted median', 'mad': 'median of |s - median|', 'impose_median': 's + (m - median)',
        'impose_mad': 'scale by s/mad, median restored', 'tmean': 'trimmed weighted mean', 'tvariance': 'trimmed weighted variance',
        'tstd': 'sqrt(tvariance)', 'impose_tmean': 's + (m - tmean)', 'impose_tvariance': 'scale by sqrt(v/tvar), tmean restored',
        'impose_tstd': 'impose_tvariance(s**2)',
        'Lnorm': 'p=0: count of nonzeros; p=inf: max|w|; else (sum |w|**p)**(1/p)', 'chebyshev': 'max |x - x\'|', 'hamming': 'count of differing coordinates',
        'minkowski': '(sum |x - x\'|**p)**(1/p), p=inf -> chebyshev', 'euclidean': 'minkowski p=2', 'manhattan': 'minkowski p=1',
        'absolute_distance': '|x - x\'| pointwise or pairwise',
    }
    for a, src in sorted(REFS.items()):
        name = a.split(':')[1]
        if name in what:
            _ref(ctx, a, src, what[name])


@rule('C18.g', min_instances=5)
def numpy_reductions_get_arrays(ctx):
    """resolved callees: no numpy reduction reachable from the statistics, impose_* transforms and metrics is handed a generator expression (function-level `from numpy import sum` shadows the builtin; numpy.sum(<generator>) raises, so e.g. a weighted expectation would fail on every input)"""
    from . import npcalls
    ents = []
    for mn in ('mystic.math.measures', 'mystic.math.distance'):
        m = ctx.model.module(mn)
        ents += [f.anchor for q, f in sorted(m.funcs.items()) if '.' not in q]
    npcalls.check_closure(ctx, ents, min_sites=5)


@rule('C18.h', min_instances=3)
def collapse_groups_count_every_weight_once(ctx):
    """impose_collapse groups its pairs with tools.connected and moves the weight of every member onto the key: total weight is preserved only if each point belongs to exactly one group and the key is not among its own members (shared with C16.j)"""
    from .c16 import connected_unites_groups
    connected_unites_groups(ctx)


@rule('C18.i', min_instances=1)
def sorted_samples_keep_their_weights_as_floats(ctx):
    """_sort (behind median, mad, tmean, tvariance and their impose_* variants) returns the samples in ascending order with each weight still attached to its sample, in a FLOAT table: np.ones / np.vstack of the two rows, never an array that takes the dtype of the samples (integer sample points with fractional weights: the weights were truncated to 0, median([1,2,3,4,5],[.1,.1,.1,.2,.5]) gave 1.0)"""
    f = ctx.func('mystic.math.measures:_sort')
    bad = None
    for c in ast.walk(f.node):
        if isinstance(c, ast.Call):
            for k in c.keywords:
                if k.arg == 'dtype' and 'float' not in unparse(k.value):
                    bad = c
    ctx.check(bad is None, '_sort#float-table', 'the (samples, weights) table is a float array',
              '_sort builds its table with %s: the table takes the dtype of the samples, and for integer sample points the weights stored into it are truncated - weighted medians and trimmed statistics are computed from wrong weights'
              % (unparse(bad)[:80] if bad is not None else ''), f, bad if bad is not None else f.node)
    from .c18_refs import REFS
    from .. import siblings as SB
    got, want = SB.agree(f.node, REFS['mystic.math.measures:_sort'], strict_casts=True)
    ctx.stats['terms_compared'] += len(got)
    ctx.check(got == want, '_sort', 'samples ascending, weights carried along (unweighted: ones)', '_sort differs from its definition: %s' % SB.diff(got, want)[:300], f, f.node)
