"""reference transcriptions (confirmed by reading on the pinned tree) for C18.e/f: the conservative weight move of impose_collapse, weight normalisation, and the distance metrics"""
REFS = {
    # the same move in two phases (group sums first, then the stores): equivalent as long as the groups are disjoint - what tools.connected returns (C18.i)
    'mystic.math.measures:impose_collapse#two-phase':
        'def impose_collapse(pairs, samples, weights):\n    samples, weights = (list(samples), list(weights))\n    m = mean(samples, weights)\n    pairs = zip(*tuple((tuple((len(weights) + i if i < 0 else i for i in j)) for j in zip(*pairs))))\n    from mystic.tools import connected\n    pairs = connected(pairs)\n    mass = {}\n    for i, j in pairs.items():\n        v = weights[i]\n        for k in j:\n            v += weights[k]\n        mass[i] = v\n    for i, j in pairs.items():\n        for k in j:\n            weights[k] = type(mass[i])(0.0)\n            samples[k] = samples[i]\n    for i, v in mass.items():\n        weights[i] = v\n    return (impose_mean(m, samples, weights), weights)\n',
    'mystic.math.measures:impose_collapse':
        'def impose_collapse(pairs, samples, weights):\n    samples, weights = (list(samples), list(weights))\n    m = mean(samples, weights)\n    pairs = zip(*tuple((tuple((len(weights) + i if i < 0 else i for i in j)) for j in zip(*pairs))))\n    from mystic.tools import connected\n    pairs = connected(pairs)\n    for i, j in pairs.items():\n        v = weights[i]\n        for k in j:\n            v += weights[k]\n            weights[k] = type(v)(0.0)\n            samples[k] = samples[i]\n        weights[i] = v\n    return (impose_mean(m, samples, weights), weights)\n',
    'mystic.math.measures:normalize':
        "def normalize(weights, mass='l2', zsum=False, zmass=1.0):\n    try:\n        mass = int(mass.lstrip('l'))\n        fixed = False\n    except AttributeError:\n        fixed = True\n    weights = asarray(list(weights))\n    if fixed:\n        from numpy import sum\n        w = sum(abs(weights))\n    else:\n        mass = int(min(200, mass))\n        w = Lnorm(weights, mass)\n        mass = 1.0\n    if not w:\n        if not zsum:\n            return list(weights * 0.0)\n        from numpy import inf, nan\n        weights[weights == 0.0] = nan\n        return list(weights * inf)\n    if float(mass) or not zsum:\n        w = weights / w\n        if not fixed:\n            return list(w)\n        from numpy import sum\n        m = sum(w)\n        w = mass * w\n        if not m:\n            if not zsum:\n                return list(weights * 0.0)\n            from numpy import inf, nan\n            weights[weights == 0.0] = nan\n            return list(weights * inf)\n        return list(w / m)\n    zsum = -1\n    weights[zsum] = -(sum(weights) - weights[zsum])\n    mass = zmass\n    return list(mass * weights / w)\n",
    'mystic.math.measures:impose_weight_norm':
        'def impose_weight_norm(samples, weights, mass=1.0):\n    m = mean(samples, weights)\n    wts = normalize(weights, mass)\n    return (impose_mean(m, samples, wts), wts)\n',
    'mystic.math.measures:impose_sum':
        'def impose_sum(mass, weights, zsum=False, zmass=1.0):\n    return normalize(weights, mass, zsum, zmass)\n',
    'mystic.math.measures:impose_product':
        'def impose_product(mass, weights, zsum=False, zmass=1.0):\n    from numpy import prod as product\n    weights = asarray(list(weights))\n    w = float(product(weights))\n    n = len(weights)\n    if not w:\n        from numpy import inf\n        return list(weights * inf)\n    if float(mass):\n        if w / mass < 0.0:\n            return list(-weights / (-w / mass) ** (1.0 / n))\n        return list(weights / (w / mass) ** (1.0 / n))\n    if not zsum:\n        return list(weights * 0.0)\n    zsum = -1\n    p, weights[zsum] = (weights[zsum], 0.0)\n    w = w / p\n    n = n - 1\n    mass = zmass\n    if w / mass >= 0.0:\n        return list(weights[:-1] / (w / mass) ** (1.0 / n)) + [0.0]\n    return list(-weights[:-1] / (-w / mass) ** (1.0 / n)) + [0.0]\n',
    'mystic.math.distance:Lnorm':
        "def Lnorm(weights, p=1, axis=None):\n    from numpy import asarray, seterr, inf, abs, max, sum, expand_dims\n    weights = asarray(weights, dtype=float)\n    if not p:\n        w = sum(weights != 0.0, dtype=float, axis=axis)\n    elif p == inf:\n        w = max(abs(weights), axis=axis)\n    elif p == -inf:\n        w = min(abs(weights), axis=axis)\n    else:\n        orig = seterr(over='raise', invalid='raise')\n        try:\n            w = sum(abs(weights) ** p, axis=axis) ** (1.0 / p)\n        except FloatingPointError:\n            w = max(abs(weights), axis=axis)\n        seterr(**orig)\n    return w if axis is None or not w.shape else expand_dims(w, axis=axis)\n",
    'mystic.math.distance:chebyshev':
        'def chebyshev(x, xp=None, pair=False, dmin=0, axis=None):\n    d = absolute_distance(x, xp, pair=pair, dmin=dmin)\n    return d.max(axis=axis).astype(float)\n',
    'mystic.math.distance:hamming':
        'def hamming(x, xp=None, pair=False, dmin=0, axis=None):\n    d = absolute_distance(x, xp, pair=pair, dmin=dmin)\n    return d.astype(bool).sum(axis=axis).astype(float)\n',
    'mystic.math.distance:minkowski':
        "def minkowski(x, xp=None, pair=False, dmin=0, p=3, axis=None):\n    from numpy import seterr, inf\n    if p == inf:\n        return chebyshev(x, xp, pair=pair, dmin=dmin, axis=axis)\n    d = absolute_distance(x, xp, pair=pair, dmin=dmin)\n    orig = seterr(over='raise', invalid='raise')\n    try:\n        d = (d ** p).sum(axis=axis) ** (1.0 / p)\n    except FloatingPointError:\n        d = d.max(axis=axis).astype(float)\n    seterr(**orig)\n    return d\n",
    'mystic.math.distance:euclidean':
        'def euclidean(x, xp=None, pair=False, dmin=0, axis=None):\n    return minkowski(x, xp, pair=pair, dmin=dmin, p=2, axis=axis)\n',
    'mystic.math.distance:manhattan':
        'def manhattan(x, xp=None, pair=False, dmin=0, axis=None):\n    return minkowski(x, xp, pair=pair, dmin=dmin, p=1, axis=axis)\n',
    'mystic.math.distance:absolute_distance':
        'def absolute_distance(x, xp=None, pair=False, dmin=0):\n    from numpy import abs, asarray, newaxis as nwxs, zeros_like\n    from numpy import result_type\n    _wide = lambda t: result_type(t, complex if t.kind == \'c\' else float) if t.kind in \'fc\' else float\n    x = asarray(x)\n    x = x.astype(_wide(x.dtype))\n    xp = x if xp is None else asarray(xp)\n    xp = xp.astype(_wide(xp.dtype))\n    xsize = max(len(x.shape), len(xp.shape), dmin)\n    while len(x.shape) < xsize:\n        x = x[nwxs]\n    while len(xp.shape) < xsize:\n        xp = xp[nwxs]\n    if pair:\n        return abs(x.T - xp.T).T\n    xsl = (slice(None),) * xsize + (None,)\n    xpsl = (slice(None),) * max(0, xsize - 1) + (None,)\n    return abs(x.T[xsl] - xp.T[xpsl])\n',
    'mystic.math.measures:support_index':
        'def support_index(weights, tol=0):\n    return [i for i, w in enumerate(weights) if w > tol]\n',
    'mystic.math.measures:support':
        'def support(samples, weights, tol=0):\n    return [samples[i] for i, w in enumerate(weights) if w > tol]\n',
    'mystic.math.measures:expectation':
        'def expectation(f, samples, weights=None, tol=0.0):\n    if weights is None:\n        y = [f(x) for x in samples]\n        return mean(y, weights)\n    from numpy import sum\n    if not sum((abs(w) > tol for w in weights)):\n        yw = ((0.0, 0.0),)\n    else:\n        yw = [(f(x), w) for x, w in zip(samples, weights) if abs(w) > tol]\n    return mean(*zip(*yw))\n',
    'mystic.math.measures:_expected_moment':
        'def _expected_moment(f, samples, weights=None, order=1, tol=0.0):\n    if order < 0:\n        raise NotImplementedError\n    if weights is None:\n        y = [f(x) for x in samples]\n        return moment(y, weights, order)\n    from numpy import sum\n    if not sum([abs(w) > tol for w in weights]):\n        yw = ((0.0, 0.0),)\n    else:\n        yw = [(f(x), w) for x, w in zip(samples, weights) if abs(w) > tol]\n    return moment(*zip(*yw), order=order)\n',
    'mystic.math.measures:expected_variance':
        'def expected_variance(f, samples, weights=None, tol=0.0):\n    return _expected_moment(f, samples, weights, order=2, tol=tol)\n',
    'mystic.math.measures:ess_maximum':
        'def ess_maximum(f, samples, weights=None, tol=0.0):\n    if weights is None:\n        return maximum(f, samples)\n    return maximum(f, support(samples, weights, tol))\n',
    'mystic.math.measures:ess_minimum':
        'def ess_minimum(f, samples, weights=None, tol=0.0):\n    if weights is None:\n        return minimum(f, samples)\n    return minimum(f, support(samples, weights, tol))\n',
    'mystic.math.measures:ess_ptp':
        'def ess_ptp(f, samples, weights=None, tol=0.0):\n    if weights is None:\n        return ptp(f, samples)\n    return ptp(f, support(samples, weights, tol))\n',
    'mystic.math.measures:maximum':
        'def maximum(f, samples):\n    y = [f(x) for x in samples]\n    return max(y)\n',
    'mystic.math.measures:minimum':
        'def minimum(f, samples):\n    y = [f(x) for x in samples]\n    return min(y)\n',
    'mystic.math.measures:ptp':
        'def ptp(f, samples):\n    y = [f(x) for x in samples]\n    return max(y) - min(y)\n',
    'mystic.math.measures:_sort':
        'def _sort(samples, weights=None):\n    import numpy as np\n    if weights is None:\n        x = np.ones((2,len(samples)))\n        x[0] = np.sort(samples)\n        return x\n    x = np.vstack([samples,weights]).T\n    return x[x[:,0].argsort()].T\n',
    'mystic.math.measures:median':
        'def median(samples, weights=None):\n    import numpy as np\n    x, w = _sort(samples, weights)\n    s = sum(w)\n    return np.mean(x[s / 2.0 - np.cumsum(w) <= 0][0:2 - x.size % 2])\n',
    'mystic.math.measures:mad':
        'def mad(samples, weights=None):\n    s = asarray(samples)\n    return median(abs(s - median(samples, weights)), weights)\n',
    'mystic.math.measures:impose_median':
        'def impose_median(m, samples, weights=None):\n    s = asarray(samples)\n    return (s + (m - median(samples, weights))).tolist()\n',
    'mystic.math.measures:impose_mad':
        'def impose_mad(s, samples, weights=None):\n    import numpy as np\n    m = median(samples, weights)\n    samples = np.asarray(list(samples))\n    _mad = mad(samples, weights)\n    if not _mad:\n        return [np.nan] * len(samples)\n    scale = float(s) / _mad\n    samples = samples * scale\n    return impose_median(m, samples, weights)\n',
    'mystic.math.measures:tmean':
        'def tmean(samples, weights=None, k=0, clip=False):\n    samples, weights = _sort(samples, weights)\n    weights = _k(weights, k, clip)\n    return sum(samples * weights) / sum(weights)\n',
    'mystic.math.measures:tvariance':
        'def tvariance(samples, weights=None, k=0, clip=False):\n    samples, weights = _sort(samples, weights)\n    weights = _k(weights, k, clip)\n    trim_mean = sum(samples * weights) / sum(weights)\n    return mean(abs(samples - trim_mean) ** 2, weights)\n',
    'mystic.math.measures:tstd':
        'def tstd(samples, weights=None, k=0, clip=False):\n    import numpy as np\n    return np.sqrt(tvariance(samples, weights, k, clip))\n',
    'mystic.math.measures:impose_tmean':
        'def impose_tmean(m, samples, weights=None, k=0, clip=False):\n    s = asarray(samples)\n    return (s + (m - tmean(samples, weights, k=k, clip=clip))).tolist()\n',
    'mystic.math.measures:impose_tvariance':
        'def impose_tvariance(v, samples, weights=None, k=0, clip=False):\n    import numpy as np\n    m = tmean(samples, weights, k=k, clip=clip)\n    samples = np.asarray(list(samples))\n    tvar = tvariance(samples, weights, k=k, clip=clip)\n    if not tvar:\n        return [np.nan] * len(samples)\n    scale = np.sqrt(float(v) / tvar)\n    samples = samples * scale\n    return impose_tmean(m, samples, weights, k=k, clip=clip)\n',
    'mystic.math.measures:impose_tstd':
        'def impose_tstd(s, samples, weights=None, k=0, clip=False):\n    return impose_tvariance(s ** 2, samples, weights, k=k, clip=clip)\n',
    'mystic.math.measures:impose_support':
        'def impose_support(index, samples, weights):\n    if index is None:\n        index = range(len(weights))\n    index = set((len(weights) + i if i < 0 else i for i in index))\n    m = mean(samples, weights)\n    n = sum(weights)\n    weights = [w if i in index else 0.0 for i, w in enumerate(weights)]\n    weights = normalize(weights, n)\n    return (impose_mean(m, samples, weights), weights)\n',
    'mystic.math.measures:impose_unweighted':
        'def impose_unweighted(index, samples, weights, nullable=True):\n    if index is None:\n        index = ()\n    index = set((len(weights) + i if i < 0 else i for i in index))\n    m = mean(samples, weights)\n    n = sum(weights)\n    _weights = [0.0 if i in index else w for i, w in enumerate(weights)]\n    if not nullable and (not sum(_weights)):\n        _weights = [0.0 if i in index else 1.0 for i, w in enumerate(weights)]\n    weights = normalize(_weights, n)\n    return (impose_mean(m, samples, weights), weights)\n',
}
