"""C16 - constraint transforms land in their target set and leave conforming input alone.

Decided (structure only): the four index-selecting transforms (discrete,
integers, rounded, precision) build the same selection mask (all entries when
no index, exactly the given in-range indices otherwise) and choose(mask,
(original, transformed)) in that order; discrete keeps its sample set sorted on
every path that stores it and picks the nearer of the two bracketing members;
monotonic and sorting agree except for their kernel and copy the input before an
in-place update; the statistics family applies the inner constraints first and
imposes the matching statistic only when it is off target; the input-rewriting
decorators (masked/insert_missing, partial, synchronized, suppressed, clipped)
address exactly the given entries in the documented roles/order.
Round 3: bounded() decides membership on closed intervals, stores only the out-
of-bounds entries restricted to index, and works on a copy.
Round 4: index selections are filtered position by position (repair d3fb023: no
all-or-nothing fancy assignment), bounded converts negative indices (repair
4b664b8) and None bounds row by row; impose_variance / impose_spread return the
samples unchanged only when statistic and target are both zero.
Round 5 (hunt): no float value is stored into an array that inherits the
caller's integer dtype (bounded, impose_at; repairs 37cdcb0, 94e41ab);
synchronized tells tuple-valued entries by type, not by exception (repair
48af035).
Round 6: no function of mystic.constraints / the decorators of mystic.tools
defaults an argument on its truth value; unique draws replacements from a set;
connected keeps absorbed keys.
Review of the repairs: the caller's dtype is kept only if _holds(dtype, values) - the round trip - says it stores the values to be written (C16.o); impose_as ends on a cycle of pairs; suppress casts only when the spread has a fraction.
NOT decided: landing in the target set on concrete vectors, idempotence, the
numerics of impose_bounds / unique.
"""
import ast

from ..core import rule
from ..srcmodel import AnalysisError, walk_no_nested, unparse, norm_stmt, parent
from .. import terms as T
from .. import siblings as SB
from .common import *
from ..paths import enumerate_paths

CN = 'mystic.constraints'
TL = 'mystic.tools'


def _ref(ctx, f, src, construct, what, name_map=None, node=None):
    got = SB.summary(node if node is not None else f.node, name_map=name_map)
    want = SB.summary_of_source(src)
    ctx.stats['terms_compared'] += len(got)
    ctx.check(got == want, construct, what, '%s differs from its documented behaviour: %s' % (construct, SB.diff(got, want)), f, f.node)


MASK_REF = '''def blk():
    if index[0] is None:
        mask = ones(T_.size, dtype=bool)
    else:
        mask = zeros(T_.size, dtype=bool)
        mask[[i for i in index[0] if -mask.size <= i < mask.size]] = True
    return mask
'''


@rule('C16.a', min_instances=8)
def index_mask_idiom(ctx):
    """discrete/integers/rounded/precision: mask = all entries if index is None else exactly the given in-range indices; result = choose(mask, (original, transformed))"""
    want = SB.summary_of_source(MASK_REF)
    for name, orig, trans in (('discrete', 'x', 'xp'), ('integers', 'x', 'xp'), ('rounded', 'x', 'xp'), ('precision', 'fx', 'y')):
        f = ctx.func('%s:%s.dec.func' % (CN, name))
        ifs = [s for s in f.node.body if isinstance(s, ast.If) and ''.join(unparse(s.test).split()) in ('index[0]isNone', 'index[0]isnotNone')]
        ctx.need(ifs, '%s: mask selection not found' % name)
        blk = SB.block([ifs[0], ast.parse('return mask').body[0]])
        got = SB.summary(blk, name_map={trans: 'T_'})
        ctx.stats['terms_compared'] += len(got)
        ctx.check(got == want, name + '#mask', 'all entries when index is None, else exactly the given in-range indices',
                  '%s selects its entries differently from its siblings: %s' % (name, SB.diff(got, want)), f, ifs[0])
        # numpy performs a fancy-index assignment all or nothing: under `except IndexError: pass` a single out-of-range index
        # would leave the mask empty, i.e. switch the whole selection off
        atomic = [t_ for t_ in ast.walk(ifs[0]) if isinstance(t_, ast.Try) and any(h.type is not None and 'IndexError' in unparse(h.type) for h in t_.handlers)
                  and any(isinstance(s_, ast.Assign) and isinstance(s_.targets[0], ast.Subscript) and not isinstance(s_.targets[0].slice, (ast.Name, ast.Constant, ast.UnaryOp))
                          for s_ in t_.body)]
        ctx.check(not atomic, name + '#mask-atomic', 'the selected positions are filtered, not assigned all-or-nothing under except IndexError',
                  '%s builds its mask with one fancy-index assignment inside try/except IndexError: one out-of-range index leaves the mask empty, so the in-range indices given with it are not transformed either' % name,
                  f, atomic[0] if atomic else ifs[0], statement='mask[<indices>] = True under except IndexError')
        ch = calls_where(f.node, lambda c: callee_text(c) == 'choose')
        ctx.need(ch, '%s: choose(...) not found' % name)
        a = ch[0].args
        good = len(a) == 2 and unparse(a[0]) == 'mask' and isinstance(a[1], ast.Tuple) and [unparse(e) for e in a[1].elts] == [orig, trans]
        ctx.check(good, name + '#choose', 'choose(mask, (%s, %s)): unselected entries keep the original' % (orig, trans),
                  '%s combines original and transformed values as %s' % (name, unparse(ch[0])), f, ch[0])
        # nothing lossy may be applied to the *whole* vector after the selection: a cast to a caller-selectable type
        # (astype(int)) would also change the unselected entries
        par = parent(ch[0])
        cast = None
        while par is not None and not isinstance(par, ast.stmt):
            if isinstance(par, ast.Call) and isinstance(par.func, ast.Attribute) and par.func.attr == 'astype':
                tgt_t = unparse(par.args[0]) if par.args else ''
                if tgt_t not in ('float', "'float64'", 'float64', "'float'"):
                    cast = par
            par = parent(par)
        ctx.check(cast is None, name + '#whole-vector-cast', 'the selected result is not cast as a whole (unselected entries stay as given)',
                  '%s casts the whole vector with .astype(%s) after the selection: unselected entries are truncated too when the type is int'
                  % (name, unparse(cast.args[0]) if cast is not None and cast.args else ''), f, cast if cast is not None else ch[0],
                  statement='choose(...).astype(%s)' % (unparse(cast.args[0]) if cast is not None and cast.args else ''))


@rule('C16.b', min_instances=5)
def discrete_nearest_member(ctx):
    """discrete: the sample set is sorted wherever it is stored; a value maps to the nearer of its two bracketing members"""
    outer = ctx.func(CN + ':discrete')
    # every store to samples[0] (and the initial binding) is followed/preceded by a sort of that array
    b = outer.node.body
    init = [s for s in b if isinstance(s, ast.Assign) and isinstance(s.targets[0], ast.Name) and s.targets[0].id == 'samples']
    ctx.need(init, 'discrete: samples binding not found')
    nxt = b[b.index(init[0]) + 1] if b.index(init[0]) + 1 < len(b) else None
    ctx.check(nxt is not None and ''.join(unparse(nxt).split()) == 'samples[0].sort()', 'discrete#sorted-init', 'samples sorted at construction',
              'the sample set is not sorted at construction', outer, init[0])
    pts = ctx.func(CN + ':discrete._points')
    stores = [s for s in stmts_of(pts.node) if isinstance(s, ast.Assign) and ''.join(unparse(s.targets[0]).split()) == 'samples[0]']
    ctx.need(stores, 'discrete._points: store not found')
    for s_ in stores:
        v = unparse(s_.value)
        sorts = [c for c in calls_where(pts.node, lambda c: isinstance(c.func, ast.Attribute) and c.func.attr == 'sort' and unparse(c.func.value) == v) if c.lineno < s_.lineno]
        sorted_expr = isinstance(s_.value, ast.Call) and callee_text(s_.value) in ('sorted', 'sort', 'numpy.sort')
        ctx.check(bool(sorts) or sorted_expr, 'discrete._points#sorted', 'a replaced sample set is sorted before it is stored',
                  'samples(...) stores the new sample set unsorted: the bracketing search then snaps to a non-nearest member', pts, s_)
    _ref(ctx, ctx.func(CN + ':discrete._argnear'), '''def _argnear(xi):
    arghi = sum(xi > samples[0])
    arglo = max(0, arghi - 1)
    if arghi == len(samples[0]):
        arghi = arglo
    return arglo, arghi
''', 'discrete._argnear', 'bracketing members: count of samples below xi, clamped at both ends')
    _ref(ctx, ctx.func(CN + ':discrete._near'), 'def _near(xi, lo, hi):\n    if hi - xi < xi - lo:\n        return hi\n    return lo\n',
         'discrete._near', 'the nearer of (lo, hi); ties go to lo')
    f = ctx.func(CN + ':discrete.dec.func')
    src = ''.join(unparse(f.node).split())
    ctx.check('arglo,arghi=argnear(x)' in src.replace('(arglo,arghi)', 'arglo,arghi') and 'xp=near(x,samples[0][arglo],samples[0][arghi])' in src, 'discrete.func#nearest',
              'xp = near(x, samples[arglo], samples[arghi])', 'discrete no longer maps to the nearer bracketing member', f, f.node)


@rule('C16.c', min_instances=4)
def order_siblings(ctx):
    """monotonic and sorting are identical except for their kernel; both copy the input before the in-place indexed update"""
    for part in ('dec.func', None):
        if part:
            a = ctx.func('%s:monotonic.%s' % (CN, part))
            b = ctx.func('%s:sorting.%s' % (CN, part))
            sa, sb = SB.summary(a.node, name_map={'_imono': 'K'}), SB.summary(b.node, name_map={'_isort': 'K'})
        else:
            a = ctx.func(CN + ':monotonic._imono')
            b = ctx.func(CN + ':sorting._isort')
            sa, sb = SB.summary(a.node, name_map={'_mono': 'k'}), SB.summary(b.node, name_map={'_sort': 'k'})
        ctx.stats['terms_compared'] += len(sa)
        ctx.check(sa == sb, 'monotonic~sorting#%s' % (part or 'indexed'), 'siblings agree (%d paths)' % len(sa),
                  'monotonic and sorting no longer agree on their %s: %s' % (part or 'indexed update', SB.diff(sa, sb)), a, a.node)
    _ref(ctx, ctx.func(CN + ':monotonic._mono'), '''def _mono(x, ascending=True):
    if not hasattr(x, '__len__'): return x
    if isinstance(x, ndarray): xtype = asarray
    else: xtype = type(x)
    fun = maximum.accumulate if ascending else minimum.accumulate
    return xtype(fun(x))
''', 'monotonic._mono', 'running maximum (ascending) / running minimum (descending)')
    _ref(ctx, ctx.func(CN + ':sorting._sort'), '''def _sort(x, ascending=True):
    if not hasattr(x, '__len__'): return x
    if isinstance(x, ndarray): xtype = asarray
    else: xtype = type(x)
    return xtype(sorted(x, reverse=(not ascending)))
''', 'sorting._sort', 'sorted ascending / descending')
    f = ctx.func(CN + ':monotonic.dec.func')
    cp = [s for s in walk_no_nested(f.node) if isinstance(s, ast.If) and ''.join(unparse(s.test).split()) == 'index[0]isnotNone']
    ctx.check(bool(cp) and 'x=x.copy()' in ''.join(unparse(cp[0]).split()) and 'x=copy.copy(x)' in ''.join(unparse(cp[0]).split()), 'monotonic.func#copy',
              'the input is copied before the in-place indexed update', 'the indexed update now writes into the caller\'s vector', f, cp[0] if cp else f.node)


FAMILY = {'with_mean': ('mean(x)', 'target', 'impose_mean(target, x)'), 'with_variance': ('variance(x)', 'target', 'impose_variance(target, x)'),
          'with_spread': ('spread(x)', 'target', 'impose_spread(target, x)'), 'normalized': ('sum(x)', 'mass', 'normalize(x, mass=mass)')}


@rule('C16.d', min_instances=5)
def statistics_family(ctx):
    """with_mean/with_variance/with_spread/normalized: inner constraints first, then impose the matching statistic only when it is not already on target"""
    for name, (stat, tgt, imp) in FAMILY.items():
        f = ctx.func('%s:%s.decorate.factory' % (CN, name))
        _ref(ctx, f, '''def factory(x, *args, **kwds):
    x = constraints(x, *args, **kwds)
    if not almostEqual(%s, %s):
        x = %s
    return x
''' % (stat, tgt, imp), name, 'x = c(x); if %s is off %s: x = %s' % (stat, tgt, imp))
    g = ctx.func(CN + ':with_std')
    r = [s for s in g.node.body if isinstance(s, ast.Return)]
    ctx.check(bool(r) and t(r[0].value) == T.term(ast.parse('with_variance(target**2)', mode='eval').body), 'with_std', 'std target = variance target**2',
              'with_std returns %s' % (unparse(r[0].value) if r else None), g, g.node)


@rule('C16.e', min_instances=8)
def input_rewriting(ctx):
    """insert_missing inserts in ascending position order; masked/partial/synchronized/suppressed/clipped address exactly the given entries in the documented roles"""
    f = ctx.func(TL + ':insert_missing')
    loops = [n for n in f.node.body if isinstance(n, ast.For)]
    ctx.need(loops, 'insert_missing: insertion loop not found')
    lp = loops[-1]
    it = t(lp.iter)
    asc = it == T.term(ast.parse('sorted(_mask.items())', mode='eval').body) or it == T.term(ast.parse('sorted(_mask.items(), key=lambda kv: kv[0])', mode='eval').body)
    body = ''.join(unparse(ast.Module(body=lp.body, type_ignores=[])).split())
    tgt = [n.id for n in ast.walk(lp.target) if isinstance(n, ast.Name)]
    ctx.check(asc and len(tgt) == 2 and body == '_x.insert(%s,%s)' % (tgt[0], tgt[1]), 'insert_missing#ascending',
              'values inserted at their final positions in ascending key order', 'insert_missing inserts over %s: a later insertion shifts an earlier one off its position' % unparse(lp.iter), f, lp)
    chk = [s for s in f.node.body if isinstance(s, ast.If) and any(isinstance(x, ast.Raise) for x in s.body)]
    ctx.check(len(chk) >= 2, 'insert_missing#bounds', 'negative and too-large positions are rejected', 'insert_missing no longer validates positions', f, f.node)
    _ref(ctx, ctx.func(TL + ':masked.dec.func'), 'def func(x, *args, **kwds):\n    return f(insert_missing(x, mask), *args, **kwds)\n', 'masked', 'f(insert_missing(x, mask))')
    _ref(ctx, ctx.func(TL + ':partial.dec.func'), '''def func(x, *args, **kwds):
    for i,j in mask.items():
        try: x[i] = j
        except IndexError: pass
    return f(x, *args, **kwds)
''', 'partial', 'x[i] = value for every (i, value) of the mask')
    _ref(ctx, ctx.func(TL + ':synchronized.dec.func'), '''def func(x, *args, **kwds):
    for i,j in mask.items():
        try: x[i] = x[j]
        except (TypeError, IndexError) as err:
          if not isinstance(j, tuple):
            if isinstance(err, TypeError): raise
            continue
          j0,j1 = (j[:2] + (1,))[:2]
          try: x[i] = j1(x[j0]) if isinstance(j1, _Callable) else j1*x[j0]
          except IndexError: pass
    return f(x, *args, **kwds)
''', 'synchronized', 'x[i] = x[j] (or scaled) for every (i, j) of the mask')
    _ref(ctx, ctx.func(TL + ':suppress'), '''def suppress(x, tol=1e-8, clip=True):
    x = asarray(list(x))
    mask = abs(x) < tol
    if not clip and x[mask].any() and not mask.all():
        if x.dtype.kind in 'iub': x = x.astype(float)
        x[mask==False] = (x + sum(x[mask])/(len(mask)-sum(mask)))[mask==False]
    x[mask] = 0.0
    return x.tolist()
''', 'suppress', 'entries with |x| < tol are zeroed (their sum spread over the others when not clipping)')
    for name, inner in (('suppressed', 'suppress({0}, tol, clip)'), ('clipped', 'clip({0}, min, max).tolist()')):
        fe = ctx.func('%s:%s.dec.func' % (TL, name))
        fi = ctx.func('%s:%s.dec.func#2' % (TL, name))
        dec = ctx.func('%s:%s.dec' % (TL, name))
        sel = [s for s in dec.node.body if isinstance(s, ast.If)]
        ctx.check(bool(sel) and unparse(sel[0].test) == 'exit' and fe.node in sel[0].body and fi.node in sel[0].orelse, name + '#placement',
                  'exit=True transforms the output, otherwise the input', '%s applies its transform on the wrong side' % name, dec, sel[0] if sel else dec.node)
        _ref(ctx, fe, 'def func(x, *args, **kwds):\n    return %s\n' % inner.format('f(x, *args, **kwds)'), name + '[exit]', 'output transformed')
        _ref(ctx, fi, 'def func(x, *args, **kwds):\n    return f(%s, *args, **kwds)\n' % inner.format('x'), name + '[entry]', 'input transformed')


C16_ENTRIES = [CN + ':' + n for n in ('impose_bounds', 'bounded', 'discrete', 'integers', 'rounded', 'precision', 'unique', 'impose_unique',
                                      'monotonic', 'sorting', 'impose_at', 'impose_as', 'with_mean', 'with_variance', 'with_spread', 'normalized')] + \
              [TL + ':' + n for n in ('insert_missing', 'masked', 'partial', 'synchronized', 'suppress', 'suppressed', 'clipped', 'connected')]


@rule('C16.f', min_instances=3)
def numpy_reductions_get_arrays(ctx):
    """resolved callees: no numpy reduction reachable from a constraint transform is handed a generator expression (`from numpy import sum` shadows the builtin in constraints.py; numpy.sum(<generator>) raises, so the transform would fail on every input)"""
    from . import npcalls
    npcalls.check_closure(ctx, C16_ENTRIES, min_sites=3)


@rule('C16.g', min_instances=3)
def pinning_tracking_and_normalisation(ctx):
    """impose_at stores the target itself at the selected in-range indices and impose_as copies x[i] into each tracked partner and adds the offset once per tracked index, both on a copy (shared with C11.f); normalized() reaches its total through measures.normalize, which keeps its confirmed scaling (weights / norm * mass with the zero-sum handling; shared with C18.e)"""
    from .c11 import exact_imposition
    exact_imposition(ctx)
    from .c18_refs import REFS
    a = 'mystic.math.measures:normalize'
    f = ctx.func(a)
    got, want = SB.agree(f.node, REFS[a], strict_casts=True)
    ctx.stats['terms_compared'] += len(got)
    ctx.check(got == want, 'normalize', 'weights / norm * mass, zero-sum handling',
              'normalize (behind the normalized() constraint) differs from its definition: %s' % SB.diff(got, want), f, f.node)


@rule('C16.h', min_instances=4)
def bounded_membership_and_addressing(ctx):
    """bounded(): an entry is out of bounds exactly when it lies in none of the CLOSED intervals (lo <= v and v <= hi, so an entry at an interval end is already in the target set and is left alone); only the out-of-bounds entries restricted to `index` are ever stored; the work is done on a copy (numpy.array) of the input"""
    f = ctx.func(CN + ':bounded')
    params = [a.arg for a in f.node.args.args]
    ctx.need(params[:3] == ['seq', 'bounds', 'index'], 'bounded signature changed')
    SEQ, IDX = ('name', 'seq'), ('name', 'index')
    b = T.Builder()
    at_first = None
    stores = []
    copied = None
    top = set(id(x) for x in f.node.body)
    for st in stmts_of(f.node):
        if isinstance(st, ast.Assign) and len(st.targets) == 1:
            tg = st.targets[0]
            if isinstance(tg, ast.Name) and tg.id == 'seq' and copied is None:
                v = st.value
                copied = isinstance(v, ast.Call) and callee_text(v) in ('array', 'numpy.array', 'np.array') and \
                    not any(k.arg == 'copy' and const_value(k.value) is False for k in v.keywords) and \
                    len(v.args) >= 1 and isinstance(v.args[0], ast.Name) and v.args[0].id == 'seq'
                ctx.check(copied, 'bounded#copy', 'seq = array(seq) (a copy) before any store', 'bounded no longer copies its input before writing into it: %s' % norm_stmt(st), f, st)
                continue
            if isinstance(tg, ast.Name) and tg.id == 'at' and at_first is None:
                at_first = (st, T.simp(b.t(st.value)))
            if isinstance(tg, ast.Subscript) and isinstance(tg.value, ast.Name) and tg.value.id == 'seq':
                stores.append((st, T.simp(T.term(tg.slice))))
                continue
        # parameters stay symbolic (their normalisations - index = (index,), bounds = asarray(bounds).T - keep their meaning);
        # only unguarded plain locals are substituted
        if id(st) in top and isinstance(st, ast.Assign) and len(st.targets) == 1 and isinstance(st.targets[0], ast.Name) and st.targets[0].id not in params:
            b.exec_stmt(st)
    # None bounds (nan after the float conversion) become -inf in the lower row and +inf in the upper row: each replacement
    # selects the row it writes with that row's own nan mask
    cb = T.Builder()
    nanfix = []
    for st in f.node.body:
        if isinstance(st, ast.Assign) and len(st.targets) == 1 and isinstance(st.targets[0], ast.Subscript):
            tg = T.simp(cb.t(st.targets[0]))
            if tg[0] == 'sub' and tg[2][0] == 'call' and T.show(tg[2][1]).endswith('isnan'):
                nanfix.append((st, tg[1], tg[2][2][0] if tg[2][2] else None, T.simp(cb.t(st.value))))
        elif isinstance(st, ast.Assign) and all(isinstance(x, (ast.Name, ast.Tuple)) for x in st.targets) and not any(
                isinstance(x, ast.Name) and x.id in params for tg_ in st.targets for x in ast.walk(tg_)):
            cb.exec_stmt(st)
    ctx.need(len(nanfix) == 2, 'bounded: expected two None-to-infinity replacements, found %d' % len(nanfix))
    B = ('name', 'bounds')
    rows = {}
    for st, row, maskrow, val in nanfix:
        ctx.check(row == maskrow, 'bounded#none-mask', 'row[isnan(row)] = ...: the mask of the row that is written',
                  'bounded replaces the nan entries of %s selected by the nan mask of %s: a None bound in one row is not converted (the coordinate comes out nan)'
                  % (T.show(row)[:30], T.show(maskrow)[:30] if maskrow else None), f, st)
        rows[row] = val
    minus_inf = T.simp(T.term(ast.parse('-inf', mode='eval').body))
    ctx.check(rows.get(('sub', B, T.num(0))) == minus_inf and rows.get(('sub', B, T.num(1))) == ('name', 'inf'), 'bounded#none-values', 'None lower bound -> -inf, None upper bound -> inf',
              'bounded converts missing bounds to %s' % {T.show(k): T.show(v) for k, v in rows.items()}, f, nanfix[0][0])
    ctx.need(copied is not None, 'bounded: seq is never rebound to a copy')
    ctx.need(at_first is not None, 'bounded: no out-of-bounds index set `at`')
    st0, at0 = at_first
    lo_ok = hi_ok = strict = False
    for sub in T.subterms(at0):
        if isinstance(sub, tuple) and sub and sub[0] == 'cmp' and SEQ in sub[2:]:
            other = sub[3] if sub[2] == SEQ else sub[2]
            if sub[1] == '<':
                strict = True
            if sub[1] == '<=' and sub[3] == SEQ and other == ('name', '_b0'):
                lo_ok = True
            if sub[1] == '<=' and sub[2] == SEQ and other == ('name', '_b1'):
                hi_ok = True
    conj = any(isinstance(sub, tuple) and sub and sub[0] in ('bitand', 'and') and len(sub) == 3 and all(isinstance(x, tuple) and x[0] == 'cmp' for x in sub[1:])
               for sub in T.subterms(at0))
    over = any(isinstance(sub, tuple) and sub and sub[0] in ('listcomp', 'genexp') and len(sub) > 2 and any(
        g[0] == ('tuple', ('name', '_b0'), ('name', '_b1')) and g[1] == ('attr', ('name', 'bounds'), 'T') for g in sub[2]) for sub in T.subterms(at0))
    ctx.stats['terms_compared'] += 1
    ctx.check(lo_ok and hi_ok and conj and over and not strict, 'bounded#membership', 'in an interval iff (lo <= v) & (v <= hi) for (lo, hi) in bounds.T',
              'bounded decides membership with %s: an entry on an interval end is no longer "inside" (it is re-drawn or moved to another interval)' % T.show(at0)[:200], f, st0)
    negated = at0[0] == 'sub' and at0[1][0] == 'call' and T.show(at0[1][1]) == 'where' and at0[1][2] and at0[1][2][0][0] == 'cmp' and \
        at0[1][2][0][1] == '==' and ('const', False) in at0[1][2][0][2:]
    ctx.check(negated, 'bounded#outside', 'at = where(<in some interval> == False)', 'the out-of-bounds set is no longer the complement of the union of intervals: %s' % T.show(at0)[:200], f, st0)
    # the set that is finally written: `at` as it stands before the first store, folded over the index test.  With index
    # None it is the out-of-bounds set; otherwise intersect1d(<out of bounds>, <positions>), where the positions are
    # computed from `index` alone and negative indices are converted (intersect1d compares raw values: index itself
    # would never match a negative entry)
    ctx.need(len(stores) >= 4, 'bounded: expected >= 4 stores into seq, found %d' % len(stores))
    first_store = min(st.lineno for st, ix in stores)
    pre = [st for st in f.node.body if st.lineno < first_store and st.lineno >= st0.lineno]
    # only the statements that can still change `at`: what follows its last binding (the dtype widening of seq) is not part of the index set
    binds_at = [k_ for k_, st in enumerate(pre) if any(isinstance(x, ast.Name) and x.id == 'at' and isinstance(x.ctx, ast.Store) for x in ast.walk(st))]
    if binds_at:
        pre = pre[:binds_at[-1] + 1]
    AT = combined_value(pre, 'at')
    ctx.need(AT is not None, 'bounded: the written index set is not bound on every path')
    is_none = T.mk_cmp('is', IDX, ('const', None))
    cases = []
    for cl, leaf in T.cases(AT):
        cases.append((decided(is_none, list(cl)), leaf))
    ok_none = [leaf for d_, leaf in cases if d_ is True]
    ok_some = [leaf for d_, leaf in cases if d_ is False]
    undec = [leaf for d_, leaf in cases if d_ is None]
    good = bool(ok_none) and bool(ok_some) and not undec and all(leaf == at0 for leaf in ok_none)
    pos_ok = True
    raw = False
    for leaf in ok_some:
        if not (leaf[0] == 'call' and T.show(leaf[1]) == 'intersect1d' and len(leaf[2]) == 2 and leaf[2][0] == at0):
            good = False
            continue
        P = leaf[2][1]
        names_in = set(x[1] for x in T.subterms(P) if isinstance(x, tuple) and len(x) == 2 and x[0] == 'name')
        if P == IDX:
            raw = True
        elif not (names_in <= {'index', 'seq', 'len', '_b0', 'n', 'range'} and 'index' in names_in):
            pos_ok = False
    ctx.stats['terms_compared'] += len(cases)
    ctx.check(good and pos_ok, 'bounded#selected', 'written set = out-of-bounds entries when index is None, else intersect1d(out-of-bounds, positions computed from index)',
              'bounded writes the entries %s' % T.show(AT)[:200], f, st0)
    ctx.check(not raw, 'bounded#negative-index', 'negative indices are converted to positions before the intersection',
              'bounded intersects the out-of-bounds positions with the raw index values: a negative index never matches a position, so impose_bounds(..., index=(-1,)) leaves the last entry unclipped',
              f, st0, statement='intersect1d(at, index) on raw index values')
    for st, ix in stores:
        ctx.stats['terms_compared'] += 1
        ctx.check(ix == ('name', 'at') or ix == AT, 'bounded#store', 'seq[at] = ... (the restricted out-of-bounds set)',
                  'bounded stores into seq[%s]: entries that are inside their interval or not selected by index are rewritten' % T.show(ix)[:120], f, st)


@rule('C16.i', min_instances=3)
def statistic_transforms_hit_zero_targets_too(ctx):
    """with_mean / with_variance / with_spread reach their target through impose_mean / impose_variance / impose_spread, which keep their affine constructions AND their case analysis: the samples come back unchanged only when both the statistic and the target are zero, nan only for degenerate samples - a zero target on ordinary samples must collapse them (shared with C18.b)"""
    from .c18 import affine_shape
    affine_shape(ctx)


def connected_unites_groups(ctx):
    """tools.connected (behind impose_as and impose_collapse) turns pairs into groups {key: members}: a pair that touches several
    existing groups must unite them, and a key never sits in its own member set.  Structural necessary conditions: the scan over
    the existing groups is not cut short at the first hit (no `break` in a loop over the groups, or all hits are collected), and
    the key is removed from / never added to its own member set.  Shared by C16.j, C11.l, C18.h."""
    f = ctx.func('mystic.tools:connected')
    groups = None
    for st in f.node.body:
        if isinstance(st, ast.Assign) and len(st.targets) == 1 and isinstance(st.targets[0], ast.Name) and isinstance(st.value, ast.Dict) and not st.value.keys:
            groups = st.targets[0].id
    ctx.need(groups, 'connected: the groups dict is not found')
    outer = [n for n in f.node.body if isinstance(n, ast.For)]
    ctx.need(outer, 'connected: no loop over the pairs')
    scans = [n for n in ast.walk(outer[0]) if isinstance(n, ast.For) and n is not outer[0] and groups in unparse(n.iter)]
    cut = [b_ for n in scans for b_ in ast.walk(n) if isinstance(b_, ast.Break)]
    collected = [n for n in ast.walk(outer[0]) if isinstance(n, (ast.ListComp, ast.GeneratorExp, ast.SetComp)) and any(groups in unparse(g.iter) for g in n.generators)]
    ctx.check(not cut and (bool(collected) or bool(scans)), 'connected#all-groups', 'every group a pair touches is found (the scan over the groups is not cut at the first hit)',
              'connected stops scanning the existing groups at the first one that contains a member of the pair: a pair that links two groups leaves them separate, so impose_as ties only part of a chain and the result depends on the order of the pairs',
              f, cut[0] if cut else outer[0], statement='break at the first group that contains a member of the pair')
    merges = [c for c in ast.walk(outer[0]) if isinstance(c, ast.Call) and isinstance(c.func, ast.Attribute) and c.func.attr == 'pop' and unparse(c.func.value) == groups]
    ctx.check(bool(merges), 'connected#merge', 'groups linked by a pair are merged (the absorbed group is removed)',
              'connected never merges two groups', f, outer[0], statement='no merge of groups')
    # the absorbed group's KEY becomes a member of the surviving group: it is a parameter index like any other (a pair may reach the group
    # through one of its members, so the key is not necessarily one of the pair)
    for mg in merges:
        lp = parent(mg)
        while lp is not None and not isinstance(lp, ast.For):
            lp = parent(lp)
        if lp is None or lp is outer[0] or not isinstance(lp.target, ast.Name):
            continue
        key = lp.target.id
        kept = [c for st in lp.body for c in ast.walk(st) if isinstance(c, ast.Call) and isinstance(c.func, ast.Attribute) and c.func.attr in ('add', 'update', 'union')
                and any(isinstance(x, ast.Name) and x.id == key for a in c.args for x in ast.walk(a) if not (isinstance(a, ast.Call) and isinstance(a.func, ast.Attribute) and a.func.attr == 'pop'))]
        ctx.check(bool(kept), 'connected#absorbed-key', 'the key of an absorbed group joins the members of the surviving group',
                  'connected merges the members of an absorbed group but drops its key `%s`: with the pairs (0,1),(2,3),(1,3) index 2 is lost, so impose_as / impose_collapse leave a connected parameter untied' % key,
                  f, lp, statement='absorbed key not added')
    selfless = [c for c in ast.walk(outer[0]) if (isinstance(c, ast.Call) and isinstance(c.func, ast.Attribute) and c.func.attr in ('discard', 'remove')) or
                (isinstance(c, ast.BinOp) and isinstance(c.op, ast.Sub))]
    ctx.check(len(selfless) >= 2, 'connected#key-not-member', 'the key of a group is kept out of its own member set (new group and extended group)',
              'connected can put the key of a group into its own member set ((0,3),(3,0) or (1,1)): impose_collapse then counts that weight twice and total weight is not preserved',
              f, outer[0], statement='key may be a member of its own group')


@rule('C16.j', min_instances=3)
def tracked_chains_are_tied_as_a_whole(ctx):
    """impose_as ties x[k] to its tracked partner through tools.connected: chains of pairs given in any order form ONE group, so every partner in the chain ends up equal (+offset) whatever the order of the pairs"""
    connected_unites_groups(ctx)


def _array_of_param(v, params):
    """array(p) / asarray(p) / asarray(list(p)) of a parameter, without a dtype: keeps the (possibly integer) dtype of the input"""
    if isinstance(v, ast.Call) and isinstance(v.func, ast.Attribute) and v.func.attr == 'astype' and _array_of_param(v.func.value, params):
        return 'float'        # array(p).astype(...): widened where it is made
    if not (isinstance(v, ast.Call) and (v.func.id if isinstance(v.func, ast.Name) else getattr(v.func, 'attr', '')) in ('array', 'asarray') and v.args):
        return None
    a = v.args[0]
    if isinstance(a, ast.Call) and isinstance(a.func, ast.Name) and a.func.id in ('list', 'tuple') and a.args:
        a = a.args[0]
    if not (isinstance(a, ast.Name) and a.id in params):
        return None
    dt = [k.value for k in v.keywords if k.arg == 'dtype'] + list(v.args[1:2])
    return 'float' if dt and ('float' in unparse(dt[0])) else 'input'


@rule('C16.k', min_instances=6)
def float_values_are_not_stored_into_an_integer_array(ctx):
    """bounded (behind impose_bounds) and impose_at write computed values - an interval end, a draw inside an interval, the pinned target - into an array made from the caller's vector; made with array(x) / asarray(list(x)) that array has the caller's dtype, and numpy silently truncates a float stored into an integer array (impose_bounds((0.5, 5.5)) on [0, 3, 10] gave [0, 3, 5]: outside the interval). On every path to such a store the array has been widened first: created with dtype=float, or re-bound through .astype(...) (possibly under a test of its dtype)"""
    n = 0
    for anchor in (CN + ':bounded', CN + ':impose_at.dec.func', TL + ':suppress'):
        f = ctx.func(anchor)
        params = set(f.args())
        made = {}
        for st in stmts_of(f.node):
            if isinstance(st, ast.Assign) and len(st.targets) == 1 and isinstance(st.targets[0], ast.Name):
                k = _array_of_param(st.value, params)
                if k:
                    made[st.targets[0].id] = (st, k)
        ctx.need(made, '%s: the working array made from the input is not found' % f.qualname)
        for A, (s0, kind) in sorted(made.items()):
            stores = [st for st in stmts_of(f.node) if isinstance(st, ast.Assign) and len(st.targets) == 1 and isinstance(st.targets[0], ast.Subscript)
                      and isinstance(st.targets[0].value, ast.Name) and st.targets[0].value.id == A
                      # (a whole-number constant - x[mask] = 0.0 - is exact in every dtype)
                      and not (isinstance(st.value, ast.Constant) and isinstance(st.value.value, (int, float)) and not isinstance(st.value.value, bool) and float(st.value.value).is_integer())]

            def widens(node):
                return isinstance(node, ast.Assign) and len(node.targets) == 1 and isinstance(node.targets[0], ast.Name) and node.targets[0].id == A and \
                    isinstance(node.value, ast.Call) and isinstance(node.value.func, ast.Attribute) and node.value.func.attr == 'astype' and unparse(node.value.func.value) == A

            def rel(x):
                return x in stores or widens(x) or x is s0
            paths = [p for p in enumerate_paths(f.node, relevant=rel, unroll=(0, 1)) if p.exit != 'raise']
            ctx.stats['paths_enumerated'] += len(paths)
            for st in stores:
                n += 1
                bad = None
                for p in paths:
                    wide = kind == 'float'
                    for e in p.events:
                        if e[0] == 'cond' and (A + '.dtype') in unparse(e[1]):
                            wide = True        # the widening is conditional on the dtype: the other branch is "already wide enough"
                        if e[0] in ('stmt', 'partial'):
                            if e[1] is s0:
                                wide = kind == 'float'
                            elif widens(e[1]):
                                wide = True
                            elif e[1] is st and not wide:
                                bad = p
                                break
                    if bad:
                        break
                ctx.check(bad is None, '%s#%s' % (f.qualname, ' '.join(unparse(st.targets[0]).split())[:40]), 'stored into an array that was widened first',
                          '%s stores computed values into %s, an array with the dtype of the caller\'s vector: for integer input a float bound / draw / target is truncated (impose_bounds((0.5, 5.5)) on [0, 3, 10] lands outside the interval)'
                          % (f.qualname, A), f, st)
    ctx.need(n >= 6, 'expected >= 6 stores into the working arrays of bounded / impose_at, found %d' % n)


@rule('C16.l', min_instances=40)
def no_setting_is_decided_by_its_truth_value(ctx):
    """the transforms take numeric settings for which 0 is an ordinary value (a bound of 0, an index 0, a target 0.0, an offset 0): no function of mystic.constraints or of the input-rewriting decorators in mystic.tools replaces an argument by a default on the argument's truth value (`min = min or -inf`, `if not target: ...`) - only `is None` decides that an argument was not given; positive control on a synthetic function"""
    probe = ast.parse('def clipped(min=None, max=None):\n    min = min or -1\n    if not max: max = 1\n    return [i or 0 for i in min]\n').body[0]
    ctx.need(len(truthiness_defaults(probe)) == 3, 'truthiness-default detector lost its positive control')
    n = 0
    for mod in (CN, TL):
        m = ctx.model.modules[mod]
        for q, fi in sorted(m.funcs.items()):
            if fi.parent is not None and not isinstance(fi.node, ast.FunctionDef):
                continue
            n += 1
            found = truthiness_defaults(fi.node) if fi.parent is None else []
            ctx.touch(fi)
            for p, node in found:
                ctx.bad('%s#%s-by-truthiness' % (fi.qualname, p), '%s decides that its argument `%s` was not given by the argument\'s truth value (%s): a setting of 0 / 0.0 is replaced by the default - '
                        'e.g. a bound of 0 is treated as no bound and entries beyond it pass unchanged' % (fi.qualname, p, norm_stmt(node)[:70]), fi, node)
            if not found:
                ctx.ok('%s#defaults' % fi.qualname, 'no argument is defaulted on its truth value', fi, fi.node)
    ctx.need(n >= 40, 'expected >= 40 functions in mystic.constraints / mystic.tools, found %d' % n)


@rule('C16.m', min_instances=2)
def unique_draws_replacements_from_a_set(ctx):
    """unique() replaces repeated entries by values popped from a shuffled pool: the pool is built as a SET difference (allowed values minus the values already present), so it holds each candidate once - a pool that keeps the repetitions of the allowed collection can hand out the same value twice and the result is not pairwise distinct"""
    f = ctx.func(CN + ':unique')
    popped = set(c.func.value.id for c in ast.walk(f.node) if isinstance(c, ast.Call) and isinstance(c.func, ast.Attribute) and c.func.attr == 'pop' and isinstance(c.func.value, ast.Name))
    shuffled = set(c.args[0].id for c in ast.walk(f.node) if isinstance(c, ast.Call) and callee_text(c).split('.')[-1] == 'shuffle' and c.args and isinstance(c.args[0], ast.Name))
    pools = popped & shuffled
    ctx.need(pools, 'unique: the shuffled pool of replacement values is not found')
    n = 0
    for st in stmts_of(f.node):
        if isinstance(st, ast.Assign) and len(st.targets) == 1 and isinstance(st.targets[0], ast.Name) and st.targets[0].id in pools:
            n += 1
            v = st.value
            inner = v.args[0] if isinstance(v, ast.Call) and isinstance(v.func, ast.Name) and v.func.id in ('list', 'sorted', 'tuple') and v.args else v

            def is_set(e):
                if isinstance(e, ast.Call) and isinstance(e.func, ast.Name) and e.func.id in ('set', 'frozenset'):
                    return True
                if isinstance(e, (ast.Set, ast.SetComp)):
                    return True
                if isinstance(e, ast.BinOp) and isinstance(e.op, (ast.Sub, ast.BitAnd, ast.BitXor)):
                    return is_set(e.left)
                if isinstance(e, ast.Call) and isinstance(e.func, ast.Attribute) and e.func.attr in ('difference', 'intersection', 'symmetric_difference'):
                    return is_set(e.func.value)
                return False
            ctx.check(is_set(inner), 'unique#pool@%d' % n, 'the replacement pool is a set (each candidate once)',
                      'unique builds its pool of replacement values as %s, which keeps repeated members of the allowed collection: two duplicates can be replaced by the same value - the result is not pairwise distinct'
                      % unparse(v)[:70], f, st)
    ctx.need(n >= 2, 'unique: expected the two pool constructions (integer range / explicit collection), found %d' % n)


@rule('C16.n', min_instances=40)
def settings_objects_are_not_consumed(ctx):
    """a transform may be applied any number of times with the same settings object (impose_unique(d) keeps d for every call): no function of mystic.constraints / mystic.tools deletes from, pops from or clears an object it was handed as an argument (unique used to `del full['type']`: the second call with the same dict no longer knew the allowed type and returned floats for an integer set). Parameters re-bound to a fresh object inside the function are the function's own"""
    n = 0
    for mod in (CN, TL):
        m = ctx.model.modules[mod]
        for q, fi in sorted(m.funcs.items()):
            if not isinstance(fi.node, ast.FunctionDef):
                continue
            n += 1
            params = set(a.arg for a in fi.node.args.args + fi.node.args.kwonlyargs)
            # a parameter unconditionally re-bound (a top-level statement of the body) before the operation is the function's own object from then on
            rebound_at = {}
            for st in fi.node.body:
                if isinstance(st, ast.Assign):
                    for t_ in st.targets:
                        if isinstance(t_, ast.Name):
                            rebound_at.setdefault(t_.id, st.lineno)
            bad = None

            def given(name, lineno):
                return name in params and not (name in rebound_at and rebound_at[name] < lineno)
            for node in walk_no_nested(fi.node):
                if isinstance(node, ast.Delete):
                    for tg in node.targets:
                        if isinstance(tg, ast.Subscript) and isinstance(tg.value, ast.Name) and given(tg.value.id, node.lineno):
                            bad = node
                if isinstance(node, ast.Call) and isinstance(node.func, ast.Attribute) and node.func.attr in ('pop', 'popitem', 'clear') and isinstance(node.func.value, ast.Name) \
                        and given(node.func.value.id, node.lineno):
                    bad = node
            ctx.touch(fi)
            ctx.check(bad is None, '%s#arguments-kept' % fi.qualname, 'nothing is removed from an argument',
                      '%s removes entries from an object it was given (%s): the caller\'s settings are consumed by the first call, and a second call with the same object behaves differently'
                      % (fi.qualname, norm_stmt(bad)[:60] if isinstance(bad, ast.stmt) else (unparse(bad)[:60] if bad is not None else '')), fi, enclosing_stmt(bad) if bad is not None and not isinstance(bad, ast.stmt) else (bad or fi.node))
    ctx.need(n >= 40, 'expected >= 40 functions in mystic.constraints / mystic.tools, found %d' % n)


def _bool_eval(node, env):
    """truth value of a test under an assignment of its atoms (atoms = maximal sub-expressions that are not and / or / not), keyed by their normalised text"""
    if isinstance(node, ast.BoolOp):
        vals = [_bool_eval(v, env) for v in node.values]
        return all(vals) if isinstance(node.op, ast.And) else any(vals)
    if isinstance(node, ast.UnaryOp) and isinstance(node.op, ast.Not):
        return not _bool_eval(node.operand, env)
    return env[' '.join(unparse(node).split())]


def _bool_atoms(node, out):
    if isinstance(node, ast.BoolOp):
        for v in node.values:
            _bool_atoms(v, out)
    elif isinstance(node, ast.UnaryOp) and isinstance(node.op, ast.Not):
        _bool_atoms(node.operand, out)
    else:
        out.setdefault(' '.join(unparse(node).split()), node)
    return out


@rule('C16.o', min_instances=3)
def the_type_of_the_input_is_kept_only_if_it_holds_the_values(ctx):
    """bounded and impose_at keep the caller's dtype when they can (integers stay integers for whole bounds / targets) - but "whole" is not "storable": int8 cannot hold 300, uint8 cannot hold -5, bool cannot hold 5, an integer cannot hold 1e19 or nan, a float cannot hold 1+2j; numpy wraps, truncates or raises on such a store, and the entry does not land on the bound / the pinned value. The working array is therefore widened (astype) whenever `_holds(<array>.dtype, <the values to be stored>)` is false [bounded: always when not clipping - draws are fractional] - whatever the kind of the array (float16 cannot hold 1e5 either) - and `_holds` itself is the round trip `(values.astype(dtype) == values).all()`, a nan stored as a nan counting as unchanged - nothing weaker (a test for whole numbers, a test of the kind only)"""
    import itertools
    h = ctx.func(CN + ':_holds')
    hp = [a.arg for a in h.node.args.args]
    ctx.need(len(hp) == 2, '_holds: expected (dtype, values), found %s' % hp)
    S_ = '%s.astype(%s)' % (hp[1], hp[0])
    V_ = hp[1]
    # the plain round trip, or the round trip that takes a nan stored as a nan for unchanged (nan != nan)
    forms = ['({S} == {V}).all()', '({V} == {S}).all()', '(({S} == {V}) | (({S} != {S}) & ({V} != {V}))).all()', '(({S} == {V}) | (({V} != {V}) & ({S} != {S}))).all()']
    want = [T.term(ast.parse(f_.format(S=S_, V=V_), mode='eval').body) for f_ in forms]
    rets = [r for r in ast.walk(h.node) if isinstance(r, ast.Return)]
    ctx.need(rets, '_holds: no return statement')
    hlocal = {}
    for st in stmts_of(h.node):
        if isinstance(st, ast.Assign) and len(st.targets) == 1 and isinstance(st.targets[0], ast.Name):
            hlocal.setdefault(st.targets[0].id, []).append(st.value)

    class _Subst(ast.NodeTransformer):
        def visit_Name(self, node):
            if node.id in hlocal and len(hlocal[node.id]) == 1 and node.id not in hp:
                return self.visit(ast.parse(unparse(hlocal[node.id][0]), mode='eval').body)
            return node
    bad = None
    for r in rets:
        v = r.value
        if isinstance(v, ast.Call) and isinstance(v.func, ast.Name) and v.func.id == 'bool' and len(v.args) == 1:
            v = v.args[0]
        if v is not None:
            v = ast.fix_missing_locations(_Subst().visit(ast.parse(unparse(v), mode='eval').body))
        if v is None or T.term(v) not in want:
            bad = r
    ctx.check(bad is None, '_holds#round-trip', 'True exactly when values.astype(dtype) == values everywhere',
              '_holds answers %s: a dtype is taken to hold values it cannot store (a whole number out of its range, a complex number, nan)' % (' '.join(unparse(bad.value).split())[:80] if bad is not None and bad.value is not None else 'None'),
              h, bad or h.node)
    n = 1
    for anchor, valsrc, need_kind in ((CN + ':bounded', 'bounds', False), (CN + ':impose_at.dec.func', 'target', False)):
        f = ctx.func(anchor)
        params = set(f.args())
        made = {}
        for st in stmts_of(f.node):
            if isinstance(st, ast.Assign) and len(st.targets) == 1 and isinstance(st.targets[0], ast.Name):
                k = _array_of_param(st.value, params)
                if k:
                    made[st.targets[0].id] = (st, k)
        ctx.need(made, '%s: the working array made from the input is not found' % f.qualname)
        for A, (s0, kind) in sorted(made.items()):
            if kind == 'float':
                n += 1
                ctx.ok('%s#%s' % (f.qualname, A), 'the working array is made as floats', f, s0)
                continue
            wid = [st for st in stmts_of(f.node) if isinstance(st, ast.Assign) and len(st.targets) == 1 and isinstance(st.targets[0], ast.Name) and st.targets[0].id == A
                   and isinstance(st.value, ast.Call) and isinstance(st.value.func, ast.Attribute) and st.value.func.attr == 'astype' and unparse(st.value.func.value) == A]
            ctx.need(wid, '%s: no widening of %s (astype) is found' % (f.qualname, A))
            # local names -> what they are bound to (single assignment), to resolve the second argument of _holds
            bound = {}
            for st in stmts_of(f.node):
                if isinstance(st, ast.Assign) and len(st.targets) == 1 and isinstance(st.targets[0], ast.Name):
                    bound.setdefault(st.targets[0].id, []).append(st.value)
            atoms = {}
            for w in wid:
                for test, truth, _ in guards_of(w, stop=f.node):
                    _bool_atoms(test, atoms)
            K = [k_ for k_ in atoms if k_.replace('"', "'") in ("%s.dtype.kind in 'iub'" % A, "%s.dtype.kind in 'iu'" % A, "%s.dtype.kind in 'biu'" % A)]
            H = []
            for k_, node in atoms.items():
                if isinstance(node, ast.Call) and callee_text(node).split('.')[-1] == '_holds' and len(node.args) == 2 and ' '.join(unparse(node.args[0]).split()) == A + '.dtype':
                    # the second argument is (made from) the values to be stored: follow local names through their assignments
                    seen, todo = set(), [node.args[1]]
                    while todo:
                        for x in ast.walk(todo.pop()):
                            if isinstance(x, ast.Name) and x.id not in seen:
                                seen.add(x.id)
                                todo.extend(bound.get(x.id, []))
                    if valsrc in seen:
                        H.append(k_)
            C = [k_ for k_ in atoms if k_ == 'clip']
            names = sorted(atoms)
            miss = None
            for vals in itertools.product((False, True), repeat=len(names)):
                env = dict(zip(names, vals))
                widened = any(all(_bool_eval(test, env) == truth for test, truth, _ in guards_of(w, stop=f.node)) for w in wid)
                holds = all(env[k_] for k_ in H) if H else False
                # (when not clipping, bounded stores draws from inside the intervals: always fractions)
                needs = not holds or (bool(C) and not all(env[k_] for k_ in C))
                if need_kind and K:
                    needs = needs and all(env[k_] for k_ in K)
                if needs and not widened:
                    miss = env
                    break
            n += 1
            ctx.check(miss is None, '%s#%s' % (f.qualname, A), 'widened unless _holds(%s.dtype, <%s>)%s' % (A, valsrc, ' (always when not clipping)' if C else ''),
                      '%s keeps the dtype of the caller\'s vector although it is not established that it stores the %s unchanged (%s): a bound / target outside the range of a short, unsigned or boolean type wraps or is truncated, nan / 1e19 / a complex target cannot be stored at all'
                      % (f.qualname, 'bounds' if need_kind else 'target', ', '.join('%s=%s' % (k_, v_) for k_, v_ in sorted((miss or {}).items()))[:120]), f, wid[0])
    ctx.need(n >= 3, 'expected the helper and the widenings of bounded and impose_at, found %d' % n)
