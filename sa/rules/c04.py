"""C04 - best-so-far never worsens; counters, monitors and callbacks are faithful.

Decided: the evaluation counter and the evaluation monitor are bound around the
raw cost (exactly one increment, one raw call, one monitor call per path); who
may write the counter, and every rebinding carries the old count; evaluations /
generations getters read the counter / the log; one generation tick, one record
of the best pair and one callback per _Step in every reachable bookkeeping state
(abstract simulation of the step-monitor protocol, Powell's deferred record
included); monitor replacement prepends the old contents and invalidates the
decorated objective.  Round 3: the log protocol is also simulated under reconfiguration
(SetGenerationMonitor in every reachable bookkeeping state keeps `generations`);
Step finalizes a run it ended (shared with C05.j).
Round 4: no solver class keeps per-call settings (callback, disp) in a class-
level container that is updated in place.
Round 5 (hunt): path rule over Step: whenever Step returns with the solver
possibly terminated, Finalize() has run since the last _Step - also when the
solver is found terminated on entry (repair 9efed1e).
Round 6: a replaced evaluation monitor receives the evaluations (staleness
analysis); listify keeps a length-1 vector a list (shared with C20.h).
NOT decided: call counts per iteration, equality of monitor
contents with the real calls under non-default maps, monotonicity under
non-idempotent constraints.
"""
import ast

from ..core import rule
from ..srcmodel import AnalysisError, walk_no_nested, attr_chain, unparse, norm_stmt
from ..paths import enumerate_paths
from ..callgraph import attr_writes
from .. import terms as T
from .common import *
from . import stepsim

AS = 'mystic.abstract_solver:AbstractSolver'
DECORATORS = [AS + '._decorate_objective',
              'mystic.differential_evolution:DifferentialEvolutionSolver._decorate_objective',
              'mystic.differential_evolution:DifferentialEvolutionSolver2._decorate_objective',
              'mystic.scipy_optimize:NelderMeadSimplexSolver._decorate_objective']


@rule('C04.a', min_instances=4)
def counter_bound_around_raw_cost(ctx):
    """wrap_function: every path makes exactly one increment, one raw call, then one monitor call with the unscaled value"""
    outer = ctx.func('mystic.tools:wrap_function')
    f = ctx.func('mystic.tools:wrap_function.function_wrapper')
    params = outer.args()
    ctx.need(len(params) >= 3, 'wrap_function signature changed')
    raw, extra, mon = params[0], params[1], params[2]
    # the cell: a local list initialised from `start`, returned with the wrapper
    cell = None
    for st in outer.node.body:
        if isinstance(st, ast.Assign) and isinstance(st.value, ast.List) and len(st.value.elts) == 1 and isinstance(st.targets[0], ast.Name):
            cell = st.targets[0].id
            ctx.check(isinstance(st.value.elts[0], ast.Name) and st.value.elts[0].id == 'start', 'wrap_function#cell',
                      'counter cell starts at `start`', 'the counter cell does not start at the `start` argument', outer, st)
    ctx.need(cell, 'no counter cell in wrap_function')
    rets = [n for n in outer.node.body if isinstance(n, ast.Return)]
    ctx.need(rets, 'wrap_function has no return')
    rt = rets[-1].value
    ctx.check(isinstance(rt, ast.Tuple) and len(rt.elts) == 2 and isinstance(rt.elts[0], ast.Name) and rt.elts[0].id == cell
              and isinstance(rt.elts[1], ast.Name) and rt.elts[1].id == f.name, 'wrap_function#return',
              'returns (cell, wrapper)', 'wrap_function no longer returns (counter cell, wrapper)', outer, rets[-1])
    paths = enumerate_paths(f.node)
    ctx.stats['paths_enumerated'] += len(paths)
    for p in paths:
        incs, raws, mons = [], [], []
        b = T.Builder()
        ret_t = None
        for i, e in enumerate(p.events):
            if e[0] not in ('stmt', 'partial'):
                continue
            st = e[1]
            if isinstance(st, ast.AugAssign) and isinstance(st.target, ast.Subscript) and \
                    isinstance(st.target.value, ast.Name) and st.target.value.id == cell:
                incs.append((i, st))
            for c in calls_where(st, lambda c: isinstance(c.func, ast.Name) and c.func.id == raw):
                raws.append((i, c, st))
            for c in calls_where(st, lambda c: isinstance(c.func, ast.Name) and c.func.id == mon):
                mons.append((i, c, T.simp(b.t(c.args[1])) if len(c.args) > 1 else None, T.simp(b.t(c.args[0])) if c.args else None))
            if isinstance(st, ast.Return) and st.value is not None:
                ret_t = T.simp(b.t(st.value))
            b.exec_stmt(st)
        if p.exit == 'raise' and not raws:
            continue
        x = f.args()[0]
        inc_ok = len(incs) == 1 and isinstance(incs[0][1].op, ast.Add) and const_value(incs[0][1].value) == 1
        ctx.check(inc_ok, 'wrap_function.function_wrapper#increment', 'exactly one `cell[0] += 1` on path %s' % p.describe(4),
                  '%d increments of the evaluation counter on path %s' % (len(incs), p.describe(6)), f,
                  incs[0][1] if incs else f.node)
        raw_ok = len(raws) == 1 and len(raws[0][1].args) >= 1 and isinstance(raws[0][1].args[0], ast.Name) and raws[0][1].args[0].id == x
        ctx.check(raw_ok, 'wrap_function.function_wrapper#rawcall', 'exactly one call of the raw function at x',
                  '%d calls of the raw cost on path %s (or not at the wrapper\'s own argument)' % (len(raws), p.describe(6)), f,
                  raws[0][2] if raws else f.node)
        if raws and p.exit == 'return':
            rawterm = T.simp(T.Builder().t(raws[0][1]))
            mon_ok = len(mons) == 1 and mons[0][0] >= raws[0][0] and mons[0][2] == rawterm and mons[0][3] == ('name', x)
            ctx.check(mon_ok, 'wrap_function.function_wrapper#monitor', 'monitor receives (x, raw value) once, after the call',
                      'the evaluation monitor is called %d times / not with (x, value of the raw cost)' % len(mons), f,
                      mons[0][1] if mons else f.node)
            want = T.simp(T.pmul(('name', 'scale'), rawterm))
            ctx.check(ret_t == want, 'wrap_function.function_wrapper#return', 'returns scale*value',
                      'wrapper returns %s instead of scale*value' % (T.show(ret_t) if ret_t else None), f, p.exit_node)
            inc_before = incs and incs[0][0] <= raws[0][0]
            ctx.check(bool(inc_before), 'wrap_function.function_wrapper#order', 'increment precedes the raw call (a raising cost is still counted)',
                      'the counter is incremented after the raw call: a cost that raises is not counted', f, incs[0][1] if incs else f.node)


ALLOWED_COUNTER_WRITERS = {
    'mystic.abstract_solver:AbstractSolver.__init__': 'creates the cell',
    'mystic.abstract_solver:AbstractSolver._decorate_objective': 'rebinds to the new wrapper\'s cell (must carry the count)',
    'mystic.differential_evolution:DifferentialEvolutionSolver._decorate_objective': 'rebinds (must carry the count)',
    'mystic.scipy_optimize:NelderMeadSimplexSolver._decorate_objective': 'rebinds (must carry the count)',
    'mystic.abstract_ensemble_solver:AbstractEnsembleSolver.__update_state': 'aliases the best member\'s cell',
    'mystic.abstract_ensemble_solver:AbstractEnsembleSolver.__update_allSolvers': 'documented HACK restoring a count dropped by a process map',
    'mystic.abstract_sampler:AbstractSampler._reset_sampler': 'explicit re-initialisation of the whole sampler (population, members, monitors and counter together)',
}


def _store_text(bld, st, keep=('self', 'len', 'isinf', 'sum', 'numpy', 'np', 'True', 'False', 'None')):
    """the statement with its local names replaced by v0, v1, ... in order of appearance (a renamed temporary does not
    change the key under which a finding is recorded)"""
    import copy
    node = copy.deepcopy(st)
    # derived temporaries (assigned exactly once in the function) are spelled out first
    fn = bld if isinstance(bld, ast.AST) else None
    if fn is not None:
        defs = {}
        for s0 in stmts_of(fn):
            for nm in assigned_names(s0):
                defs.setdefault(nm, []).append(s0)
        single = {nm: d[0].value for nm, d in defs.items() if len(d) == 1 and isinstance(d[0], ast.Assign) and len(d[0].targets) == 1
                  and isinstance(d[0].targets[0], ast.Name) and d[0] is not st}

        class Inl(ast.NodeTransformer):
            def visit_Name(self, n):
                if isinstance(n.ctx, ast.Load) and n.id in single:
                    return copy.deepcopy(single[n.id])
                return n
        for _ in range(3):
            node = Inl().visit(node)
    names = {}
    for n in ast.walk(node):
        if isinstance(n, ast.Name) and n.id not in keep:
            names.setdefault(n.id, 'v%d' % len(names))
    for n in ast.walk(node):
        if isinstance(n, ast.Name) and n.id in names:
            n.id = names[n.id]
    return norm_stmt(node)


def rebinding_carries(fi, st):
    """at `st` in a _decorate_objective the counter cell is rebound: is it the first result of
    wrap_function(..., start=<previous count>)?  Followed through temporaries and tuple unpacking
    (self._fcalls, cost = ... / counter, cost = ...; self._fcalls = counter)"""
    sn = selfname_of(fi)
    bld = T.Builder()
    for s0 in stmts_of(fi.node):
        if s0.lineno >= st.lineno:
            break
        if isinstance(s0, ast.Assign) and not guards_of(s0, stop=fi.node) and all(
                isinstance(x, ast.Name) or (isinstance(x, (ast.Tuple, ast.List)) and all(isinstance(e, ast.Name) for e in x.elts)) for x in s0.targets):
            bld.exec_stmt(s0)
    if isinstance(st, ast.Assign):
        for tg0 in st.targets:
            bld.assign(tg0, bld.t(st.value))
    v = T.simp(bld.env.get('%s._fcalls' % sn, ('const', None)))
    call = v[1] if v[0] == 'sub' and v[2] == T.num(0) else None
    start = dict(call[3]).get('start') if call and call[0] == 'call' and T.show(call[1]).endswith('wrap_function') else None
    if start is None and call and call[0] == 'call' and len(call[2]) > 4:
        start = call[2][4]
    carries = start in (('sub', ('attr', ('name', sn), '_fcalls'), T.num(0)), ('attr', ('name', sn), 'evaluations'))
    return carries


@rule('C04.b', min_instances=6)
def who_writes_the_counter(ctx):
    """only the wrapper increments the evaluation counter; every rebinding carries the previous count"""
    model = ctx.model
    n = 0
    for m in model.modules.values():
        for q, fi in sorted(m.funcs.items()):
            for node in walk_no_nested(fi.node):
                tgt = None
                if isinstance(node, ast.Attribute) and node.attr == '_fcalls' and isinstance(node.ctx, ast.Store):
                    tgt = ('bind', node)
                elif isinstance(node, ast.Subscript) and isinstance(node.ctx, ast.Store) and \
                        isinstance(node.value, ast.Attribute) and node.value.attr == '_fcalls':
                    tgt = ('item', node)
                if tgt is None:
                    continue
                n += 1
                ctx.touch(fi)
                st = enclosing_stmt(node)
                construct = fi.qualname
                if fi.anchor not in ALLOWED_COUNTER_WRITERS:
                    # the statement key carries the guard under which the write happens (locals substituted), so that a
                    # recorded finding does not cover the same write made under a different condition
                    bld = T.Builder()
                    for s0 in stmts_of(fi.node):
                        if s0.lineno >= st.lineno:
                            break
                        if isinstance(s0, ast.Assign) and len(s0.targets) == 1 and isinstance(s0.targets[0], ast.Name) and not guards_of(s0, stop=fi.node):
                            bld.exec_stmt(s0)
                    def _g(g, tr):
                        c = T.simp(bld.t(g))
                        while isinstance(c, tuple) and c and c[0] == 'not':
                            c, tr = c[1], not tr
                        return ('' if tr else 'not ') + T.show(c)[:60]
                    gtxt = ' and '.join(_g(g, tr) for g, tr, _ in reversed(guards_of(st, stop=fi.node)))
                    ctx.bad(construct, 'the evaluation counter is written outside the wrapper that counts calls (%s)%s' % (tgt[0], ' when ' + gtxt if gtxt else ' unconditionally'),
                            fi, st, statement=('if %s: ' % gtxt if gtxt else '') + _store_text(fi.node, st))
                    continue
                if fi.name == '_decorate_objective':
                    carries = rebinding_carries(fi, st)
                    ctx.check(carries, construct, 'rebinding starts from the previous count',
                              're-decorating the objective restarts the evaluation counter (no start=<previous count>)', fi, st)
                elif fi.name == '__update_allSolvers':
                    gs = guards_of(st, stop=fi.node)
                    guarded = any(''.join(unparse(g[0]).split()) == 'not_solver._fcalls[0]' and g[1] for g in gs)
                    ctx.check(guarded, construct, 'restores the count only when it was dropped (guard `not _solver._fcalls[0]`)',
                              'the ensemble overwrites a member\'s live evaluation count', fi, st)
                elif fi.name == '_reset_sampler':
                    resets = calls_where(fi.node, lambda c: callee_text(c).endswith('SetEvaluationMonitor')
                                         and const_value(kwarg(c, 'new', 1)) is True)
                    ctx.check(bool(resets), construct, 'counter reset together with a new (emptied) evaluation monitor',
                              'the sampler resets the evaluation counter but keeps the evaluation monitor', fi, st)
                else:
                    ctx.ok(construct, ALLOWED_COUNTER_WRITERS[fi.anchor], fi, st)
    ctx.need(n >= 6, 'expected >= 6 writers of _fcalls, found %d' % n)


@rule('C04.c', min_instances=5)
def getters_read_counter_and_log(ctx):
    """evaluations returns the counter cell; generations = max(0, len(log)-1); histories fall back to the step monitor"""
    c = ctx.cls(AS)
    model = ctx.model
    pr = model.lookup_prop(c, 'evaluations')
    ctx.need(pr and pr[0], 'no evaluations property')
    g = ctx.touch(pr[0])
    rets = [n for n in walk_no_nested(g.node) if isinstance(n, ast.Return)]
    sn = selfname_of(g)
    ctx.check(len(rets) == 1 and ''.join(unparse(rets[0].value).split()) == '%s._fcalls[0]' % sn, 'AbstractSolver.evaluations',
              'returns self._fcalls[0]', 'evaluations no longer returns the counter cell', g, rets[0] if rets else g.node)
    for anchor in [AS] + [v for k, v in CONCRETE_SOLVERS.items()]:
        k = ctx.cls(anchor)
        src, getter = stepsim.generations_source(model, k)
        ctx.touch(getter)
        ctx.check(src in ('stepmon', 'energy_history'), k.name + '.generations', 'max(0, len(%s)-1)' % src,
                  'generations returns `%s`, not max(0, len(log)-1)' % src, getter, getter.node)
    for name, fallback in (('energy_history', '_stepmon._y'), ('solution_history', '_stepmon.x'),
                           ('bestEnergy', 'popEnergy[0]'), ('bestSolution', 'population[0]')):
        pr = model.lookup_prop(c, name)
        ctx.need(pr and pr[0], 'no %s property' % name)
        g = ctx.touch(pr[0])
        sn = selfname_of(g)
        stored = '_' + name
        ok_ = False
        # if self._X is None: return self.<fallback> ; return self._X
        body = [s for s in g.node.body if not (isinstance(s, ast.Expr) and isinstance(s.value, ast.Constant))]
        if len(body) == 2 and isinstance(body[0], ast.If) and isinstance(body[1], ast.Return):
            tt = t(body[0].test)
            r1 = body[0].body[0] if body[0].body and isinstance(body[0].body[0], ast.Return) else None
            ok_ = tt == T.mk_cmp('is', ('attr', ('name', sn), stored), ('const', None)) and r1 is not None and \
                ''.join(unparse(r1.value).split()) == '%s.%s' % (sn, fallback) and \
                ''.join(unparse(body[1].value).split()) == '%s.%s' % (sn, stored)
        ctx.check(ok_, 'AbstractSolver.' + name, 'falls back to self.%s when not decoupled' % fallback,
                  '%s getter no longer returns self.%s / the decoupled value' % (name, fallback), g, g.node)


def _step_classes(ctx):
    return [(k, ctx.cls(v)) for k, v in CONCRETE_SOLVERS.items()]


@rule('C04.d', min_instances=8)
def one_generation_per_step(ctx):
    """abstract simulation of the log protocol: _Step adds exactly one generation in every reachable state, Finalize none"""
    for key, cls in _step_classes(ctx):
        sm = stepsim.StepModel(ctx.model, cls)
        ctx.touch(sm.step)
        ctx.touch(sm.fin)
        trans, seen = sm.explore()
        ctx.stats['paths_enumerated'] += len(sm.step_paths) + len(sm.fin_paths)
        ctx.need(trans, 'no feasible transition for %s' % cls.name)
        reported = set()
        agg = {}
        for op, s, s2, dg, nrec, ncb, p, log, live in trans:
            L, E = s
            if op == '_Step':
                if L == 0:
                    good = dg == 0 and nrec in (0, 1)
                    want = 'initial evaluation: no generation, at most one record'
                else:
                    good = dg == 1
                    want = 'exactly one generation'
            else:
                good = dg == 0
                want = 'no generation'
            sclass = ('EMPTY' if L == 0 else ('SYNCED' if E is None else 'DECOUPLED')) + \
                     ('' if L == 0 else ('(gens=0)' if stepsim.gens(s, sm.source) == 0 else '(gens>=1)'))
            k = (op, sclass, good, dg)
            agg.setdefault(k, []).append((s, s2, p, log))
        for (op, sclass, good, dg), items in sorted(agg.items(), key=lambda kv: repr(kv[0])):
            s, s2, p, log = items[0]
            construct = '%s.%s@%s' % (cls.name, op, sclass)
            fi = sm.step if op == '_Step' else sm.fin
            node = next((c for kind, c in log if kind == 'record'), fi.node)
            if good:
                ctx.ok(construct, '%d transitions, delta generations = %d (state %s -> %s)' % (len(items), dg, s, s2), fi, node)
            else:
                ctx.bad(construct, '%s from bookkeeping state %s (log length %d, energy history %s) changes generations by %d: %s'
                        % (op, sclass, s[0], 'synced' if s[1] is None else 'decoupled', dg, p.describe(8)), fi, node,
                        statement='%s: delta generations = %d' % (sclass, dg))


@rule('C04.k', min_instances=4)
def initial_evaluation_leaves_a_record(ctx):
    """abstract simulation, first step: once the initial evaluation has been made and the solver finalized (Step finalizes whenever it reports a stop), the step monitor is non-empty - Step recognises "initial evaluation done" by len(self._stepmon), so an empty log after a stop at generation 0 makes every further Step repeat the initial evaluation, and the stopped run has no record of its result"""
    for key, cls in _step_classes(ctx):
        sm = stepsim.StepModel(ctx.model, cls)
        trans, seen = sm.explore()
        first = [t_ for t_ in trans if t_[0] == '_Step' and t_[1] == (0, None)]
        ctx.need(first, 'no first-step transition for %s' % cls.name)
        bad = None
        n = 0
        for op, s, s2, dg, nrec, ncb, p, log, live in first:
            fins = [t_ for t_ in trans if t_[0] == 'Finalize' and t_[1] == s2 and t_[8] is True]
            if not fins and s2[0] == 0:
                bad = (p, None, s2)
            for f_ in fins:
                n += 1
                if f_[2][0] < 1:
                    bad = (p, f_[6], f_[2])
        ctx.check(bad is None, '%s#first-step-recorded' % cls.name, '%d (first step, Finalize) sequences all end with a non-empty step monitor' % n,
                  '%s: after the initial evaluation (%s) and Finalize the step monitor is still empty (state %s): a run stopped at generation 0 has no record, '
                  'and Step repeats the initial evaluation on every further call' % (cls.name, bad[0].describe(5) if bad else '', bad[2] if bad else ''),
                  sm.step, sm.step.node, statement='%s: empty log after first step + Finalize' % cls.name)


@rule('C04.e', min_instances=4)
def one_callback_per_step(ctx):
    """every normal path of _Step calls callback(self.bestSolution) exactly once when given, after the record of the step"""
    for key, cls in _step_classes(ctx):
        f = ctx.touch(ctx.model.lookup_method(cls, '_Step'))
        sn = selfname_of(f)
        paths = [p for p in enumerate_paths(f.node, relevant=stepsim._relevant(sn)) if p.exit != 'raise']
        ctx.stats['paths_enumerated'] += len(paths)
        bad = None
        n = 0
        for p in paths:
            cb_idx, rec_idx = [], []
            cb_given = None
            in_loop = 0
            for i, e in enumerate(p.events):
                if e[0] == 'cond':
                    txt = ''.join(unparse(e[1]).split())
                    if txt == 'callbackisnotNone':
                        cb_given = e[2]
                    elif 'callback' in txt:
                        bad = (p, e[1], 'unrecognised callback guard `%s`' % unparse(e[1]))
                elif e[0] == 'stmt':
                    for c in calls_where(e[1], lambda c: isinstance(c.func, ast.Name) and c.func.id == 'callback', include_lambda=False):
                        cb_idx.append((i, c))
                    if calls_where(e[1], lambda c: self_call(c, '_stepmon', sn), include_lambda=False):
                        rec_idx.append(i)
            n += 1
            if cb_given is False:
                if cb_idx:
                    bad = (p, cb_idx[0][1], 'callback called although it is None')
                continue
            if len(cb_idx) != 1:
                bad = (p, cb_idx[1][1] if len(cb_idx) > 1 else f.node, '%d callback invocations on one pass through _Step' % len(cb_idx))
                continue
            i, c = cb_idx[0]
            arg_ok = len(c.args) == 1 and ''.join(unparse(c.args[0]).split()) in ('%s.bestSolution' % sn, '%s.bestSolution[:]' % sn)
            if not arg_ok:
                bad = (p, c, 'callback receives %s, not the current best solution' % unparse(c))
            elif cb_given is None:
                bad = (p, c, 'callback is invoked without the `callback is not None` guard')
            elif rec_idx and i < max(rec_idx):
                bad = (p, c, 'callback is invoked before the step is recorded')
        ctx.need(n > 0, 'no normal path through %s._Step' % cls.name)
        if bad:
            p, node, msg = bad
            ctx.bad(cls.name + '._Step#callback', '%s (path %s)' % (msg, p.describe(6)), f, node)
        else:
            ctx.ok(cls.name + '._Step#callback', '%d paths: one guarded callback(self.bestSolution) after the record' % n, f, f.node)


@rule('C04.f', min_instances=5)
def record_is_best_pair(ctx):
    """the step monitor receives (best solution, best energy, id): DE/DE2 the all-time best, NM vertex 0 after the sort, Powell the stored pair"""
    for key, cls in _step_classes(ctx):
        f = ctx.touch(ctx.model.lookup_method(cls, '_Step'))
        sn = selfname_of(f)
        recs = calls_where(f.node, lambda c: self_call(c, '_stepmon', sn), include_lambda=False)
        ctx.need(recs, 'no step-monitor record in %s._Step' % cls.name)
        for c in recs:
            args = [''.join(unparse(a).split()) for a in c.args]
            construct = '%s._Step#record' % cls.name
            if key in ('DE', 'DE2'):
                good = args == ['%s.bestSolution[:]' % sn, '%s.bestEnergy' % sn, '%s.id' % sn]
                ctx.check(good, construct, 'record = (bestSolution[:], bestEnergy, id)', 'the step monitor receives %s' % args, f, c)
            elif key == 'NM':
                good = args == ['sim[0]', 'fsim[0]', '%s.id' % sn]
                # sort precedes the record and population/popEnergy are bound to the same arrays
                st = enclosing_stmt(c)
                body = f.node.body
                prev = [s for s in body if s.lineno < st.lineno]
                srt = [s for s in prev if isinstance(s, ast.If) and contains_node(s, lambda n: isinstance(n, ast.Call) and callee_text(n).endswith('argsort'))]
                pop = [s for s in prev if isinstance(s, ast.Assign) and is_self_attr(s.targets[0], 'population', sn) and unparse(s.value) == 'sim']
                pe = [s for s in prev if isinstance(s, ast.Assign) and is_self_attr(s.targets[0], 'popEnergy', sn) and unparse(s.value) == 'fsim']
                ctx.check(good and srt and pop and pe, construct, 'record = (sim[0], fsim[0], id) after the sort; population/popEnergy = sim/fsim',
                          'the step monitor receives %s (sort before: %s, population=sim: %s, popEnergy=fsim: %s)' % (args, bool(srt), bool(pop), bool(pe)), f, c)
            else:
                good = len(args) == 3 and args[2] == '%s.id' % sn
                ctx.check(good and args[0] == 'x' and args[1] == 'fval', construct, 'record = (x, fval, id)',
                          'the step monitor receives %s' % args, f, c)
    fin = ctx.func('mystic.scipy_optimize:PowellDirectionalSolver.Finalize')
    sn = selfname_of(fin)
    recs = calls_where(fin.node, lambda c: self_call(c, '_stepmon', sn))
    ctx.need(recs, 'Powell Finalize no longer records the deferred generation')
    for c in recs:
        args = [''.join(unparse(a).split()) for a in c.args]
        ctx.check(args == ['%s.bestSolution' % sn, '%s.bestEnergy' % sn, '%s.id' % sn], 'PowellDirectionalSolver.Finalize#record',
                  'record = (bestSolution, bestEnergy, id)', 'Finalize records %s' % args, fin, c)


@rule('C04.g', min_instances=4)
def monitor_replacement_keeps_history(ctx):
    """SetGenerationMonitor / SetEvaluationMonitor (every path, locals substituted): wherever a monitor is installed, the old one's contents are prepended to it afterwards - the argument of .prepend is the previous self._stepmon / self._evalmon, and an empty Null() only on a path that has tested `new` or that the new monitor is the old one"""
    for meth, attr in (('SetGenerationMonitor', '_stepmon'), ('SetEvaluationMonitor', '_evalmon')):
        f = ctx.func(AS + '.' + meth)
        sn = selfname_of(f)
        OLD = ('attr', ('name', sn), attr)
        newp = f.args()[2] if len(f.args()) > 2 else 'new'

        def rel(n):
            return isinstance(n, (ast.Assign, ast.AugAssign, ast.Raise, ast.Return)) or (isinstance(n, ast.Call) and isinstance(n.func, ast.Attribute) and n.func.attr == 'prepend')
        paths = [p for p in enumerate_paths(f.node, relevant=rel, unroll=(0, 1)) if p.exit != 'raise']
        ctx.stats['paths_enumerated'] += len(paths)
        n_inst = n_keep = 0
        bad = None
        for p in paths:
            b = T.Builder()
            lits = []
            installed = None       # term of the monitor stored into self.<attr> on this path
            prepended = None
            prepends = []
            custom = False
            for e in p.events:
                if e[0] == 'cond':
                    tt = T.simp(b.t(e[1]))
                    lits.append((tt, e[2]))
                    if '_genSow' in T.show(tt):
                        custom = custom or e[2]
                elif e[0] == 'stmt':
                    st = e[1]
                    for c in calls_where(st, lambda c: isinstance(c.func, ast.Attribute) and c.func.attr == 'prepend', include_lambda=False):
                        recv = T.simp(b.t(c.func.value))
                        if c.args:
                            # (the new monitor may be filled before or after it is stored into self.<attr>)
                            prepends.append((recv, T.simp(b.t(c.args[0])), installed is not None))
                    if isinstance(st, ast.Assign) and any(T.term(tg) == OLD for tg in st.targets):
                        installed = T.simp(b.t(st.value))
                        for tg in st.targets:      # chained form  self.<attr> = local = value
                            if isinstance(tg, ast.Name):
                                b.env[tg.id] = installed
                        continue           # self.<attr> keeps meaning "the monitor in force": not substituted
                    if isinstance(st, ast.Assign) and all(isinstance(tg, ast.Name) for tg in st.targets):
                        b.exec_stmt(st)
            if installed is None:
                continue
            n_inst += 1
            for recv, arg, after in prepends:
                if recv == installed or (after and recv == OLD):
                    prepended = arg
            if custom:
                continue        # custom (_genSow) monitor branch: documented FIXME in the source, exempt
            if prepended is None:
                bad = (p, 'a replaced monitor loses the history collected so far (no prepend of the old contents)')
                break
            leaves = [leaf for cl, leaf in T.cases(prepended)]
            keeps = any(leaf == OLD for leaf in leaves)
            empties = [(cl, leaf) for cl, leaf in T.cases(prepended) if leaf != OLD]
            for cl, leaf in empties:
                if not (leaf[0] == 'call' and T.show(leaf[1]) == 'Null'):
                    bad = (p, 'what is prepended is %s, not the previous monitor' % T.show(leaf)[:60])
                known = list(lits) + list(cl)
                tested = any(tr and (c == ('name', newp) or (c[0] == 'cmp' and c[1] == 'is') or (c[0] == 'or' and ('name', newp) in c[1:])) for c, tr in known)
                if not tested:
                    bad = (p, 'the old contents are dropped (an empty Null() is prepended) on a path that has neither tested `%s` nor that the new monitor is the old one' % newp)
            if keeps:
                n_keep += 1
            if bad:
                break
        ctx.need(n_inst >= 1, '%s: no path installs a monitor' % meth)
        ctx.check(bad is None, meth + '#prepend', '%d installing paths: the old contents are prepended (dropped only when new / same monitor)' % n_inst,
                  '%s: %s (path %s)' % (meth, bad[1] if bad else '', bad[0].describe(6) if bad else ''), f, bad[0].exit_node if bad and bad[0].exit_node is not None else f.node)
        ctx.check(n_keep >= 1, meth + '#current', 'some path prepends the previous self.%s' % attr,
                  'no path of %s prepends the previous monitor: its history is always dropped' % meth, f, f.node)


ENERGY_WRITERS = {
    'mystic.abstract_solver:AbstractSolver.__init__': 'initial placeholders',
    'mystic.abstract_solver:AbstractSolver.__set_bestEnergy': 'property setter',
    'mystic.abstract_ensemble_solver:AbstractEnsembleSolver.__update_state': 'hand-back from the best member',
    'mystic.abstract_sampler:AbstractSampler._reset_sampler': 'explicit re-initialisation of the whole sampler',
}


@rule('C04.h', min_instances=8)
def who_writes_the_energies(ctx):
    """stored energies (popEnergy, bestEnergy) are written only by the _Step methods (under the improvement rules of C01) and a frozen table of (re)initialisers: nothing else can discard or worsen the best-so-far"""
    n = 0
    for m in ctx.model.modules.values():
        for q, fi in sorted(m.funcs.items()):
            for node in walk_no_nested(fi.node):
                hit = None
                if isinstance(node, ast.Attribute) and isinstance(node.ctx, ast.Store) and node.attr in ('popEnergy', 'bestEnergy', '_bestEnergy'):
                    hit = node.attr
                elif isinstance(node, ast.Subscript) and isinstance(node.ctx, ast.Store):
                    b = node.value
                    while isinstance(b, ast.Subscript):
                        b = b.value
                    if isinstance(b, ast.Attribute) and b.attr in ('popEnergy', 'bestEnergy', '_bestEnergy'):
                        hit = b.attr
                if hit is None:
                    continue
                n += 1
                ctx.touch(fi)
                st = enclosing_stmt(node)
                allowed = fi.anchor in ENERGY_WRITERS or (fi.name == '_Step' and fi.cls is not None)
                ctx.check(allowed, fi.qualname + '#' + hit, 'allowed writer of the stored energies',
                          '%s overwrites the stored energy %s outside an optimisation step: the best-so-far can be discarded or worsen' % (fi.qualname, hit), fi, st)
    ctx.need(n >= 8, 'expected >= 8 writers of the stored energies, found %d' % n)


@rule('C04.i', min_instances=2)
def carried_over_history_keeps_its_order(ctx):
    """when a monitor is replaced, the old records are carried over in their original order: Monitor.prepend inserts every array at its enumerate index and Monitor.extend appends array by array (shared with C20.a) - otherwise the best-energy history of a continued run is no longer non-increasing and the evaluation log is out of call order"""
    from .c20 import parallel_arrays_move_together
    parallel_arrays_move_together(ctx)


@rule('C04.j', min_instances=4)
def inputs_are_processed_before_the_objective_is_bound(ctx):
    """every _Step activates its keyword settings (self._process_inputs: monitors, constraints, penalty, limits given to Step/Solve) before it binds the decorated objective (self._bootstrap_objective): bound the other way round, the step still evaluates through the objective that closes over the old evaluation monitor / constraints, and its evaluations are not recorded where the caller asked"""
    for key, anchor in sorted(CONCRETE_SOLVERS.items()):
        f = ctx.func(anchor + '._Step')
        sn = selfname_of(f)

        def rel(n):
            return isinstance(n, ast.Call) and (self_call(n, '_process_inputs', sn) or self_call(n, '_bootstrap_objective', sn))
        paths = enumerate_paths(f.node, relevant=rel, unroll=(0, 1))
        ctx.stats['paths_enumerated'] += len(paths)
        bad = None
        n_b = 0
        for p in paths:
            seen_pi = False
            for e in p.events:
                nodes = [e[1]] if e[0] in ('stmt', 'cond', 'partial') else []
                for nd in nodes:
                    for c in calls_where(nd, rel, include_lambda=False):
                        if self_call(c, '_process_inputs', sn):
                            seen_pi = True
                        elif not seen_pi:
                            bad = (p, c)
                        else:
                            n_b += 1
            if bad:
                break
        ctx.need(bad is not None or n_b > 0, '%s._Step: no self._bootstrap_objective call found' % key)
        ctx.check(bad is None, '%s._Step#inputs-before-objective' % f.qualname.split('.')[0], 'self._process_inputs(kwds) precedes self._bootstrap_objective(...) on every path',
                  '%s binds the decorated objective before it has processed its keyword settings: an EvaluationMonitor / constraints / penalty given to Step is not in force for this iteration'
                  % f.qualname, f, bad[1] if bad else f.node)


@rule('C04.l', min_instances=5)
def monitor_swap_keeps_the_generation_count(ctx):
    """abstract simulation of the log protocol under reconfiguration: in every bookkeeping state a run can reach (log length, energy history synchronised or decoupled), installing a new (initially empty) generation monitor with SetGenerationMonitor leaves `generations` unchanged, and so does the step that follows (a solver whose last iteration is still unlogged must log it before its history is resynchronised with the monitor)"""
    for key, cls in _step_classes(ctx):
        sm = stepsim.StepModel(ctx.model, cls)
        trans, seen = sm.explore()
        m = ctx.model.lookup_method(cls, 'SetGenerationMonitor')
        ctx.need(m is not None, 'no SetGenerationMonitor on %s' % cls.name)
        ctx.touch(m)
        agg = {}
        for s in sorted(seen, key=repr):
            if s[0] == 0:
                continue
            res = stepsim.monitor_swap(ctx.model, cls, s, sm.source)
            ctx.need(res, '%s: SetGenerationMonitor has no feasible path from state %s' % (cls.name, s))
            ctx.stats['paths_enumerated'] += len(res)
            for s2, trail in res:
                dg = stepsim.gens(s2, sm.source) - stepsim.gens(s, sm.source)
                sclass = 'SYNCED' if s[1] is None else 'DECOUPLED'
                agg.setdefault((sclass, dg == 0, dg), []).append((s, s2, trail))
        ctx.need(agg, '%s: no reachable bookkeeping state' % cls.name)
        for (sclass, good, dg), items in sorted(agg.items(), key=repr):
            s, s2, trail = items[0]
            construct = '%s.SetGenerationMonitor@%s' % (cls.name, sclass)
            if good:
                ctx.ok(construct, '%d transitions keep generations (e.g. %s -> %s)' % (len(items), s, s2), m, m.node)
            else:
                ctx.bad(construct, 'installing a generation monitor in bookkeeping state %s (log length %d, energy history %s) changes generations by %d: %s'
                        % (sclass, s[0], 'synced' if s[1] is None else 'decoupled: the last iteration is not yet in the log', dg, ' | '.join(trail)[:300]),
                        m, m.node, statement='%s %s: delta generations = %d' % (cls.name, sclass, dg))


@rule('C04.m', min_instances=1)
def a_stopped_step_loop_is_finalized(ctx):
    """the step monitor of a stopped run ends in the reported result however the run is driven: Step itself calls Finalize() when the step it took ended the run (a solver that logs its latest iteration lazily - Powell - writes that record only there, so a `while not solver.Step()` loop must not depend on Solve for it; shared with C05.j)"""
    from .c05 import finalize_on_stop
    finalize_on_stop(ctx)


@rule('C04.n', min_instances=1)
def one_time_inputs_do_not_outlive_their_call(ctx):
    """callback and disp are one-time inputs of a Step / Solve call: the settings every _process_inputs returns are built inside the call - no solver class keeps them in a class-level container that the method updates in place (a callback given once would then be invoked by every later step of every solver of that class); positive control on a synthetic class"""
    import types
    probe_src = 'class S(object):\n    _settings = {"callback": None}\n    def _process_inputs(self, kwds):\n        settings = self._settings\n        settings.update(kwds)\n        return settings\n'
    tree = ast.parse(probe_src)
    for n in ast.walk(tree):
        for c in ast.iter_child_nodes(n):
            c._parent = n
    cnode = tree.body[0]
    fake_m = types.SimpleNamespace(node=cnode.body[1], qualname='S._process_inputs', args=lambda: ['self', 'kwds'], cls=True, parent=None)
    fake_k = types.SimpleNamespace(node=cnode, methods={'_process_inputs': fake_m}, name='S')
    ctx.need(len(shared_class_containers(ctx.model, [fake_k])) == 1, 'shared-container detector lost its positive control')
    classes = [ctx.cls(AS)] + [k for k in ctx.model.subclasses(ctx.cls(AS), strict=True)]
    found = shared_class_containers(ctx.model, classes)
    for kk, a, m, node in found:
        ctx.touch(m)
        ctx.bad('%s#class-level[%s]' % (m.qualname, a), '%s updates the class-level container %s.%s in place: what one call stores there (a callback, a display flag) is seen by every later call on every instance'
                % (m.qualname, kk.name, a), m, enclosing_stmt(node) or m.node)
    if not found:
        n = sum(1 for k in classes if '_process_inputs' in k.methods)
        ctx.ok('_process_inputs#per-call', '%d solver classes: no class-level container is updated in place (%d _process_inputs overrides)' % (len(classes), n),
               ctx.func(AS + '._process_inputs'), ctx.func(AS + '._process_inputs').node)


@rule('C04.o', min_instances=1)
def a_solver_found_stopped_is_finalized(ctx):
    """whenever Step returns with the solver (possibly) terminated, Finalize() has run since the last iteration - also when Step finds the solver ALREADY terminated on entry (a limit or a termination set between two Steps) and takes no step: a solver that logs its latest iteration lazily (Powell) writes that record only in Finalize, so the monitor of such a stopped run would otherwise lack its last generation. Path analysis of AbstractSolver.Step over the facts {terminated?, finalized since the last _Step, what the returned message is bound to}"""
    f = ctx.func(AS + '.Step')
    sn = selfname_of(f)

    def term_call(n):
        return isinstance(n, ast.Call) and self_call(n, 'Terminated', sn)

    def has_term(n):
        return any(term_call(x) for x in ast.walk(n))

    def rel(n):
        return isinstance(n, ast.Return) or (isinstance(n, ast.Call) and (self_call(n, 'Terminated', sn) or self_call(n, 'Finalize', sn) or self_call(n, '_Step', sn))) or \
            (isinstance(n, ast.Assign) and all(isinstance(t_, ast.Name) for t_ in n.targets))
    paths = [p for p in enumerate_paths(f.node, relevant=rel, unroll=(0, 1)) if p.exit != 'raise']
    ctx.stats['paths_enumerated'] += len(paths)
    ctx.need(paths, 'Step has no returning path')
    checked = 0
    for p in paths:
        term = None           # None unknown / True / False : is the solver terminated (since the last _Step)
        finalized = False
        linked = {}           # local -> 'term' (truthy iff terminated) | 'none' (known None)
        feasible, unknown = True, None
        for e in p.events:
            if e[0] == 'cond':
                t_, tr = e[1], e[2]
                while isinstance(t_, ast.UnaryOp) and isinstance(t_.op, ast.Not):
                    t_, tr = t_.operand, not tr
                if isinstance(t_, ast.Attribute) and t_.attr == '_live' and isinstance(t_.value, ast.Name) and t_.value.id == sn:
                    if not tr:
                        finalized = True      # a solver that is not live has been finalized (Finalize clears _live) and has nothing pending
                    continue
                if term_call(t_):
                    val = tr
                elif isinstance(t_, ast.Name) and t_.id in linked:
                    val = tr if linked[t_.id] == 'term' else ('infeasible' if tr else None)
                elif isinstance(t_, ast.Compare) and len(t_.ops) == 1 and isinstance(t_.ops[0], (ast.Is, ast.IsNot)) and isinstance(t_.left, ast.Name) and t_.left.id in linked \
                        and isinstance(t_.comparators[0], ast.Constant) and t_.comparators[0].value is None:
                    isnone = tr if isinstance(t_.ops[0], ast.Is) else not tr
                    val = (not isnone) if linked[t_.left.id] == 'term' else (None if isnone else 'infeasible')
                else:
                    if has_term(t_) or any(isinstance(x, ast.Name) and x.id in linked for x in ast.walk(t_)):
                        unknown = t_
                    continue
                if val == 'infeasible' or (val is not None and term is not None and val != term):
                    feasible = False
                    break
                if val is not None:
                    term = val
            elif e[0] in ('stmt', 'partial'):
                st = e[1]
                if calls_where(st, lambda c: self_call(c, '_Step', sn), include_lambda=False):
                    term, finalized = None, False
                    linked = {k: v for k, v in linked.items() if v != 'term'}
                if calls_where(st, lambda c: self_call(c, 'Finalize', sn), include_lambda=False):
                    finalized = True
                if isinstance(st, ast.Assign) and all(isinstance(x, ast.Name) for x in st.targets):
                    v = st.value
                    core = v.values[0] if isinstance(v, ast.BoolOp) and isinstance(v.op, ast.Or) and len(v.values) == 2 and isinstance(v.values[1], ast.Constant) and v.values[1].value is None else v
                    for x in st.targets:
                        if term_call(core):
                            linked[x.id] = 'term'
                        elif isinstance(v, ast.Constant) and v.value is None:
                            linked[x.id] = 'none'
                        else:
                            linked.pop(x.id, None)
                            if has_term(v):
                                unknown = v
        if not feasible or p.exit != 'return':
            if feasible and p.exit == 'fall':
                pass
            else:
                continue
        checked += 1
        if term is False or finalized:
            continue
        ctx.need(unknown is None, 'Step: cannot decide the termination state on path %s (unrecognised use of Terminated(): %s)' % (p.describe(6), unparse(unknown)[:60] if unknown is not None else ''))
        ctx.bad('AbstractSolver.Step#stopped-without-Finalize', 'Step can return with the solver terminated and Finalize() not called since the last iteration (path %s): a solver found already stopped on entry is never finalized, '
                'so a lazily logging solver (Powell) never writes its last generation to the step monitor' % p.describe(6), f, p.exit_node if p.exit_node is not None else f.node)
        return
    ctx.need(checked >= 2, 'Step: expected >= 2 feasible returning paths, found %d' % checked)
    ctx.ok('AbstractSolver.Step#stopped-is-finalized', '%d feasible returning paths: terminated => Finalize() since the last _Step' % checked, f, f.node)


@rule('C04.p', min_instances=4)
def a_replaced_evaluation_monitor_receives_the_evaluations(ctx):
    """the decorated objective captures the evaluation monitor when it is built (wrap_function binds it): a method that replaces self._evalmon must invalidate the objective on every path, otherwise the monitor installed by SetEvaluationMonitor after the first step never receives another evaluation (staleness analysis shared with C01.i / C02.c / C03.c; repair 9e75e84)"""
    from . import invalidate
    from .c01 import CONCRETE_SOLVERS
    for key, anchor in CONCRETE_SOLVERS.items():
        cls = ctx.cls(anchor)
        n, decoin = invalidate.check_class(ctx, key, cls, only_attrs={'_evalmon'}, label_prefix=key + ':')
        ctx.need('_evalmon' in decoin, '%s: the evaluation monitor is not captured by the decorator?' % cls.name)


@rule('C04.q', min_instances=5)
def monitors_record_the_vector_that_was_evaluated(ctx):
    """the evaluation monitor holds exactly the (x, cost(x)) pairs and the step monitor the best x per generation: every Monitor stores listify(x), and listify gives back a LIST for every iterable - only a 0-d array is a scalar (a length-1 parameter vector unwrapped to a bare number is no longer the x the cost was called with); shared with C20.h"""
    from .c20 import every_call_is_recorded_by_value
    every_call_is_recorded_by_value(ctx)
