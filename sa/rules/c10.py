"""C10 - termination conditions mean what they say, alone and in combination.

Decided: for each primitive condition the set of paths that return the
"satisfied" answer, as a boolean function of its atomic tests, equals the
documented predicate (truth table over the atoms; specification table A.1 of
DESIGN.md, written as python expressions and canonicalised by the same term
builder); And/When require all members, Or any member, the info paths name only
satisfied members; every factory's doc string carries exactly its keyword
settings under its own name and the inner function is named so that type()
finds the factory (state round trip).
Round 5 (hunt): compound conditions keep (member, result) pairs (repair
49ce088); GradientNormTolerance computes the documented norm (repair 1b9ea7b)
of the gradient of cost(x, *ExtraArgs) (repair 347d7d1).
NOT decided: numerical evaluation on concrete histories, TimeLimits' clock,
the documented duplicate-type limitation of state().
"""
import ast

from ..core import rule
from ..srcmodel import AnalysisError, walk_no_nested, unparse, norm_stmt
from .. import terms as T
from .. import pathcond as PC
from .common import *

TM = 'mystic.termination'

HIST = ['hist = inst.energy_history', 'lg = len(hist)']
GENS = ['gens = 0 if generations is None else int(generations)']
COG = '(hist[-gens]-hist[-1]) <= {tol} or hist[-gens] == hist[-1]'

# factory -> (prelude, satisfied-iff expression)        [DESIGN.md appendix A.1]
SPEC = {
    'VTR': (HIST, 'lg and abs(hist[-1] - target) <= tolerance'),
    'ChangeOverGeneration': (HIST + GENS, 'lg and not (lg <= gens) and (' + COG.format(tol='tolerance') + ')'),
    'NormalizedChangeOverGeneration': (HIST + GENS,
                                       'lg and not (lg <= gens) and (hist[-gens] == hist[-1] or '
                                       '2.0*(hist[-gens]-hist[-1]) <= tolerance*(abs(hist[-gens])+abs(hist[-1])) + eta)'),
    'CandidateRelativeTolerance': (['sim = numpy.array(inst.population)', 'fsim = numpy.array(inst.popEnergy)'],
                                   'len(fsim[1:]) and (max(numpy.ravel(abs(sim[1:]-sim[0]))) <= xtol and max(abs(fsim[0]-fsim[1:])) <= ftol)'),
    'SolutionImprovement': (['best = numpy.array(inst.bestSolution)', 'trial = numpy.array(inst.trialSolution)',
                             'answer = numpy.add.reduce(abs(best - trial).T)'],
                            '(isinstance(answer, numpy.ndarray) and max(answer) <= tolerance) or '
                            '(not isinstance(answer, numpy.ndarray) and answer <= tolerance)'),
    'NormalizedCostTarget': (HIST + GENS,
                             'lg and (((gens and fval is None) and (lg > gens and ((hist[-gens]-hist[-1]) <= 0 or hist[-gens] == hist[-1])))'
                             ' or (not (gens and fval is None) and (not gens and fval is None))'
                             ' or (not (gens and fval is None) and not (not gens and fval is None) and abs(hist[-1]-fval) <= abs(tolerance * fval)))'),
    'VTRChangeOverGeneration': (HIST + GENS, 'lg and ((lg > gens and (' + COG.format(tol='gtol') + ')) or abs(hist[-1] - target) <= ftol)'),
    'PopulationSpread': (['sim = numpy.array(inst.population)'], 'numpy.all(abs(sim - sim[0]) <= abs(tolerance * sim[0]))'),
    'EvaluationLimits': (['gens = inst.generations', 'eval = inst._fcalls[0]'],
                         'eval >= (inf if evaluations is None else evaluations) or gens >= (inf if generations is None else generations)'),
    'TimeLimits': ([], '(timer() - start[0]) >= delta[0]'),
    'SolverInterrupt': ([], 'inst._EARLYEXIT'),
    'CollapseWeight': (HIST, 'lg and not (lg <= generations) and ct.collapse_weight(inst._stepmon, **kwds)'),
    'CollapsePosition': (HIST, 'lg and not (lg <= generations) and ct.collapse_position(inst._stepmon, **kwds)'),
    'CollapseAt': (HIST, 'lg and not (lg <= generations) and ct.collapse_at(inst._stepmon, **kwds)'),
    'CollapseAs': (HIST, 'lg and not (lg <= generations) and ct.collapse_as(inst._stepmon, **kwds)'),
    'CollapseCost': (HIST, 'lg and not (lg <= samples) and ct.collapse_cost(inst._stepmon, **kwds)'),
}
GRADIENT = 'GradientNormTolerance'


def _factories(ctx):
    m = ctx.model.module(TM)
    out = []
    for q, f in m.funcs.items():
        if '.' in q or f.cls is not None:
            continue
        # a factory defines one nested condition function (inst, info=False) and returns it
        inners = [g for g in m.funcs.values() if g.parent is f and g.args()[:2] == ['inst', 'info']]
        if len(inners) == 1:
            out.append((q, f, inners[0]))
    return out


def _classify(ret, b):
    v = ret.value
    if isinstance(v, ast.Call) and isinstance(v.func, ast.Name) and v.func.id == 'info' and len(v.args) == 1:
        a = v.args[0]
        names = [n.id for n in ast.walk(a) if isinstance(n, ast.Name)]
        if 'doc' in names:
            return 'sat'
        if names == ['null']:
            return 'unsat'
    if isinstance(v, ast.Name) and v.id == 'warn':
        return None
    return 'other'


@rule('C10.c', min_instances=16)
def primitive_predicates(ctx, only=None):
    """each primitive condition answers 'satisfied' exactly on the documented predicate (truth-table equivalence over its atomic tests)"""
    seen = set()
    for name, fac, inner in _factories(ctx):
        if name == GRADIENT or (only is not None and name not in only):
            continue
        if name not in SPEC:
            ctx.undecided('termination factory %s has no specification row' % name)
        seen.add(name)
        ctx.touch(inner)

        def follow(st):
            # `if info: info = ...` rebinding of the reporter is not part of the predicate
            return not (isinstance(st, ast.Assign) and isinstance(st.targets[0], ast.Name) and st.targets[0].id == 'info')
        # closure cells that carry settings (EvaluationLimits: maxfun / maxiter, as one-element lists or plain values) are
        # replaced by the value the factory gives them, so the predicate is read in terms of the factory's parameters
        prelude_f = [st for st in fac.node.body if st.lineno < inner.node.lineno and not (isinstance(st, ast.Expr) and isinstance(st.value, ast.Constant))]
        cenv = {}
        if name == 'EvaluationLimits':
            params_f = set(fac.args())
            for nm in sorted(set(x for st in prelude_f for x in assigned_names(st)) - params_f - set(NOT_SETTINGS)):
                v = combined_value(prelude_f, nm)
                if v is not None:
                    cenv[nm] = v
        forms, n = PC.outcome_formulas(inner.node, _classify, follow=follow, builder=T.Builder(env=cenv),
                                       relevant=lambda nd: not (isinstance(nd, ast.Name) and nd.id == 'info'))
        ctx.stats['paths_enumerated'] += n
        if 'other' in forms:
            ctx.bad(name, 'a return of %s is neither info(doc...) nor info(null)' % inner.name, inner, inner.node)
            continue
        # the `if info:` test is an artefact of the reporter idiom: drop it from the formulas
        got = _drop_atom(forms.get('sat', ('or',)), ('name', 'info'))
        prelude, expr = SPEC[name]
        want = PC.spec_formula(expr, prelude)
        eq, cex, rows = PC.equivalent(got, want)
        ctx.stats['truth_table_rows'] += rows
        if eq:
            ctx.ok(name, 'satisfied iff %s  (%d truth-table rows)' % (expr[:90], rows), inner, inner.node)
        else:
            true_atoms = [T.show(a)[:60] for a, v in cex.items() if v]
            ctx.bad(name, 'the condition does not answer "satisfied" exactly when `%s`: e.g. with the tests {%s} true and all others false '
                    'the code says %s' % (expr, '; '.join(true_atoms), PC.ev(got, cex)), inner, inner.node,
                    statement='predicate of %s differs from its documented form' % name)
    missing = (set(SPEC) if only is None else set(only)) - seen
    ctx.need(not missing, 'termination factories vanished: %s' % sorted(missing))
    # look-back index and guard agree: hist[-gens] is used only behind lg > gens
    for name, fac, inner in _factories(ctx):
        if only is not None and name not in only:
            continue
        idx = [n for n in walk_no_nested(inner.node) if isinstance(n, ast.Subscript) and isinstance(n.value, ast.Name) and n.value.id == 'hist'
               and isinstance(n.slice, ast.UnaryOp) and isinstance(n.slice.operand, ast.Name)]
        for n in idx:
            ctx.check(n.slice.operand.id == 'gens', name + '#lookback', 'look-back index is -gens',
                      'look-back index is -%s, not the guarded -gens' % n.slice.operand.id, inner, n)


def _drop_atom(f, atom):
    """replace occurrences of literal atom / not atom inside conjunctions by True"""
    if isinstance(f, tuple) and f and f[0] in ('and', 'or'):
        return (f[0],) + tuple(_drop_atom(x, atom) for x in f[1:])
    if f == atom or f == ('not', atom):
        return ('const', True)
    return f


@rule('C10.e', min_instances=1)
def gradient_norm(ctx):
    """GradientNormTolerance: satisfied iff Lnorm(gradient, p=norm) <= tolerance, gradient approximated from the raw cost at the best solution when absent"""
    m = ctx.model.module(TM)
    inner = m.funcs.get('GradientNormTolerance._GradientNormTolerance')
    ctx.need(inner is not None, 'GradientNormTolerance vanished')
    ctx.touch(inner)

    def follow(st):
        return not (isinstance(st, ast.Assign) and isinstance(st.targets[0], ast.Name) and st.targets[0].id == 'info')
    forms, n = PC.outcome_formulas(inner.node, _classify, follow=follow)
    got = _drop_atom(forms.get('sat', ('or',)), ('name', 'info'))
    pre = ["g0 = getattr(inst, 'gradient', [None])[-1]"]
    # the gradient is that of the registered objective: the raw cost WITH the registered ExtraArgs (inst._cost[2]; None before the
    # first registration, hence the accepted `or ()` spelling)
    eq = False
    G = 'Lnorm(approx_fprime(inst.bestSolution, inst._cost[1], _epsilon%s), p=norm, axis=0) <= tolerance'
    specs = ['(g0 is None and %s) or (not (g0 is None) and Lnorm(g0, p=norm, axis=0) <= tolerance)' % (G % (', ' + extra))
             for extra in ('*inst._cost[2]',)]        # (`*(args or ())` is NOT accepted: the truth value of an ndarray of ExtraArgs raises, a falsy one is dropped)
    # ... or with the None case spelled out (no ExtraArgs registered yet: the cost is called with x alone)
    specs.append('(g0 is None and inst._cost[2] is None and %s) or (g0 is None and not (inst._cost[2] is None) and %s) or (not (g0 is None) and Lnorm(g0, p=norm, axis=0) <= tolerance)'
                 % (G % '', G % ', *inst._cost[2]'))
    for spec in specs:
        want = PC.spec_formula(spec, pre)
        e_, cex, rows = PC.equivalent(got, want)
        ctx.stats['truth_table_rows'] += rows
        eq = eq or e_
    ctx.check(eq, 'GradientNormTolerance', 'satisfied iff Lnorm(grad of cost(x, *ExtraArgs), p=norm) <= tolerance',
              'GradientNormTolerance predicate is not `Lnorm(approx_fprime(best, raw cost, eps, *ExtraArgs), p=norm) <= tolerance` (a cost registered with ExtraArgs must be differentiated with them)', inner, inner.node)


@rule('C10.a', min_instances=17)
def state_round_trip(ctx):
    """every factory: inner function named _<Factory>; its __doc__ is '<Factory> with %s' % {param: param for every parameter}; the factory returns it"""
    facs = _factories(ctx)
    ctx.need(len(facs) >= 17, 'expected >= 17 termination factories, found %d' % len(facs))
    for name, fac, inner in facs:
        ctx.touch(fac)
        params = fac.args()
        a = fac.node.args
        kw = a.kwarg.arg if a.kwarg else None
        docs = [s for s in fac.node.body if isinstance(s, ast.Assign) and isinstance(s.targets[0], ast.Name) and s.targets[0].id == 'doc']
        ctx.need(docs, '%s: no doc assignment' % name)
        b = T.Builder()
        for s in fac.node.body:
            if s is docs[0]:
                break
            if isinstance(s, ast.Assign) and isinstance(s.value, ast.Dict):
                b.exec_stmt(s)
        dt = T.simp(b.t(docs[0].value))
        ok_ = dt[0] == 'fmt' and dt[1] == ('const', '%s with %%s' % name)
        keys_ok = False
        if ok_:
            d = dt[2]
            if d[0] == 'dict':
                keys = [k[1] if k and k[0] == 'const' else None for k, v in d[1:]]
                vals_ok = all(v == ('name', k[1]) for k, v in d[1:] if k and k[0] == 'const')
                keys_ok = sorted(keys) == sorted(params) and vals_ok
            elif d == ('name', kw):
                # Collapse* with **kwds: kwds.update({param: param, ...}) must precede
                upd = [c for c in calls_where(fac.node, lambda c: callee_text(c) == '%s.update' % kw)]
                if upd:
                    ut = T.simp(b.t(upd[0].args[0]))
                    if ut[0] == 'dict':
                        keys = [k[1] for k, v in ut[1:]]
                        keys_ok = sorted(keys) == sorted(params) and all(v == ('name', k[1]) for k, v in ut[1:]) and upd[0].lineno < docs[0].lineno
        ctx.check(ok_ and keys_ok, name + '#doc', "doc = '%s with %%s' %% {every parameter: its value}" % name,
                  'the state string of %s no longer carries exactly its keyword settings: %s' % (name, T.show(dt)[:150]), fac, docs[0])
        setdoc = [s for s in fac.node.body if isinstance(s, ast.Assign) and ''.join(unparse(s.targets[0]).split()) == '%s.__doc__' % inner.name]
        ret = [s for s in fac.node.body if isinstance(s, ast.Return)]
        good = inner.name == '_' + name and bool(setdoc) and unparse(setdoc[-1].value) == 'doc' and bool(ret) and unparse(ret[-1].value) == inner.name
        ctx.check(good, name + '#wiring', '_%s.__doc__ = doc; return _%s' % (name, name),
                  '%s no longer returns its inner function _%s carrying doc (type()/state() cannot rebuild it)' % (name, name), fac, fac.node)
    # the interrogators
    st = ctx.func(TM + ':state')
    src = ''.join(unparse(st.node).split())
    ctx.check("termdoc.split('with',1)" in src and '_state[termdoc]=eval(kwds)' in src and "startswith('with')" in src and '_state.update(state(term))' in src,
              'state', "splits on ' with ', evals the settings, recurses into compound conditions", 'state() no longer parses "<kind> with <kwds>"', st, st.node)
    ty = ctx.func(TM + ':type')
    src = ''.join(unparse(ty.node).split())
    ctx.check('getattr(module,condition.__name__[1:])' in src, 'type', 'factory = module.<inner name without the leading underscore>',
              'type() no longer maps _Name to the factory Name', ty, ty.node)


@rule('C10.b', min_instances=5)
def compound_conditions(ctx):
    """When/And: all(member results); Or: any(member results) with unsatisfied members dropped before reporting; every member is evaluated"""
    W = ctx.cls(TM + ':When')
    A = ctx.cls(TM + ':And')
    O = ctx.cls(TM + ':Or')
    ctx.check('__call__' not in A.methods and W in ctx.model.mro(A), 'And', 'And inherits When.__call__ (all members)',
              'And no longer uses When.__call__', A.methods.get('__new__'), A.node)
    # behavioural summaries against reference transcriptions (comprehension-vs-loop, renamed locals, temporaries and
    # conditional-expression-vs-early-return spellings are absorbed by the normal forms)
    from .c10_refs import REFS
    from .. import siblings as SB
    for cls, agg, what in ((W, 'all', 'every member evaluated with (solver, info); all(results); info answers empty unless all are satisfied'),
                           (O, 'any', 'every member evaluated with (solver, info); any(results); unsatisfied members dropped before the info answers')):
        f = cls.methods.get('__call__')
        ctx.need(f is not None, '%s.__call__ vanished' % cls.name)
        ctx.touch(f)
        got, want = SB.agree(f.node, REFS['%s:%s.__call__' % (TM, cls.name)])
        ctx.stats['terms_compared'] += len(got)
        ctx.check(got == want, cls.name + '.__call__', what, '%s.__call__ evaluates or reports its members differently: %s' % (cls.name, SB.diff(got, want)), f, f.node)
        # the aggregate itself, as a separate fact (the most important one)
        # (the aggregate over the member RESULTS: the local that holds what the members answered - `stop` -, not the identity
        # scan of the info='not' branch)
        res_names = set(st.targets[0].id for st in stmts_of(f.node) if isinstance(st, ast.Assign) and len(st.targets) == 1 and isinstance(st.targets[0], ast.Name)
                        and any(isinstance(c_, (ast.ListComp, ast.GeneratorExp, ast.DictComp)) and any(isinstance(g_.iter, ast.Name) and g_.iter.id == f.args()[0] for g_ in c_.generators)
                                for c_ in ast.walk(st.value)))
        res_names |= {'stop'}
        aggs = [c for c in calls_where(f.node, lambda c: callee_text(c) in ('all', 'any'), include_lambda=False)
                if any(isinstance(n_, ast.Name) and n_.id in res_names for n_ in ast.walk(c))]
        ctx.check(bool(aggs) and all(callee_text(c) == agg for c in aggs), cls.name + '.__call__#aggregate', 'result = %s(member results)' % agg,
                  '%s aggregates its members with %s' % (cls.name, sorted(set(callee_text(c) for c in aggs))), f, aggs[0] if aggs else f.node)


@rule('C10.f', min_instances=3)
def members_are_stored_one_by_one(ctx):
    """When/And/Or.__new__: on every path the tuple is built either from a list wrapped around one condition, from the caller's own *args tuple, or from a value the path has established NOT to be a compound condition (isinstance(., When) false); otherwise a compound given as the only argument is unpacked into its members (When(Or(a,b)) would test all(a,b))"""
    import itertools
    from .. import pathcond as PC
    W = ctx.cls(TM + ':When')
    for cname in ('When', 'And', 'Or'):
        cls = ctx.cls(TM + ':' + cname)
        new = cls.methods.get('__new__')
        ctx.need(new is not None, '%s.__new__ vanished' % cname)
        ctx.touch(new)
        vararg = new.node.args.vararg.arg if new.node.args.vararg else None
        rts = return_terms(new.node)
        ctx.need(rts, '%s.__new__: no return' % cname)
        ctx.stats['paths_enumerated'] += len(rts)
        bad = None
        for p, term, b, conds in rts:
            ctx.need(term[0] == 'call' and T.show(term[1]) == 'tuple.__new__' and len(term[2]) == 2, '%s.__new__ returns %s' % (cname, T.show(term)[:60]))
            v = term[2][1]
            if v[0] in ('list', 'tuple'):
                # wrapped: each element is stored as one member
                continue
            if vararg is not None and v == ('name', vararg):
                continue     # the caller's own argument tuple: a plain tuple by the language, one member per argument
            # v is spliced: the path must know that v is not a compound condition
            isw = ('call', ('name', 'isinstance'), (v, ('name', 'When')), ())
            lits = [(c if truth else ('not', c)) for c, truth, _ in conds]
            atoms = []
            for l in lits:
                for a in PC.leaves(l):
                    if a not in atoms:
                        atoms.append(a)
            ctx.need(len(atoms) <= 12, '%s.__new__: too many atoms' % cname)
            if isw not in atoms:
                bad = (p, v)
                break
            sat_with_compound = False
            for bits in itertools.product((False, True), repeat=len(atoms)):
                val = dict(zip(atoms, bits))
                ctx.stats['truth_table_rows'] += 1
                if val[isw] and all(PC.ev(l, val) for l in lits):
                    sat_with_compound = True
                    break
            if sat_with_compound:
                bad = (p, v)
                break
        ctx.check(bad is None, cname + '.__new__', 'on all %d paths members are stored one by one (a compound argument is never unpacked)' % len(rts),
                  '%s.__new__ can build its tuple from %s without having excluded that it is a compound condition: a compound given as the only '
                  'argument is unpacked into its members (path %s)' % (cname, T.show(bad[1])[:40] if bad else '', bad[0].describe(6) if bad else ''),
                  new, bad[0].exit_node if bad else new.node, statement='%s.__new__ splices a possibly compound argument' % cname)


@rule('C10.d', min_instances=5)
def collapse_conditions_message(ctx):
    """Collapse* conditions call their detector with their own keywords and report doc + ' at ' + collapse"""
    det = {'CollapseWeight': 'collapse_weight', 'CollapsePosition': 'collapse_position', 'CollapseAt': 'collapse_at',
           'CollapseAs': 'collapse_as', 'CollapseCost': 'collapse_cost'}
    for name, fac, inner in _factories(ctx):
        if name not in det:
            continue
        calls = calls_where(inner.node, lambda c: callee_text(c) == 'ct.' + det[name])
        ok_call = len(calls) == 1 and ''.join(unparse(calls[0]).split()) == 'ct.%s(inst._stepmon,**kwds)' % det[name]
        rets = [r for r in walk_no_nested(inner.node) if isinstance(r, ast.Return) and 'doc' in unparse(r.value)]
        ok_msg = len(rets) == 1 and ''.join(unparse(rets[0].value).split()) == "info(doc+'at%s'%str(collapsed))"
        ctx.check(ok_call and ok_msg, name, "detector %s(inst._stepmon, **kwds); message doc + ' at ' + str(collapse)" % det[name],
                  '%s no longer calls its own detector with its own keywords / reports doc + " at " + collapse' % name, inner, rets[0] if rets else inner.node)


# captured locals that are not settings (with the reason they are exempt from C10.g)
NOT_SETTINGS = {'doc': 'the state string (C10.a)', 'kwds': 'the keyword dictionary (C10.a / C10.d)', '_kwds': 'the keyword dictionary (C10.a)',
                'timer': 'the clock TimeLimits reads (not decided)', 'start': 'the start time of TimeLimits (not decided)', 'delta': 'TimeLimits converts a timedelta to seconds (clock, not decided)', 'time': 'module'}


@rule('C10.g', min_instances=17)
def settings_reach_the_predicate_unchanged(ctx):
    """every setting the inner predicate reads is the factory's own parameter, never reassigned on the way; the only normalisation allowed is `None -> default constant` (EvaluationLimits: no limit = inf): on each path of the factory's prelude a captured cell holds the parameter itself, or a constant on a path that has established `parameter is None`"""
    for name, fac, inner in _factories(ctx):
        ctx.touch(fac)
        params = set(fac.args()) | ({fac.node.args.kwarg.arg} if fac.node.args.kwarg else set())
        # names the inner function reads but does not bind
        bound = set(inner.args()) | set(x for st in stmts_of(inner.node) for x in assigned_names(st))
        for n in walk_no_nested(inner.node):
            if isinstance(n, (ast.Import, ast.ImportFrom)):
                bound.update((a.asname or a.name).split('.')[0] for a in n.names)
            elif isinstance(n, (ast.comprehension,)):
                bound.update(x.id for x in ast.walk(n.target) if isinstance(x, ast.Name))
            elif isinstance(n, ast.Lambda):
                bound.update(a.arg for a in n.args.args)
        free = set(n.id for n in ast.walk(inner.node) if isinstance(n, ast.Name) and isinstance(n.ctx, ast.Load)) - bound
        prelude = [st for st in fac.node.body if st.lineno < inner.node.lineno and not (isinstance(st, ast.Expr) and isinstance(st.value, ast.Constant))]
        stored = {}
        for st in prelude:
            for sub in [st] + [x for x in walk_no_nested(st) if isinstance(x, ast.stmt)]:
                for nm in assigned_names(sub):
                    stored.setdefault(nm, sub)
        # (a) captured parameters are never reassigned
        bad = [p for p in sorted(free & params) if p in stored]
        ctx.check(not bad, name + '#parameters', 'captured parameters %s are never reassigned' % sorted(free & params),
                  '%s reassigns its setting %s before the predicate reads it (%s): the condition no longer tests the documented value'
                  % (name, bad, norm_stmt(stored[bad[0]])[:80] if bad else ''), fac, stored[bad[0]] if bad else fac.node)
        # (b) captured locals derived from parameters: identity or None -> constant
        cells = sorted(n for n in free if n in stored and n not in params and n not in NOT_SETTINGS)
        if not cells:
            continue
        paths = enumerate_block(prelude, unroll=(0, 1))
        ctx.stats['paths_enumerated'] += len(paths)
        for cell in cells:
            wrong = None
            runs = []
            for p in paths:
                b, conds = symbolic_run(p)
                v = b.env.get(cell)
                if v is not None:
                    v = T.simp(v)
                    # a conditional expression is the same thing as a branch: one run per case
                    for cl, leaf in T.cases(v):
                        runs.append((p, list(leaf[1:]) if leaf[0] in ('list', 'tuple') else [leaf], [(c, tr) for c, tr, _ in conds] + list(cl)))
            # the parameter each slot of the cell stands for: the one it holds on the paths that leave it alone
            owner = {}
            for p, elems, lits in runs:
                for k, e in enumerate(elems):
                    if e[0] == 'name' and e[1] in params:
                        owner.setdefault(k, e[1])
            for p, elems, lits in runs:
                for k, e in enumerate(elems):
                    if e[0] == 'name' and e[1] in params:
                        if owner.get(k) != e[1]:
                            wrong = (p, e, 'the cell holds different settings on different paths')
                        continue
                    used = [x for x in T.subterms(e) if isinstance(x, tuple) and len(x) == 2 and x[0] == 'name' and x[1] in params]
                    if used:
                        wrong = (p, e, 'the setting is transformed')
                        break
                    own = owner.get(k)
                    if own is None:
                        continue      # a constant on every path: not a setting at all
                    isnone = ('cmp', 'is', ('name', own), ('const', None))
                    if (isnone, True) not in lits:
                        wrong = (p, e, 'a constant replaces the setting %s on a path that has not established `%s is None`' % (own, own))
                        break
                if wrong:
                    break
            ctx.check(wrong is None, '%s#%s' % (name, cell), '%s holds the parameter itself, or the default only where the parameter is None' % cell,
                      '%s: captured value %s = %s - %s (a legal setting such as 0 would be replaced)' % (
                          name, cell, T.show(wrong[1])[:60] if wrong else '', wrong[2] if wrong else ''), fac, stored[cell])


@rule('C10.h', min_instances=1)
def gradient_norm_is_the_documented_norm(ctx):
    """GradientNormTolerance documents sum(abs(gradient)**norm)**(1/norm) <= tolerance and computes the left side with math.distance.Lnorm: Lnorm takes the absolute value BEFORE the power (reference shared with C18.f) - abs(g**p) is invalid for a fractional p and a negative component, and the function's own handler then silently answers with the infinity norm"""
    from .c18_refs import REFS
    from .. import siblings as SB
    a = 'mystic.math.distance:Lnorm'
    f = ctx.func(a)
    got, want = SB.agree(f.node, REFS[a], strict_casts=True)
    ctx.stats['terms_compared'] += len(got)
    ctx.check(got == want, 'Lnorm', 'p=0: count of nonzeros; p=inf: max|w|; else (sum |w|**p)**(1/p)', 'Lnorm (behind GradientNormTolerance) differs from its definition: %s' % SB.diff(got, want)[:400], f, f.node)
