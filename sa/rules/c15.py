"""C15 - penalty methods are zero on the feasible set and follow their formulas.

Decided: the nine penalty factories agree with a reference transcription of
their documented formulas (table A.2), compared as behavioural summaries
(path conditions -> effects -> returned term, canonicalised; temporaries,
renames and algebraic regrouping are absorbed); the closure family
error/iter/iteration/store/stored/clear is identical across the nine up to
the documented differences and forwards to nested penalties; all eight
attributes are attached and ptype names the factory; every non-exceptional path
of the evaluator returns term + decorated function, ZeroDivisionError gives inf;
sign analysis (k>0, h>0): the added term is zero on the feasible side and
positive on the violated side; coupler.and_/or_/not_ aggregate with sum/min/
negation.  Round 4: coupler.and_/or_/not_ hand k=1 by default whatever ptype is (abstract
interpretation of the settings prologue over all keyword scenarios);
as_penalty.rnorm is the uncast Euclidean displacement.
Round 5 (hunt): as_penalty measures the displacement on a copy (repair
af222c8).
Round 6: mystic.penalty takes log / inf from numpy.
NOT decided: numeric values.
"""
import ast

from ..core import rule
from ..srcmodel import AnalysisError, walk_no_nested, unparse, norm_stmt
from .. import terms as T
from .. import siblings as SB
from .. import signabs as SG
from .common import *

PN = 'mystic.penalty'
TYPES = ['quadratic_equality', 'linear_equality', 'uniform_equality', 'uniform_inequality', 'barrier_inequality',
         'quadratic_inequality', 'linear_inequality', 'lagrange_inequality', 'lagrange_equality']

HEAD = '''def func(x, *argz, **kwdz):
    try:
        pf = condition(x, *args, **kwds)
    except ZeroDivisionError:
        return inf
'''
P = 'k * pow(h, _n[0])'
REF_FUNC = {
    'quadratic_equality': HEAD + '    return %s * pf**2 + f(x, *argz, **kwdz)\n' % P,
    'linear_equality': HEAD + '    return %s * abs(pf) + f(x, *argz, **kwdz)\n' % P,
    'uniform_equality': HEAD + '    return (%s if pf else 0.0) + f(x, *argz, **kwdz)\n' % P,
    'uniform_inequality': HEAD + '    return (%s if pf > 0 else 0.0) + f(x, *argz, **kwdz)\n' % P,
    'barrier_inequality': HEAD + '    if pf > 0:\n        return inf\n    return -log(-pf) / (2 * %s) + f(x, *argz, **kwdz)\n' % P,
    'quadratic_inequality': HEAD + '    return 2 * %s * max(0., pf)**2 + f(x, *argz, **kwdz)\n' % P,
    'linear_inequality': HEAD + '    return 2 * %s * abs(max(0., pf)) + f(x, *argz, **kwdz)\n' % P,
    'lagrange_inequality': HEAD + '''    beta = 0.
    K = k
    for i in range(_n[0]):
        beta = beta + 2 * K * max(-beta / (2 * K), stored(i))
        K = K * h
    mpf = max(-beta / (2 * K), pf)
    return K * mpf**2 + beta * mpf + f(x, *argz, **kwdz)
''',
    'lagrange_equality': HEAD + '''    lam = 0.
    K = k
    for i in range(_n[0]):
        lam = lam + 2 * K * stored(i)
        K = K * h
    return K * pf**2 + lam * pf + f(x, *argz, **kwdz)
''',
}
REF_ERROR = {
    'equality': '''def error(x):
    try:
        rms = condition(x, *args, **kwds)**2
    except ZeroDivisionError:
        return inf
    if hasattr(_f[0], 'error'): rms += _f[0].error(x)**2
    return rms**0.5
''',
    'inequality': '''def error(x):
    try:
        rms = max(0., condition(x, *args, **kwds))**2
    except ZeroDivisionError:
        return inf
    if hasattr(_f[0], 'error'): rms += _f[0].error(x)**2
    return rms**0.5
''',
}
REF_COMMON = {
    'iter': '''def iter(i=None):
    if i is None: _n[0] += 1
    else: _n[0] = i
    if hasattr(_f[0], 'iter'): _f[0].iter(i)
    return
''',
    'iteration': 'def iteration():\n    return _n[0]\n',
    'stored': '''def stored(i=None):
    if i is None: return _y[:]
    try: return _y[i]
    except IndexError: return 0.0
''',
    'clear': '''def clear():
    _n[0] = 0
    [_y.pop() for i in range(len(_y))]
    if hasattr(_f[0], 'clear'): _f[0].clear()
    return
''',
}
REF_STORE = {
    'plain': '''def store(x,i=None):
    if hasattr(_f[0], 'store'): _f[0].store(x,i)
    return
''',
    'lagrange': '''def store(x,i=None):
    try:
        y = condition(x, *args, **kwds)
    except ZeroDivisionError:
        y = inf
    l = len(_y)
    if i is None: i = iteration()
    if i >= l: _y.extend([0.]*(i-l) + [y])
    else: _y[i] = y
    if hasattr(_f[0], 'store'): _f[0].store(x,i)
    return
''',
}


def _closure(ctx, typ, name):
    q = '%s:%s.%s' % (PN, typ, name)
    return ctx.func(q)


def _cmp(ctx, f, ref_src, construct, what):
    got, want = SB.agree(f.node, ref_src)
    ctx.stats['terms_compared'] += len(got)
    ctx.check(got == want, construct, what, '%s differs from its documented form: %s' % (construct, SB.diff(got, want)), f, f.node)


@rule('C15.c', min_instances=9)
def formulas(ctx):
    """each evaluator agrees, path by path, with the reference transcription of its documented formula (k*h**n*f**2, ..., the two Lagrange recurrences; ZeroDivisionError -> inf)"""
    for typ in TYPES:
        f = _closure(ctx, typ, 'dec.func')
        _cmp(ctx, f, REF_FUNC[typ], typ + '.func', 'evaluator follows the documented expression')


@rule('C15.a', min_instances=54)
def closure_family(ctx, types=None):
    """error/iter/iteration/store/stored/clear agree with the family reference (|f| vs max(0,f); store records only in the Lagrange types; all forward to nested penalties); eight attributes attached; ptype names the factory"""
    for typ in (types or TYPES):
        kind = 'equality' if typ.endswith('_equality') else 'inequality'
        _cmp(ctx, _closure(ctx, typ, 'error'), REF_ERROR[kind], typ + '.error', 'error = |violation| in quadrature with nested errors')
        for name in ('iter', 'iteration', 'stored', 'clear'):
            _cmp(ctx, _closure(ctx, typ, name), REF_COMMON[name], '%s.%s' % (typ, name), 'family closure')
        _cmp(ctx, _closure(ctx, typ, 'store'), REF_STORE['lagrange' if typ.startswith('lagrange') else 'plain'], typ + '.store',
             'store records the condition only for Lagrange types, always forwards')
        dec = _closure(ctx, typ, 'dec')
        attrs = {}
        for st in dec.node.body:
            if isinstance(st, ast.Assign) and isinstance(st.targets[0], ast.Attribute) and isinstance(st.targets[0].value, ast.Name) \
                    and st.targets[0].value.id == 'func':
                attrs[st.targets[0].attr] = st.value
        want = {'func': 'condition', 'iter': 'iter', 'iteration': 'iteration', 'store': 'store', 'clear': 'clear', 'stored': 'stored', 'error': 'error'}
        good = all(a in attrs and isinstance(attrs[a], ast.Name) and attrs[a].id == v for a, v in want.items()) and \
            'ptype' in attrs and const_value(attrs['ptype']) == typ
        ctx.check(good, typ + '.dec#attributes', 'func/ptype/iter/iteration/store/clear/stored/error attached; ptype == %r' % typ,
                  'the penalty returned by %s lacks an attribute or carries the wrong one: %s' % (typ, {a: unparse(v) for a, v in attrs.items()}), dec, dec.node)
        first = dec.node.body[0]
        rets = [s for s in dec.node.body if isinstance(s, ast.Return)]
        ctx.check(isinstance(first, ast.Assign) and ''.join(unparse(first).split()) == '_f[0]=f' and rets and unparse(rets[-1].value) == 'func',
                  typ + '.dec#binding', '_f[0] = f (nested penalty reachable), returns func', '%s.dec no longer registers the decorated function / returns func' % typ, dec, first)


@rule('C15.b', min_instances=9)
def additivity(ctx):
    """every non-exceptional path of every evaluator returns term + f(x,*argz,**kwdz) exactly once (stacked penalties add); exceptional path returns inf"""
    fcall = ('call', ('name', 'f'), (('name', 'x'), ('star', ('name', 'argz'))), ((None, ('name', 'kwdz')),))
    for typ in TYPES:
        f = _closure(ctx, typ, 'dec.func')
        bad = None
        n = 0
        for lits, eff, outc in SB.summary(f.node):
            n += 1
            exc = any(l[0] == 'except' for l in lits)
            val = outc[1] if outc[0] == 'return' else None
            if exc:
                if val != ('name', 'inf'):
                    bad = ('exceptional path returns %s' % T.show(val), lits)
                continue
            if val == ('name', 'inf'):
                if typ != 'barrier_inequality':
                    bad = ('returns inf on a non-exceptional path', lits)
                continue
            coeff = None
            if T.is_poly(val):
                for m, c in val[1]:
                    if m == ((fcall, 1),):
                        coeff = c
                    elif any(a == fcall for a, e in m):
                        coeff = 'nonlinear'
            elif val == fcall:
                coeff = 1
            if coeff != 1:
                bad = ('returns %s: the decorated function is not added exactly once' % T.show(val)[:120], lits)
        ctx.check(bad is None, typ + '.func#additive', '%d paths: term + f(x, *argz, **kwdz); ZeroDivisionError -> inf' % n,
                  '%s: %s' % (typ, bad[0] if bad else ''), f, f.node)


def _added_term(val, fcall):
    return T.simp(T.padd(val, T.pneg(fcall)))


@rule('C15.d', min_instances=12)
def zero_feasible_positive_violated(ctx):
    """sign analysis under k>0, h>0: the added term is zero where the condition is satisfied and positive where it is violated (six polynomial/uniform types; Lagrange types with no stored multipliers)"""
    fcall = ('call', ('name', 'f'), (('name', 'x'), ('star', ('name', 'argz'))), ((None, ('name', 'kwdz')),))
    cond = ('call', ('name', 'condition'), (('name', 'x'), ('star', ('name', 'args'))), ((None, ('name', 'kwds')),))
    powt = ('call', ('name', 'pow'), (('name', 'h'), ('sub', ('name', '_n'), T.num(0))), ())
    for typ in TYPES:
        if typ == 'barrier_inequality':
            ctx.ok(typ + '#sign', 'excluded: a barrier is non-zero inside the feasible set by design (documented)', None, None)
            continue
        f = _closure(ctx, typ, 'dec.func')
        eq = typ.endswith('_equality')
        cases = [('satisfied', SG.ZERO, SG.ZERO)] + ([('violated+', SG.POS, SG.POS), ('violated-', SG.NEG, SG.POS)] if eq else
                                                     [('satisfied-', SG.NEG, SG.ZERO), ('violated', SG.POS, SG.POS)])
        summ = [s for s in SB.summary(f.node, unroll=(0,)) if not any(l[0] == 'except' for l in s[0]) and s[2][0] == 'return']
        ctx.need(summ, 'no normal path in %s.func' % typ)
        for label, sgn, want in cases:
            env = {cond: sgn, ('name', 'k'): SG.POS, ('name', 'h'): SG.POS, powt: SG.POS}
            got = set()
            for lits, eff, outc in summ:
                # path feasibility from sign tests on the condition value
                feas = True
                for l in lits:
                    if l[0] in ('T', 'F'):
                        tv = SG.cond_truth(l[1], env)
                        if tv is not None and tv != (l[0] == 'T'):
                            feas = False
                if not feas:
                    continue
                term = _added_term(outc[1], fcall)
                got.add(SG.eval_sign(term, env))
            ctx.stats['orderings_enumerated'] += 1
            ctx.check(got == {want}, '%s#sign[%s]' % (typ, label), 'condition %s -> added term is %s' % (sgn, want),
                      'with the condition %s (%s) the added penalty term has sign %s, expected %s' % (label, sgn, sorted(got), want), f, f.node)


def _cond_of(body):
    for x in T.subterms(body):
        if isinstance(x, tuple) and x and x[0] == 'call' and x[2] == (('name', '_b0'),):
            return x[1]
    return ('name', '?')


@rule('C15.e', min_instances=4)
def combinators(ctx):
    """coupler.and_ sums its members (zero iff all zero), or_ takes the minimum (zero iff any zero), not_ negates (0 - f / not f by type suffix); additive adds"""
    CP = 'mystic.coupler'
    zero_fn = ('lambda', ('_b0',), (), T.num(0))
    for name, agg in (('and_', 'sum'), ('or_', 'min')):
        f = ctx.func('mystic.coupler:%s' % name)
        rts = return_terms(f.node)
        ctx.need(rts, '%s: no return' % name)
        # what is returned: <some penalty type>(<aggregate over the members at x>, **settings)(<zero function>), locals substituted
        okagg = okwrap = True
        shown = ''
        for p, term, b, conds in rts:
            okp = term[0] == 'call' and term[2] == (zero_fn,) and term[1][0] == 'call' and len(term[1][2]) == 1
            if not okp:
                okwrap = False
                shown = T.show(term)[:100]
                continue
            inner = term[1][2][0]
            want = []
            for comp in ('genexp', 'listcomp'):
                want.append(('lambda', ('_b0',), (), ('call', ('name', agg), ((comp, (('call', ('name', '_b1'), (('name', '_b0'),), ()),), ((('name', '_b1'), ('name', 'penalties'), ()),)),), ())))
            if inner not in want:
                okagg = False
                shown = T.show(inner)[:100]
        ctx.check(okagg, 'coupler.' + name, 'aggregates with %s over every member at x' % agg, 'coupler.%s aggregates as %s' % (name, shown), f, f.node)
        ctx.check(okwrap, 'coupler.%s#wrap' % name, 'wrapped by ptype around a zero function', 'coupler.%s wraps its aggregate as %s' % (name, shown), f, f.node)
    f = ctx.func(CP + ':not_')
    rts = return_terms(f.node)
    ctx.need(rts, 'not_: no return')
    # per path: the function handed to the penalty type is  x -> 0 - condition(x)  where the path knows the *applied* type's name ends
    # with _inequality, and  x -> not condition(x)  where it knows it does not; condition = penalty.func if present, else penalty
    n = 0
    bad = None
    for p, term, b, conds in rts:
        if not (term[0] == 'call' and term[1][0] == 'call' and term[1][2]):
            bad = 'returns %s' % T.show(term)[:80]
            continue
        applied = term[1][1]                       # the penalty type that is applied
        inv = term[1][2][0]
        if not (isinstance(inv, tuple) and inv[0] == 'lambda'):
            bad = 'the inverted condition is %s' % T.show(inv)[:80]
            continue
        suffix_test = ('call', ('attr', ('attr', applied, '__name__'), 'endswith'), (('const', '_inequality'),), ())
        known = None
        for c, tr, _ in conds:
            if c == suffix_test:
                known = tr
        body = inv[3]
        neg = body[0] != 'not'
        n += 1
        if known is None:
            bad = 'the negation does not depend on the name of the applied penalty type (%s)' % T.show(applied)[:40]
        elif known != neg:
            bad = 'an %s type gets %s' % ('inequality' if known else 'equality', T.show(body)[:60])
        else:
            inner_call = body[1] if body[0] == 'not' else None
            if neg:
                # 0 - c(x): a polynomial -c(x)
                if not ('call' in repr(body) and T.simp(T.padd(body, ('call', _cond_of(body), (('name', '_b0'),), ()))) == T.num(0)):
                    bad = 'the inequality negation is %s, not 0 - condition(x)' % T.show(body)[:60]
    ctx.check(bad is None and n >= 2, 'coupler.not_', 'inequality: 0 - f ; equality: not f (decided by the applied type)', 'not_: %s' % bad, f, f.node)
    g = ctx.func(CP + ':additive.dec.func')
    from .. import siblings as SB
    got, want = SB.agree(g.node, 'def func(x, *argz, **kwdz):\n    return f(x, *argz, **kwdz) + penalty(x, *args, **kwds)\n')
    ctx.check(got == want, 'coupler.additive', 'f(x,*argz,**kwdz) + penalty(x,*args,**kwds)', 'additive composes differently: %s' % SB.diff(got, want), g, g.node)


@rule('C15.f', min_instances=2)
def adapters_keep_the_penalty_closure_family(ctx):
    """with_penalty / as_penalty build their result as `@ptype(condition, *args, **kwds) def penalty(x): return 0.0`: the penalty type is the ONLY decorator (anything applied on top - functools.wraps(condition) copies the condition's __dict__ - can replace the iter/clear/error/store closures the type has just attached), only .func and .ptype are set afterwards, and that function is what is returned"""
    CN = 'mystic.constraints'
    for anchor, cond_name in ((CN + ':with_penalty.dec', None), (CN + ':as_penalty', 'rnorm')):
        f = ctx.func(anchor)
        inner = [n for n in f.node.body if isinstance(n, ast.FunctionDef) and n.decorator_list]
        ctx.need(len(inner) == 1, '%s: decorated penalty function not found' % f.qualname)
        pen = inner[0]
        cond = cond_name or f.args()[0]
        want = T.term(ast.parse('ptype(%s, *args, **kwds)' % cond, mode='eval').body)
        bld = T.Builder()
        for st0 in f.node.body:
            if st0 is pen:
                break
            if isinstance(st0, ast.Assign) and all(isinstance(tg, ast.Name) for tg in st0.targets) and not guards_of(st0, stop=f.node):
                if not (isinstance(st0.targets[0], ast.Name) and st0.targets[0].id == 'ptype'):
                    bld.exec_stmt(st0)        # a decorator held in a temporary is the same decorator
        decs = [T.simp(bld.t(d)) for d in pen.decorator_list]
        ctx.check(decs == [want], f.qualname + '#decorators', 'decorated by ptype(%s, *args, **kwds) only' % cond,
                  '%s decorates its penalty with %s: a decorator applied on top of the penalty type can overwrite the closures (iter, clear, error, store, ...) '
                  'the type attached' % (f.qualname, [unparse(d) for d in pen.decorator_list]), f, pen)
        rts = return_terms(pen)
        ctx.check(bool(rts) and all(x[1] == T.num(0) for x in rts), f.qualname + '#zero', 'the decorated function itself adds nothing (returns 0.0)',
                  'the function handed to the penalty type returns %s' % ([T.show(x[1]) for x in rts][:1]), f, pen)
        after = [s for s in f.node.body if s.lineno > pen.lineno]
        sets = [s for s in after if isinstance(s, ast.Assign) and isinstance(s.targets[0], ast.Attribute) and isinstance(s.targets[0].value, ast.Name) and s.targets[0].value.id == pen.name]
        extra = [s for s in sets if s.targets[0].attr not in ('func', 'ptype')]
        other = [s for s in after if s not in sets and not isinstance(s, (ast.Return, ast.Import, ast.ImportFrom))]
        rets = [s for s in after if isinstance(s, ast.Return)]
        good = not extra and not other and len(rets) == 1 and isinstance(rets[0].value, ast.Name) and rets[0].value.id == pen.name
        ctx.check(good, f.qualname + '#result', 'only .func and .ptype are set; the decorated penalty is returned',
                  '%s rewrites the decorated penalty after building it (%s)' % (f.qualname, [norm_stmt(s)[:50] for s in (extra + other)][:2]), f, (extra + other + rets + [pen])[0])


@rule('C15.g', min_instances=3)
def combinator_settings(ctx):
    """coupler.and_ / or_ / not_ hand their keyword settings to the penalty type as documented, whatever else is given: evaluated over every scenario of the caller's keywords (k absent / None / given  x  ptype absent / None / given, abstract interpretation of the settings prologue) the penalty type receives k=1 when k was not given, no k when it was None (the type's own default), the caller's k otherwise, and never a `ptype` keyword"""
    from . import dictsim as DS
    for name in ('and_', 'or_', 'not_'):
        f = ctx.func('mystic.coupler:%s' % name)
        kw = f.node.args.kwarg.arg if f.node.args.kwarg else None
        ctx.need(kw, '%s no longer takes **settings' % name)
        calls = [c for c in ast.walk(f.node) if isinstance(c, ast.Call) and any(k.arg is None and isinstance(k.value, ast.Name) and k.value.id == kw for k in c.keywords)]
        ctx.need(len(calls) == 1, '%s: expected exactly one call that receives **%s' % (name, kw))
        KV, PV = DS.Tok('caller k'), DS.Tok('caller ptype')
        bad = None
        n = 0
        for kname, kval in (('absent', DS.ABSENT), ('None', None), ('given', KV)):
            for pname, pval in (('absent', DS.ABSENT), ('None', None), ('given', PV)):
                got = DS.settings_at(f.node, kw, {'k': kval, 'ptype': pval, 'h': DS.Tok('caller h')}, calls[0])
                n += 1
                want_k = {'absent': 1, 'None': DS.ABSENT, 'given': KV}[kname]
                got_k = got.get('k', DS.ABSENT)
                if got_k is not want_k and got_k != want_k:
                    bad = 'k %s, ptype %s: the penalty type receives k=%r, documented %r' % (kname, pname, got_k, want_k)
                elif 'ptype' in got:
                    bad = 'k %s, ptype %s: `ptype` is passed on as a keyword of the penalty type' % (kname, pname)
                elif 'h' not in got:
                    bad = 'k %s, ptype %s: the caller\'s h is dropped' % (kname, pname)
        ctx.stats['terms_compared'] += n
        ctx.check(bad is None, 'coupler.%s#settings' % name, 'k defaults to 1 (None: the type\'s default), ptype consumed, other settings passed on - %d keyword scenarios' % n,
                  'coupler.%s: %s' % (name, bad), f, calls[0])


@rule('C15.h', min_instances=1)
def constraint_as_penalty_measures_the_displacement(ctx):
    """as_penalty turns a constraints solver into the condition rnorm(x) = sqrt(sum_i (constraint(x)[i] - x[i])**2), zero exactly where the solver leaves x alone, with the solver applied to a COPY of x (the generated constraints work in place; applied to x itself the difference is always zero): the closure agrees, path for path and with casts kept visible, with that definition (a cast of the constrained values to the type of x truncates them for integer-valued points, so an infeasible point measures zero)"""
    f = ctx.func('mystic.constraints:as_penalty.rnorm')
    ref = '''def rnorm(x, *argz, **kwdz):
    error = 0.0
    from copy import copy
    constrained = constraint(copy(x), *argz, **kwdz)
    for i in range(len(x)):
        error += (constrained[i] - x[i])**2
    error = error**0.5
    return error
'''
    got, want = SB.agree(f.node, ref, strict_casts=True)
    ctx.stats['terms_compared'] += len(got)
    ctx.check(got == want, 'as_penalty.rnorm', 'Euclidean distance between constraint(x) and x, no casts',
              'as_penalty.rnorm differs from its definition: %s' % SB.diff(got, want), f, f.node)


@rule('C15.i', min_instances=2)
def barrier_arithmetic_is_numpys(ctx):
    """barrier_inequality evaluates log(-f): on the feasible-set boundary (f == 0) and beyond the value is -inf / nan under numpy's log, which the penalty turns into +inf ("violated"); math.log RAISES ValueError there. mystic.penalty binds `log` (and `inf`) from numpy - provenance of the module-level names the penalty formulas use"""
    m = ctx.model.modules['mystic.penalty']
    prov = {}
    for st in m.tree.body:
        if isinstance(st, ast.ImportFrom):
            for a in st.names:
                prov[a.asname or a.name] = st.module
    for nm in ('log', 'inf'):
        ctx.check(prov.get(nm) == 'numpy', 'mystic.penalty#%s' % nm, '%s is numpy.%s' % (nm, nm),
                  'mystic.penalty takes `%s` from %s: math.log raises ValueError for an argument <= 0 where numpy.log gives -inf / nan, so barrier_inequality raises on the boundary of the feasible set instead of returning an infinite penalty'
                  % (nm, prov.get(nm)), ctx.func('mystic.penalty:barrier_inequality'), m.tree.body[0])
