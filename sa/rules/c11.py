"""C11 - dimensional collapse is detected per definition, applied exactly, reported once.

Decided: the collapse message written by the Collapse* conditions and the
reader collapse.collapsed agree on their separators; every detector's return is
either guarded by ``mask is None`` or built through a filter derived from the
mask, and the filters subtract the mask; the detector tests are the documented
ones over the last ``generations`` records; Collapse applies both the
constraints built from the collapses and the termination with the updated mask;
the kind -> impose_* dispatch covers every Collapse* factory; impose_at stores
the target itself and impose_as the tracked value (+offset); masks only grow.
Round 3: impose_measure applies position collapses before weight collapses
(reference shared with C19.g).
Round 4: collapses are handed on only behind the test that every part of the
stop message is a Collapse* condition; a list of CollapseAt targets is indexed
per parameter (repair 4efaa35); impose_at pairs targets with in-range indices
(repair b488457).
Round 5 (hunt): collapse_cost's edge regions end at samples (repair d6e50c0);
impose_at / impose_as references re-derived (dtype widening, in-range pairs;
repairs 94e41ab, 77f135c); measure collapses reach impose_measure as dicts
whatever the mask format (repair 83961c8).
Round 6: detectors, mask filters and Collapse* conditions keep no state between
calls (iterator aliases included); impose_at / impose_as use their arguments as
paired by the caller; connected keeps the key of an absorbed group.
NOT decided: detectors' numeric results, that the solve terminates, measure
collapses' numeric effects (C18).
"""
import ast

from ..core import rule
from ..srcmodel import AnalysisError, walk_no_nested, unparse, norm_stmt
from ..paths import enumerate_paths
from .. import terms as T
from .. import siblings as SB
from .common import *

CL = 'mystic.collapse'
AS = 'mystic.abstract_solver:AbstractSolver'
DETECTORS = ['collapse_at', 'collapse_as', 'collapse_weight', 'collapse_position', 'collapse_cost']


def _same(ctx, f, ref_src, construct, what, bad, node=None):
    from .. import siblings as SB
    fn = node if node is not None else f.node
    got, want = SB.agree(fn, ref_src)
    ctx.stats['terms_compared'] += len(got)
    ctx.check(got == want, construct, what, '%s: %s' % (bad, SB.diff(got, want)), f, f.node)


def _strs(node):
    return [n.value for n in ast.walk(node) if isinstance(n, ast.Constant) and isinstance(n.value, str)]


@rule('C11.a', min_instances=4)
def message_round_trip(ctx):
    """writer and reader agree: ' at ' between doc and collapse (split from the right), '; ' between members, ' with ' between kind and settings"""
    tm = ctx.model.module('mystic.termination')
    writers = 0
    for q, f in tm.funcs.items():
        if q.startswith('Collapse') and q.count('.') == 1:
            for r in walk_no_nested(f.node):
                if isinstance(r, ast.Return) and 'collapsed' in unparse(r.value):
                    writers += 1
                    lits = _strs(r.value)
                    ctx.check(lits == [' at %s'], q + '#writer', "message = doc + ' at %s' % str(collapse)", 'collapse message written with %s' % lits, f, r)
    ctx.need(writers >= 5, 'expected 5 collapse message writers, found %d' % writers)
    rd = ctx.func(CL + ':collapsed')
    _same(ctx, rd, """def collapsed(message):
    collapses = {}
    for message in message.split('; '):
        message = message.rsplit(' at ',1)
        msg = message.pop(-1)
        if message: collapses[message[0]] = eval(msg)
    return collapses if collapses else None
""", 'collapse.collapsed', "splits on '; ', then on the LAST ' at ', keys by the doc part, evals the collapse",
          'collapsed() no longer inverts the collapse message format')
    lits = _strs(rd.node)
    ctx.check('; ' in lits and ' at ' in lits, 'collapse.collapsed#separators', "separators '; ' and ' at '", 'reader separators are %s' % lits, rd, rd.node)
    for cname in ('When', 'Or'):
        c = ctx.cls('mystic.termination:' + cname)
        f = c.methods['__call__']
        joins = [n for n in walk_no_nested(f.node) if isinstance(n, ast.Call) and isinstance(n.func, ast.Attribute) and n.func.attr in ('join', 'split')]
        seps = set(const_value(j.func.value) if j.func.attr == 'join' else const_value(j.args[0]) if j.args else None for j in joins)
        ctx.check(seps == {'; '}, cname + '.__call__#joiner', "members joined/split with '; '", '%s joins member messages with %s' % (cname, seps), f, f.node)
    st = ctx.func('mystic.termination:state')
    ctx.check(' with ' in _strs(st.node) and "'with '" in unparse(st.node), 'termination.state#separator', "splits the doc on ' with '", 'state() separator changed', st, st.node)


def _tainted_by_mask(f):
    tainted = {'mask'}
    changed = True
    while changed:
        changed = False
        for st in stmts_of(f.node):
            if isinstance(st, ast.Assign):
                names = set(n.id for n in ast.walk(st.value) if isinstance(n, ast.Name))
                if names & tainted:
                    for tg in st.targets:
                        for n in ast.walk(tg):
                            if isinstance(n, ast.Name) and n.id not in tainted:
                                tainted.add(n.id)
                                changed = True
    return tainted


@rule('C11.b', min_instances=8)
def minus_the_mask(ctx):
    """every detector return is guarded by `mask is None`, is empty, or goes through a value derived from the mask; the mask filters subtract the mask"""
    for name in DETECTORS:
        f = ctx.func('%s:%s' % (CL, name))
        tainted = _tainted_by_mask(f)
        rets = [r for r in walk_no_nested(f.node) if isinstance(r, ast.Return)]
        ctx.need(rets, '%s has no return' % name)
        for r in rets:
            gs = guards_of(r, stop=f.node)
            none_guard = any(''.join(unparse(g[0]).split()) == 'maskisNone' and g[1] for g in gs)
            v = r.value
            empty = isinstance(v, (ast.Dict, ast.Set, ast.Tuple, ast.List)) and not getattr(v, 'elts', getattr(v, 'keys', []))
            if isinstance(v, ast.IfExp):
                empty = False
            names = set(n.id for n in ast.walk(v) if isinstance(n, ast.Name)) if v is not None else set()
            uses = bool(names & tainted)
            ctx.check(none_guard or empty or uses, '%s#return@%s' % (name, ''.join(unparse(v).split())[:30]),
                      'guarded by mask is None / empty / filtered by the mask',
                      '%s can return %s without subtracting the mask' % (name, unparse(v)[:80]), f, r)
    # the detectors' own subtraction and the mask filters: behavioural summaries against reference transcriptions
    from .c11_refs import REFS
    for nm, what in (('collapse_at', 'returns the collapsed parameters not in the mask'), ('collapse_as', 'returns the collapsed pairs not selected by the mask'),
                     ('_split_mask', 'pairs and indices of a mask'), ('_pair_selector', 'a pair is masked if listed in either order'),
                     ('_index_selector', 'a pair is masked if either index is masked'), ('selector', 'a pair is masked if the pair or either index is masked'),
                     ('_weight_filter', 'no mask -> identity; otherwise the mask is subtracted'), ('_position_filter', 'no mask -> identity; otherwise the mask and its mirror are subtracted')):
        g = ctx.func('%s:%s' % (CL, nm))
        got, want = SB.agree(g.node, REFS['%s:%s' % (CL, nm)], strict_casts=True)
        ctx.stats['terms_compared'] += len(got)
        ctx.check(got == want, nm, what, '%s differs from its confirmed behaviour: %s' % (nm, SB.diff(got, want)), g, g.node)
    f = ctx.func(CL + ':collapse_cost')
    ov = calls_where(f.node, lambda c: callee_text(c).split('.')[-1] == 'interval_overlap', include_lambda=False)
    ctx.check(bool(ov) and len(ov[0].args) >= 2 and isinstance(ov[0].args[1], ast.Name) and ov[0].args[1].id == 'mask', 'collapse_cost#overlap',
              'with a mask the result is interval_overlap(results, mask) (C11.i checks the rest)', 'collapse_cost no longer intersects its result with the mask', f, ov[0] if ov else f.node)


@rule('C11.c', min_instances=6)
def detector_formulas(ctx):
    """collapse_at: ptp(window) <= tol or max|window-target| <= tol; collapse_as: max / ptp of pairwise distances; collapse_weight: max(weights) <= tol; window = last `generations` records"""
    from .c11_refs import REFS
    for nm, what in (('collapse_at', 'ptp(window) <= tol | max|window - target| <= tol over the last `generations` solutions'),
                     ('collapse_as', 'offset: ptp(pairwise) <= tol ; else max(pairwise) <= tol over the last `generations` solutions'),
                     ('collapse_weight', 'max over the window of each weight <= tol'),
                     ('collapse_position', 'max over the window of pairwise position distances <= tol')):
        g = ctx.func('%s:%s' % (CL, nm))
        got, want = SB.agree(g.node, REFS['%s:%s' % (CL, nm)], strict_casts=True)
        ctx.stats['terms_compared'] += len(got)
        ctx.check(got == want, nm + '#test', what, '%s differs from its documented test: %s' % (nm, SB.diff(got, want)), g, g.node)
    s_ = ctx.func('mystic.monitors:_solutions')
    _same(ctx, s_, "def _solutions(monitor, last=None):\n    indx = last if last is None else -last\n    return numpy.array(monitor.x[indx:])\n",
          'monitors._solutions', 'last N entries = x[-N:]', '_solutions no longer returns the last N entries')
    m_ = ctx.func('mystic.monitors:_measures')
    _same(ctx, m_, "def _measures(monitor, last=None, weights=False):\n    indx = last if last is None else -last\n    return numpy.array(monitor.wts[indx:] if weights else monitor.pos[indx:])\n",
          'monitors._measures', 'last N weights / positions', '_measures changed')


@rule('C11.d', min_instances=2)
def apply_is_constraints_plus_mask(ctx):
    """AbstractSolver.Collapse: whenever the collapse dict is non-empty both SetConstraints(from the collapses) and SetTermination(update_mask(termination, collapses)) run"""
    f = ctx.func(AS + '.Collapse')
    sn = selfname_of(f)

    def rel(n):
        return isinstance(n, ast.Call) and isinstance(n.func, ast.Attribute) and n.func.attr in ('SetConstraints', 'SetTermination') or \
            isinstance(n, ast.Return) or (isinstance(n, ast.Name) and n.id == 'collapses')
    bad = None
    n = 0
    for p in enumerate_paths(f.node, relevant=rel, unroll=(0, 1)):
        truthy = None
        calls = set()
        for e in p.events:
            if e[0] == 'cond' and ''.join(unparse(e[1]).split()) == 'collapses':
                truthy = e[2]
            elif e[0] == 'stmt':
                for c in calls_where(e[1], lambda c: self_call(c, 'SetConstraints', sn) or self_call(c, 'SetTermination', sn), include_lambda=False):
                    calls.add((c.func.attr, ''.join(unparse(c.args[0]).split()) if c.args else ''))
        n += 1
        if truthy and calls != {('SetConstraints', 'constraints'), ('SetTermination', 'termination')}:
            bad = (p, calls)
        if truthy is False and calls:
            bad = (p, calls)
    ctx.check(bad is None and n > 0, 'AbstractSolver.Collapse', 'non-empty collapse -> SetConstraints(constraints) and SetTermination(termination)',
              'a non-empty collapse is applied as %s' % (sorted(bad[1]) if bad else None), f, f.node)
    src = ''.join(unparse(f.node).split())
    src = src.replace('._AbstractSolver__', '.__')
    ctx.check('state,termination=%s.__collapse_termination(collapses)' % sn in src and
              'constraints=%s.__collapse_constraints(state,collapses)' % sn in src, 'AbstractSolver.Collapse#sources',
              'termination/constraints are built from the collapses', 'the applied termination/constraints are no longer built from the collapses', f, f.node)
    g = ctx.func(AS + '.__collapse_termination')
    src = ''.join(unparse(g.node).split())
    ctx.check('termination=ma.update_mask(%s._termination,collapses)' % selfname_of(g) in src and 'state=mt.state(%s._termination)' % selfname_of(g) in src,
              'AbstractSolver.__collapse_termination', 'mask extended by the collapses; state read from the current termination', '__collapse_termination changed', g, g.node)


DISPATCH = {'CollapseAt': 'impose_at', 'CollapseAs': 'impose_as', 'CollapseCost': 'impose_bounds',
            'CollapsePosition': 'impose_measure', 'CollapseWeight': 'impose_measure'}


@rule('C11.e', min_instances=6)
def dispatch_is_exhaustive(ctx):
    """every Collapse* factory has a branch in __collapse_constraints with the matching impose_*; _update_masks reaches every member whose doc starts with the kind"""
    tm = ctx.model.module('mystic.termination')
    factories = sorted(q for q in tm.funcs if q.startswith('Collapse') and '.' not in q)
    ctx.need(factories, 'no Collapse* factories')
    f = ctx.func(AS + '.__collapse_constraints')
    mapping = {}
    for n in walk_no_nested(f.node):
        if isinstance(n, ast.If):
            kinds = [s for s in _strs(n.test) if s.startswith('Collapse')]
            calls = [callee_text(c) for c in calls_where(ast.Module(body=n.body, type_ignores=[]), lambda c: callee_text(c).startswith('cn.impose'))]
            for k in kinds:
                mapping.setdefault(k, set()).update(c.split('.')[1] for c in calls)
    # measure collapses are gathered by comprehension
    for c in calls_where(f.node, lambda c: callee_text(c) == 'cn.impose_measure'):
        for i, a in enumerate(c.args[1:3]):
            for s in _strs(a):
                if s.startswith('Collapse'):
                    mapping.setdefault(s, set()).add('impose_measure@%d' % i)
    for fac in factories:
        got = mapping.get(fac, set())
        want = DISPATCH.get(fac)
        if want is None:
            ctx.bad('dispatch#' + fac, 'collapse condition %s has no rule for turning its collapse into a constraint' % fac, f, f.node)
            continue
        if want == 'impose_measure':
            pos = 0 if fac == 'CollapsePosition' else 1
            ctx.check(got == {'impose_measure@%d' % pos}, 'dispatch#' + fac, '%s -> impose_measure argument %d' % (fac, pos + 1),
                      '%s collapses are dispatched to %s' % (fac, sorted(got)), f, f.node)
        else:
            ctx.check(got == {want}, 'dispatch#' + fac, '%s -> %s' % (fac, want), '%s collapses are dispatched to %s' % (fac, sorted(got)), f, f.node)
    im = ctx.func('mystic.constraints:impose_measure')
    ctx.check(im.args()[:3] == ['npts', 'tracking', 'noweight'], 'impose_measure#signature', '(npts, tracking=positions, noweight=weights)',
              'impose_measure signature is %s' % im.args(), im, im.node)
    u = ctx.func('mystic.mask:_update_masks')
    _same(ctx, u, """def _update_masks(condition, mask, kind='', new=False):
    kind = kind if kind else 'Collapse'
    if isinstance(condition, tuple):
        conditions = ()
        for term in condition:
            termdoc = term.__doc__
            if isinstance(term, tuple) or termdoc.startswith(kind):
                term = _update_masks(term, mask, kind, new)
            conditions += (term,)
        return type(condition)(*conditions)
    if new: return _replace_mask(condition, mask)
    return _extend_mask(condition, mask)
""", 'mask._update_masks', 'recurses into compounds and updates every member of the kind, keeping all members', '_update_masks no longer reaches/keeps every member')
    um = ctx.func('mystic.mask:update_mask')
    _same(ctx, um, """def update_mask(condition, collapse, new=False):
    if collapse is None: return condition
    for kind,mask in collapse.items():
        condition = _update_masks(condition, mask, kind, new)
    return condition
""", 'mask.update_mask', 'every (kind, collapse) of the dict is applied', 'update_mask no longer applies every collapse')


@rule('C11.f', min_instances=2)
def exact_imposition(ctx):
    """impose_at stores the target itself at the selected in-range indices; impose_as copies x[i] into each tracked partner, then adds the offset; both work on a copy"""
    f = ctx.func('mystic.constraints:impose_at.dec.func')
    _same(ctx, f, """def func(x, *args, **kwds):
    xtype = type(x)
    x = asarray(list(x))
    _t = asarray(target)
    if _t.dtype.kind == 'O': _t = _t.astype(float)
    if not _holds(x.dtype, _t):
        x = x.astype(result_type(x, _t))
    n = len(x)
    if _t.size > 1:
        at = [(i,t) for (i,t) in zip(index, target) if -n <= i < n]
        x[[i for (i,t) in at]] = [t for (i,t) in at]
    else:
        x[[i for i in index if -n <= i < n]] = target
    if not type(x) is xtype: x = xtype(x)
    return f(x, *args, **kwds)
""", 'impose_at', 'x[selected in-range indices] = target on a copy, then f(x)', 'impose_at no longer pins the selected entries to the target exactly')
    g = ctx.func('mystic.constraints:impose_as.dec.func')
    _same(ctx, g, """def func(x, *args, **kwds):
    x = copy.copy(x)
    n = len(x)
    _mask = [m for m in mask if all(-n <= k < n for k in m)]
    _mask = [m for m in (tuple(k % n for k in m) for m in _mask) if m[0] != m[1]]
    pairs = connected(_mask)
    pairs = pairs.items()
    for i,j in pairs:
        for k in j:
            try: x[k] = x[i]
            except IndexError: pass
    pairs = _mask
    while pairs:
        indx,trac = zip(*pairs)
        trac = set(trac)
        for i in trac:
            try: x[i] += offset
            except IndexError: pass
        indx = trac.intersection(indx)
        indx = [m for m in pairs if m[0] in indx]
        if len(indx) == len(pairs): break
        pairs = indx
    return f(x, *args, **kwds)
""", 'impose_as', 'partner entries := tracked entry (+offset) on a copy, then f(x)', 'impose_as no longer ties the tracked entries exactly')


@rule('C11.g', min_instances=3)
def mask_only_grows(ctx):
    """_extend_mask unions the applied collapse into the mask (update / setdefault().update / tuple concatenation) and only assigns when the old mask is empty"""
    f = ctx.func('mystic.mask:_extend_mask')
    _same(ctx, f, """def _extend_mask(condition, mask):
    if mask is None:
        return condition
    kwds = _term.state(condition).popitem()[-1]
    if 'mask' not in kwds: return _term.type(condition)(**kwds)
    _mask = kwds['mask']
    if not _mask:
        kwds['mask'] = mask
    elif type(_mask) is set:
        kwds['mask'].update(mask)
    elif type(_mask) is dict:
        try:
            for k,v in mask.items():
                _mask.setdefault(k,v).update(v)
            kwds['mask'] = _mask
        except AttributeError:
            kwds['mask'] = mask
    else:
        kwds['mask'] = type(_mask)(_mask[i]+mask[i] for i in range(2))
    return _term.type(condition)(**kwds)
""", '_extend_mask', 'empty mask -> the collapse; set -> union; dict -> per-key union; where-format -> concatenation; condition rebuilt with the extended mask',
          'the termination mask is no longer extended by union with the applied collapse')
    r = ctx.func('mystic.mask:_replace_mask')
    gs = [c for c in calls_where(ctx.func('mystic.mask:_update_masks').node, lambda c: callee_text(c) == '_replace_mask')]
    ctx.check(all(any(unparse(g[0]) == 'new' and g[1] for g in guards_of(enclosing_stmt(c))) for c in gs) and bool(gs), '_update_masks#replace-only-if-new',
              'replacement only on request (new=True)', 'the mask can be replaced (shrunk) without new=True', r, r.node)
    um = ctx.func('mystic.abstract_solver:AbstractSolver.__collapse_termination')
    uc = calls_where(um.node, lambda c: callee_text(c) == 'ma.update_mask')
    ctx.check(bool(uc) and not uc[0].keywords and len(uc[0].args) == 2, '__collapse_termination#extend', 'the solver extends (never replaces) the mask',
              'the solver applies a collapse with new=True / different arguments', um, uc[0] if uc else um.node)


@rule('C11.h', min_instances=3)
def collapse_settings_forwarded_exactly(ctx):
    """__collapse_constraints pins a CollapseAt parameter at the condition's own target whenever one is given (any value, including 0) and at the current value only when the target is None; offsets and clip flags are forwarded likewise"""
    from ..paths import enumerate_block
    f = ctx.func(AS + '.__collapse_constraints')
    loops = [n for n in f.node.body if isinstance(n, ast.For)]
    ctx.need(loops, '__collapse_constraints: loop over collapses not found')
    branches = {}
    node = loops[0].body[0] if loops[0].body and isinstance(loops[0].body[0], ast.If) else None
    for st in loops[0].body:
        cur = st if isinstance(st, ast.If) else None
        while cur is not None:
            kinds = [s_ for s_ in _strs(cur.test) if s_.startswith('Collapse')]
            for k_ in kinds:
                branches[k_] = cur.body
            cur = cur.orelse[0] if len(cur.orelse) == 1 and isinstance(cur.orelse[0], ast.If) else None
    ctx.need('CollapseAt' in branches and 'CollapseAs' in branches, 'dispatch branches not found')
    key = loops[0].target.id

    def analyse(body, setting, dflt):
        out = []
        for p in enumerate_block(body):
            b = T.Builder()
            lits = []
            app = None
            for e in p.events:
                if e[0] == 'cond':
                    lits.append((T.simp(b.t(e[1])), e[2]))
                elif e[0] == 'stmt':
                    st = e[1]
                    if isinstance(st, ast.Assign) and isinstance(st.targets[0], ast.Name):
                        b.exec_stmt(st)
                    for c in calls_where(st, lambda c: callee_text(c).endswith('.append'), include_lambda=False):
                        app = T.simp(b.t(c.args[0]))
            out.append((lits, app, p))
        return out
    state_t = lambda name, dflt: T.term(ast.parse("state[%s]['%s'] if '%s' in state[%s] else %s" % (key, name, name, key, dflt), mode='eval').body)
    alt_t = lambda name, dflt: T.term(ast.parse("state[%s].get('%s', %s)" % (key, name, dflt), mode='eval').body) if dflt != 'None' else \
        T.term(ast.parse("state[%s].get('%s')" % (key, name), mode='eval').body)
    # CollapseAt
    tgt = (state_t('target', 'None'), alt_t('target', 'None'))
    res = analyse(branches['CollapseAt'], 'target', None)
    ctx.need(res, 'CollapseAt branch has no path')
    bad = None
    seen = set()
    for lits, app, p in res:
        if app is None:
            bad = bad or ('a path appends no constraint', p)
            continue
        is_none = [tr for tt, tr in lits if tt[0] == 'cmp' and tt[1] in ('is', 'isnot', '==', '!=') and tt[2] in tgt and tt[3] == ('const', None)]
        # a list of targets holds one target per PARAMETER: under hasattr(target, '__len__') the collapsed parameters' own
        # entries [target[i] for i in collapse] are what impose_at must get (index k of the collapse paired with target[k])
        def _is_seq_test(tt):
            # hasattr(target, '__len__'), possibly narrowed to "... and it has more than one entry" (a 0-d array or a one-element
            # target is a single value that is broadcast): and(hasattr(t,'__len__'), getattr(t,'ndim',1), 1 < len(t))
            if tt[0] == 'call' and T.show(tt[1]) == 'hasattr' and len(tt[2]) == 2 and tt[2][0] in tgt and tt[2][1] == ('const', '__len__'):
                return True
            if tt[0] == 'and' and any(_is_seq_test(c_) for c_ in tt[1:]):
                rest = [c_ for c_ in tt[1:] if not _is_seq_test(c_)]
                return all(any(x in tgt for x in T.subterms(c_)) and ((c_[0] == 'call' and T.show(c_[1]) == 'getattr') or (c_[0] == 'cmp' and 'len(' in T.show(c_))) for c_ in rest)
            return False
        seq_lit = [(tt, tr) for tt, tr in lits if _is_seq_test(tt)]
        other = [tt for tt, tr in lits if not (tt[0] == 'cmp' and tt[2] in tgt and tt[3] == ('const', None)) and (tt, tr) not in seq_lit]
        if seq_lit and app is not None and app[0] == 'call' and T.show(app[1]).endswith('impose_at') and len(app[2]) == 2:
            a1 = app[2][1]
            wants = [T.simp(T.term(ast.parse("[(state[%s]['target'] if 'target' in state[%s] else None)[i] for i in collapses[%s]]" % (key, key, key), mode='eval').body)),
                     T.simp(T.term(ast.parse("[state[%s].get('target')[i] for i in collapses[%s]]" % (key, key), mode='eval').body))]
            per_param = a1 in wants and app[2][0] == ('sub', ('name', 'collapses'), ('name', key))
            if seq_lit[0][1] is True and seq_lit[0][0][0] != 'and':
                bad = bad or ('every target with a length is indexed per collapsed parameter, also a one-element (or 0-d) target that stands for a single value: [t[i] for i in collapse] then raises IndexError inside Solve', p)
            if seq_lit[0][1] is True:
                if not per_param:
                    bad = bad or ('a list of targets is handed to impose_at whole (%s): it holds one target per parameter, not one per collapsed index' % T.show(a1)[:60], p)
                seen.add('target')
                continue
        if other:
            bad = bad or ('the choice between the given target and the current value is made on `%s`, not on `target is None`' % T.show(other[0]), p)
            continue
        none_true = bool(is_none) and ((lits[0][0][1] in ('is', '==')) == is_none[0])
        if app[0] == 'call' and T.show(app[1]).endswith('impose_at') and len(app[2]) == 2 and app[2][1] in tgt:
            seen.add('target')
            if none_true:
                bad = bad or ('the given target is used although it is None', p)
            if not (seq_lit and seq_lit[0][1] is False):
                bad = bad or ('the target is handed to impose_at whole on a path that has not established that it is a single value: a list of targets (one per parameter) is then paired with the collapsed indices by position', p)
        elif app[0] == 'call' and T.show(app[1]).endswith('impose_at') and len(app[2]) == 1 and app[2][0][0] == 'star' and 'select_params' in T.show(app[2][0]):
            seen.add('current')
            if not none_true:
                bad = bad or ('the parameter is pinned at its current value although a target was given', p)
        else:
            bad = bad or ('unexpected constraint %s' % T.show(app)[:80], p)
    ctx.check(bad is None and seen == {'target', 'current'}, '__collapse_constraints#CollapseAt', 'target given -> impose_at(collapse, target); target None -> impose_at(current values)',
              'CollapseAt is not applied at its own target: %s' % (bad[0] if bad else 'cases %s' % sorted(seen)), f, branches['CollapseAt'][0])
    # CollapseAs: offset forwarded
    res = analyse(branches['CollapseAs'], 'offset', None)
    off = (state_t('offset', 'None'), alt_t('offset', 'None'))
    good = bool(res) and all(app is not None and app[0] == 'call' and T.show(app[1]).endswith('impose_as') and len(app[2]) == 2 and app[2][1] in off and not lits
                             for lits, app, p in res)
    ctx.check(good, '__collapse_constraints#CollapseAs', 'impose_as(collapse, the condition\'s own offset)',
              'CollapseAs no longer forwards its own offset unconditionally', f, branches['CollapseAs'][0])
    ck = [k_ for k_ in branches if k_ in ('CollapseCost', 'CollapseGrad')]
    ctx.need(ck, 'CollapseCost branch not found')
    res = analyse(branches[ck[0]], 'clip', 'True')
    clip = (state_t('clip', 'True'), alt_t('clip', 'True'))
    good = bool(res) and all(app is not None and app[0] == 'call' and T.show(app[1]).endswith('impose_bounds') and dict(app[3]).get('clip') in clip and not lits
                             for lits, app, p in res)
    ctx.check(good, '__collapse_constraints#CollapseCost', 'impose_bounds(collapse, clip=the condition\'s own clip, default True)',
              'CollapseCost no longer forwards its own clip flag', f, branches[ck[0]][0])


@rule('C11.i', min_instances=5)
def bounds_mask_filter(ctx):
    """collapse_cost hands (results, mask) to interval_overlap and answers {} exactly when the filtered result equals the mask; that comparison is only meaningful because interval_overlap rewrites bare (lo,hi) entries of BOTH its arguments to [(lo,hi)] in place - the filter and its interval helpers keep their confirmed behaviour (reference summaries)"""
    from .c11_refs import REFS
    for a, src in sorted(REFS.items()):
        f = ctx.func(a)
        got, want = SB.agree(f.node, src, strict_casts=True)
        ctx.stats['terms_compared'] += len(got)
        ctx.check(got == want, f.qualname, 'keeps its confirmed behaviour', '%s differs from its confirmed behaviour (the bounds mask is no longer filtered / normalised the same way): %s'
                  % (f.qualname, SB.diff(got, want)), f, f.node)
    g = ctx.func('mystic.collapse:collapse_cost')
    mask = 'mask'
    calls = calls_where(g.node, lambda c: callee_text(c).split('.')[-1] == 'interval_overlap', include_lambda=False)
    ctx.need(calls, 'collapse_cost no longer calls interval_overlap')
    c = calls[0]
    good = len(c.args) >= 2 and isinstance(c.args[1], ast.Name) and c.args[1].id == mask
    rets = [r for r in walk_no_nested(g.node) if isinstance(r, ast.Return) and r.value is not None and r.lineno > c.lineno]
    cmp_ok = False
    for r in rets:
        for cl, leaf in T.cases(T.term(r.value)):
            for cond, tr in cl:
                if cond[0] == 'cmp' and cond[1] == '==' and ('name', mask) in (cond[2], cond[3]) and tr and leaf == ('dict',):
                    cmp_ok = True
    ctx.check(good and cmp_ok, 'collapse_cost#mask', 'the caller\'s mask itself goes through interval_overlap (normalised in place) before `results == mask` decides "nothing new"',
              'collapse_cost no longer filters through interval_overlap(results, mask) before comparing with the mask', g, c)


@rule('C11.j', min_instances=2)
def measure_collapses_are_applied_in_order(ctx):
    """the constraint a measure collapse is turned into (impose_measure) applies, on every call, every position collapse first and every weight collapse after it, the weight collapse not nullable: impose_collapse moves the weight of the merged point onto the surviving one, so a weight collapse applied before it would be undone and points with a "collapsed" non-zero weight would reach the cost (reference summary shared with C19.g)"""
    from .c19 import impose_measure_applies_every_collapse
    impose_measure_applies_every_collapse(ctx)


@rule('C11.k', min_instances=1)
def collapse_only_while_nothing_else_stops_the_run(ctx):
    """__get_collapses hands collapses on (so that they are applied, the mask grows and the solve CONTINUES) only when every part of the solver's stop message comes from a Collapse* condition - the parts of self.__stop__ / self.Terminated(info=True) split on '; ', not the keys of the collapses themselves (which are Collapse* by construction): with an ordinary stop on the same iteration the mask would grow and the constraints change while the solver stops at once, leaving a reported solution that does not satisfy the collapse it reports"""
    f = ctx.func(AS + '.__get_collapses')
    sn = selfname_of(f)
    S = ('name', sn)
    rts = return_terms(f.node)
    ctx.need(len(rts) >= 2, '__get_collapses: expected >= 2 returning paths')
    ctx.stats['paths_enumerated'] += len(rts)
    COLL = None
    n_pass = 0
    bad = None
    for p, tm, b, conds in rts:
        if tm == ('call', ('name', 'dict'), (), ()) or tm == ('dict',):
            continue
        # a path that returns what Collapsed() reported
        if not (tm[0] == 'call' and T.show(tm[1]).endswith('Collapsed')):
            bad = (p, 'returns %s' % T.show(tm)[:60])
            continue
        truthy = any(c[0] == tm and c[1] is True for c in conds)
        if not truthy:
            continue            # nothing collapsed: the empty result is handed on
        n_pass += 1
        ok_ = False
        for c in conds:
            tt, tr = c[0], c[1]
            while tt[0] == 'not':
                tt, tr = tt[1], not tr
            if tt[0] == 'call' and T.show(tt[1]) == 'all' and tr is True and len(tt[2]) == 1 and tt[2][0][0] in ('genexp', 'listcomp'):
                g = tt[2][0]
                elt_ok = len(g[1]) == 1 and g[1][0][0] == 'call' and g[1][0][1][0] == 'attr' and g[1][0][1][2] == 'startswith' and g[1][0][2] == (('const', 'Collapse'),)
                it = g[2][0][1] if g[2] else None
                it_ok = it is not None and it[0] == 'call' and it[1][0] == 'attr' and it[1][2] == 'split' and it[2] == (('const', '; '),) and \
                    any(isinstance(x, tuple) and x and x[0] == 'call' and x[1] == ('attr', S, 'Terminated') and ('info', ('const', True)) in x[3] for x in T.subterms(it[1][1]))
                ok_ = ok_ or (elt_ok and it_ok)
        if not ok_:
            bad = (p, 'collapses are handed on without the test that every part of the stop message (Terminated(info=True) split on "; ") is a Collapse* condition')
    ctx.need(n_pass >= 1, '__get_collapses: no path hands collapses on')
    ctx.check(bad is None, '__get_collapses#only-collapse-stops', 'collapses are applied only when the whole stop message is made of Collapse* conditions (%d paths)' % n_pass,
              '__get_collapses: %s (path %s)' % (bad[1] if bad else '', bad[0].describe(5) if bad else ''), f, bad[0].exit_node if bad and bad[0].exit_node is not None else f.node)


@rule('C11.l', min_instances=3)
def collapsed_pairs_form_whole_groups(ctx):
    """a CollapseAs collapse is applied through impose_as / tools.connected: pairs that share members are united into one group whatever their order, so after the collapse every parameter equals its partner (shared with C16.j)"""
    from .c16 import connected_unites_groups
    connected_unites_groups(ctx)


@rule('C11.m', min_instances=2)
def final_solution_satisfies_the_applied_collapse(ctx):
    """a collapse is applied by installing new constraints between iterations; the final solution satisfies it only if the solver's stored all-time best does not outlive that change (shared with C03.f)"""
    from .c03 import best_survives_a_change_of_constraints
    best_survives_a_change_of_constraints(ctx)


@rule('C11.n', min_instances=1)
def cost_collapse_regions_end_at_samples(ctx):
    """collapse_cost reports the regions to keep as intervals between recorded parameter values: every edge it builds is par[<index>] with the gap length d added to the INDEX (par[w + d]) - interior regions, and the region above the last high-cost interval alike; a gap length added to the parameter VALUE (par[w] + d) puts that edge at value + number of samples, which removes minimum-cost samples or keeps a whole high-cost interval"""
    f = ctx.func(CL + ':collapse_cost')
    edges = []
    for st in stmts_of(f.node):
        if isinstance(st, ast.Assign) and len(st.targets) == 1 and isinstance(st.targets[0], ast.Name) and st.targets[0].id in ('bounds', 'bounds_', '_bounds'):
            for n in ast.walk(st.value):
                if isinstance(n, ast.BinOp) and isinstance(n.op, ast.Add):
                    # an addition whose operand is a subscript of par: value arithmetic
                    for side in (n.left, n.right):
                        if isinstance(side, ast.Subscript) and isinstance(side.value, ast.Name) and side.value.id == 'par':
                            edges.append(('value-arith', st, n))
                if isinstance(n, ast.Subscript) and isinstance(n.value, ast.Name) and n.value.id == 'par':
                    edges.append(('index', st, n))
    idx = [e for e in edges if e[0] == 'index']
    bad = [e for e in edges if e[0] == 'value-arith']
    ctx.need(len(idx) >= 3, 'collapse_cost: expected >= 3 region edges taken from par[...], found %d' % len(idx))
    ctx.check(not bad, 'collapse_cost#edges', 'every region edge is par[<index>] (%d edges)' % len(idx),
              'collapse_cost builds a region edge as %s: the gap length is added to the parameter value instead of the sample index'
              % (unparse(bad[0][2])[:60] if bad else ''), f, bad[0][1] if bad else idx[0][1], statement='region edge = parameter value + gap length')


@rule('C11.o', min_instances=2)
def measure_collapses_reach_the_transform_as_dicts(ctx):
    """CollapseWeight / CollapsePosition report their collapse in the format of their mask - {measure: indices}, a set of (measure, index) tuples, or the 'where' pair of tuples; all three are accepted masks. impose_measure (which applies them) iterates `.items()`: unless it handles the other formats itself, __collapse_constraints must hand it each collapse through a converter that returns a dict on every path - otherwise a solve whose mask was given as a set or in where format dies with AttributeError at the first evaluation after the collapse"""
    f = ctx.func(AS + '.__collapse_constraints')
    im = ctx.func('mystic.constraints:impose_measure')
    handles = any(isinstance(n, ast.Name) and n.id == 'set' for t_ in ast.walk(im.node)
                  if isinstance(t_, ast.Compare) or (isinstance(t_, ast.Call) and isinstance(t_.func, ast.Name) and t_.func.id == 'isinstance') for n in ast.walk(t_))
    calls = calls_where(f.node, lambda c: callee_text(c).split('.')[-1] == 'impose_measure', include_lambda=False)
    ctx.need(calls, '__collapse_constraints: impose_measure is no longer called')
    c = calls[0]
    args = list(c.args[1:3]) + [k.value for k in c.keywords if k.arg in ('tracking', 'noweight')]
    ctx.need(len(args) >= 2, '__collapse_constraints: impose_measure is not given the position and weight collapses')
    local_defs = {n.name: n for n in ast.walk(f.node) if isinstance(n, ast.FunctionDef) and n is not f.node}

    def returns_dict(fn):
        p0 = fn.args.args[0].arg if fn.args.args else None
        dict_locals = set(t_.id for s in ast.walk(fn) if isinstance(s, ast.Assign) and isinstance(s.value, (ast.Dict, ast.DictComp)) or
                          (isinstance(s, ast.Assign) and isinstance(s.value, ast.Call) and isinstance(s.value.func, ast.Name) and s.value.func.id == 'dict')
                          for t_ in s.targets if isinstance(t_, ast.Name))
        rets = [r for r in ast.walk(fn) if isinstance(r, ast.Return)]
        if not rets:
            return False
        for r in rets:
            v = r.value
            if isinstance(v, (ast.Dict, ast.DictComp)) or (isinstance(v, ast.Call) and isinstance(v.func, ast.Name) and v.func.id == 'dict'):
                continue
            if isinstance(v, ast.Name) and v.id in dict_locals:
                continue
            if isinstance(v, ast.Name) and v.id == p0:
                g = [' '.join(unparse(t_).split()) for t_, tr, _ in guards_of(r) if tr]
                if any(x in ('type(%s) is dict' % p0, 'isinstance(%s, dict)' % p0) for x in g):
                    continue
            return False
        return True
    for i, a in enumerate(args[:2]):
        what = ('CollapsePosition', 'CollapseWeight')[i]
        elt = a.elt if isinstance(a, (ast.ListComp, ast.GeneratorExp)) else a
        raw = isinstance(elt, ast.Subscript) and unparse(elt.value) == 'collapses'
        conv = isinstance(elt, ast.Call) and isinstance(elt.func, ast.Name) and elt.func.id in local_defs and returns_dict(local_defs[elt.func.id])
        ctx.need(raw or conv or handles, '__collapse_constraints: cannot tell in which format the %s collapses reach impose_measure (%s)' % (what, unparse(elt)[:60]))
        ctx.check(conv or handles, '__collapse_constraints#%s-format' % what, 'every accepted collapse format reaches impose_measure as a dict',
                  '__collapse_constraints hands the %s collapse to impose_measure as reported: a collapse in set-of-tuples or where format (the format of the mask the user gave) has no .items(), '
                  'so the first evaluation after the collapse raises AttributeError and the solve never terminates normally' % what, f, enclosing_stmt(c))


@rule('C11.p', min_instances=10)
def detectors_and_collapse_conditions_keep_no_state_between_calls(ctx):
    """a collapse detector answers from the recorded history and its mask alone, and a Collapse* condition object may be handed to several solvers: no function the mask filters / Collapse* factories return reads a one-shot iterator built outside it (zip(*mask) hoisted out of the filter is exhausted by the first membership test: masked pairs are then reported - and applied - a second time), mutates an object of the factory's scope (a cached "last result" hands one solver's collapse to the next) or declares anything nonlocal"""
    n = 0
    todo = []
    mc = ctx.model.modules['mystic.collapse']
    for q, fi in sorted(mc.funcs.items()):
        if fi.parent is None:
            todo.append(fi)
    mt = ctx.model.modules['mystic.termination']
    for q, fi in sorted(mt.funcs.items()):
        if fi.parent is None and fi.name.startswith('Collapse'):
            todo.append(fi)
    for outer in todo:
        inners = [x for x in ast.walk(outer.node) if isinstance(x, (ast.FunctionDef, ast.Lambda)) and x is not outer.node]
        ctx.touch(outer)
        found = []
        for inner in inners:
            found += state_between_calls(outer.node, inner)
        n += 1
        seen = set()
        for kind, nm, node in found:
            if (kind, nm) in seen:
                continue
            seen.add((kind, nm))
            what = {'iterator': 'reads the one-shot iterator `%s` built once outside it: the first use exhausts it, every later membership test sees nothing' % nm,
                    'mutated': 'mutates `%s`, which lives in the enclosing scope and survives the call' % nm,
                    'nonlocal': 'declares `%s` nonlocal/global' % nm}[kind]
            ctx.bad('%s#per-call-state[%s]' % (outer.qualname, nm), 'a function returned by %s %s - the answer no longer depends on the recorded history and the mask alone' % (outer.qualname, what),
                    outer, node if hasattr(node, 'lineno') else outer.node)
        if not found:
            ctx.ok('%s#stateless' % outer.qualname, '%d nested functions keep no state between calls' % len(inners), outer, outer.node)
    ctx.need(n >= 10, 'expected >= 10 detector / condition factories, found %d' % n)


@rule('C11.q', min_instances=2)
def imposed_indices_and_targets_are_paired_as_given(ctx):
    """__collapse_constraints hands impose_at the collapsed parameters and, for a list of targets, one target per parameter IN THE SAME ORDER (built by iterating the very set it passes); impose_as gets the pairs and the offset. The factories therefore use their arguments as given: no parameter the inner function reads is re-bound in the factory body (sorted(index) re-pairs indices and targets whenever the set does not iterate in sorted order - parameters are then pinned to each other's targets); the only re-binding allowed is a None default behind an `is None` test"""
    n = 0
    for anchor in ('mystic.constraints:impose_at', 'mystic.constraints:impose_as'):
        fac = ctx.func(anchor)
        params = set(fac.args())
        inner_reads = set(x.id for d in ast.walk(fac.node) if isinstance(d, (ast.FunctionDef, ast.Lambda)) and d is not fac.node
                          for x in ast.walk(d) if isinstance(x, ast.Name) and isinstance(x.ctx, ast.Load))
        for p in sorted(params & inner_reads):
            n += 1
            rebinds = [st for st in walk_no_nested(fac.node) if isinstance(st, (ast.Assign, ast.AugAssign)) and p in assigned_names(st)]
            bad = None
            for st in rebinds:
                gs = guards_of(st)
                none_guard = any(tr and isinstance(t_, ast.Compare) and len(t_.ops) == 1 and isinstance(t_.ops[0], ast.Is) and isinstance(t_.left, ast.Name) and t_.left.id == p
                                 and isinstance(t_.comparators[0], ast.Constant) and t_.comparators[0].value is None for t_, tr, _ in gs)
                const_default = isinstance(st, ast.Assign) and isinstance(st.value, (ast.Constant, ast.Tuple, ast.List, ast.Dict)) and not any(isinstance(x, ast.Name) for x in ast.walk(st.value))
                if not (none_guard and const_default):
                    bad = st
                    break
            ctx.check(bad is None, '%s#%s' % (fac.qualname, p), 'the inner function uses %s as given' % p,
                      '%s re-binds its argument %s (%s) before the inner function uses it: indices and targets / pairs are no longer the ones the caller paired up '
                      '(a set of collapsed parameters sorted here is matched with targets listed in the set\'s own order)' % (fac.qualname, p, norm_stmt(bad)[:70] if bad else ''), fac, bad or fac.node)
    ctx.need(n >= 2, 'expected >= 2 factory parameters read by the inner functions of impose_at / impose_as, found %d' % n)
