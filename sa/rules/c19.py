"""C19 - discrete measures: parameter-vector round trips and product structure.

Decided: writer and reader of the flat parameter layout agree (flatten emits, per
factor, the weights then the positions; _nested_split reads n weights then n
positions and advances by 2n; unflatten/decompose/compose use the (positions,
weights) roles consistently; load/update cut the values at 2*sum(pts)); product
weights and positions come from one and the same packer over the factors'
weights / positions; every call from discrete.py into measures.py binds
positions to ``samples`` and weights to ``weights``; the measure properties pair
each statistic with its own impose_* setter.
Round 3: the statistics the measures delegate to (expectation, _expected_moment,
expected_variance, support, support_index) keep their explicit-sum references
(shared with C18.f).
Round 4: no mutable default argument of math.discrete / math.measures is kept or
mutated; the helpers impose_measure applies keep their references.
Round 5 (hunt): scenario.update stores all given values (repair d40c5ba); the
default weights are taken only for `weights is None` / empty (repair 1a6156e);
_flat flattens array slices (repair 11b6398).
Review of the repairs: scenario decides 'no values' by len() first, by truth value only for objects without a length (C19.j resolves the local flag).
NOT decided: round-trip equality of values, Cartesian order of _pack, update
on ragged input.
"""
import ast

from ..core import rule
from ..srcmodel import AnalysisError, walk_no_nested, unparse, norm_stmt, parent
from .. import terms as T
from .. import siblings as SB
from .common import *

DS = 'mystic.math.discrete'
MS = 'mystic.math.measures'


def _ref(ctx, anchor, src, what):
    f = ctx.func(anchor)
    got, want = SB.agree(f.node, src)
    ctx.stats['terms_compared'] += len(got)
    ctx.check(got == want, f.qualname, what, '%s differs from the layout contract: %s' % (f.qualname, SB.diff(got, want)), f, f.node)


@rule('C19.a', min_instances=7)
def layout_agreement(ctx):
    """flatten writes (weights, positions) per factor; _nested_split reads n weights then n positions; unflatten = compose(x, w); decompose returns (x, w); load/update keep the first 2*sum(pts) values"""
    _ref(ctx, DS + ':flatten', 'def flatten(c):\n    rv = [(i.weights,i.positions) for i in c]\n    return list(chain(*chain(*rv)))\n', 'per factor: weights, then positions')
    _ref(ctx, MS + ':_nested_split', '''def _nested_split(params, npts):
    weights = []
    coords = []
    ind = 0
    for i in range(len(npts)):
        weights.append(params[ind:ind+npts[i]])
        ind += npts[i]
        coords.append(params[ind:ind+npts[i]])
        ind += npts[i]
    return weights, coords
''', 'n weights, then n positions, cursor advanced by 2n per factor')
    _ref(ctx, DS + ':unflatten', 'def unflatten(params, npts):\n    w, x = _nested_split(params, npts)\n    return compose(x, w)\n', 'compose(positions, weights) of the split')
    _ref(ctx, DS + ':decompose', 'def decompose(c):\n    w, x = _nested_split(flatten(c), c.pts)\n    return x, w\n', '(positions, weights) of the split of flatten(c)')
    f = ctx.func(DS + ':compose')
    ctx.check(f.args()[:2] == ['samples', 'weights'], 'compose#signature', 'compose(samples, weights)', 'compose signature is %s' % f.args(), f, f.node)
    lm = calls_where(f.node, lambda c: callee_text(c) == '_list_of_measures')
    ctx.check(bool(lm) and [unparse(a) for a in lm[0].args] == ['samples', 'weights'], 'compose#roles', '_list_of_measures(samples, weights)', 'compose builds its measures from %s' % (unparse(lm[0]) if lm else None), f, f.node)
    g = ctx.func(DS + ':_list_of_measures')
    ctx.check(g.args()[:2] == ['samples', 'weights'], '_list_of_measures#signature', '(samples, weights)', '_list_of_measures signature is %s' % g.args(), g, g.node)
    pm = ctx.cls(DS + ':product_measure')
    for meth in ('load', 'update'):
        m = pm.methods.get(meth)
        ctx.need(m is not None, 'product_measure.%s vanished' % meth)
        ctx.touch(m)
        ln = [s for s in m.node.body if isinstance(s, ast.Assign) and isinstance(s.targets[0], ast.Name) and s.targets[0].id == '_len']
        cut = [s for s in walk_no_nested(m.node) if isinstance(s, ast.If) and '_len' in unparse(s.test)]
        pts = 'pts'
        okl = bool(ln) and t(ln[0].value) == T.term(ast.parse('2 * sum(pts)', mode='eval').body)
        okc = bool(cut) and t(cut[0].test) == T.term(ast.parse('len(params) > _len', mode='eval').body) and \
            ''.join(unparse(cut[0].body[0]).split()).replace('(', '').replace(')', '') == 'params,values=params[:_len],params[_len:]'
        ctx.check(okl and okc, 'product_measure.%s#cut' % meth, 'parameters = first 2*sum(pts) values, the rest are attached values',
                  '%s no longer cuts the parameter vector at 2*sum(pts)' % meth, m, ln[0] if ln else m.node)
        un = calls_where(m.node, lambda c: callee_text(c) == 'unflatten')
        ctx.check(bool(un) and [unparse(a) for a in un[0].args] == ['params', 'pts'], 'product_measure.%s#unflatten' % meth, 'unflatten(params, pts)',
                  '%s rebuilds the measures from %s' % (meth, unparse(un[0]) if un else None), m, un[0] if un else m.node)


@rule('C19.b', min_instances=4)
def one_packer(ctx):
    """product weights are products over _pack(self.wts) and product positions are _pack(self.pos): same enumeration order for both"""
    pm = ctx.cls(DS + ':product_measure')
    w = ctx.model.lookup_prop(pm, 'weights')
    p = ctx.model.lookup_prop(pm, 'positions')
    ctx.need(w and w[0] and p and p[0], 'product_measure weights/positions properties vanished')
    fw, fp = ctx.touch(w[0]), ctx.touch(p[0])
    got = SB.summary(fw.node)
    want = SB.summary_of_source('''def __weights(self):
    weights = _pack(self.wts)
    _weights = []
    for wts in weights:
        _weights.append(product(wts))
    return _weights
''')
    ctx.check(got == want, 'product_measure.weights', 'product over each packed tuple of factor weights', 'product weights differ: %s' % SB.diff(got, want), fw, fw.node)
    got, want = SB.agree(fp.node, 'def __positions(self):\n    return _pack(self.pos)\n')
    ctx.check(got == want, 'product_measure.positions', '_pack(self.pos)', 'product positions differ: %s' % SB.diff(got, want), fp, fp.node)
    for prop, attr in (('wts', 'weights'), ('pos', 'positions')):
        pr = ctx.model.lookup_prop(pm, prop)
        ctx.need(pr and pr[0], 'product_measure.%s vanished' % prop)
        r = [s for s in pr[0].node.body if isinstance(s, ast.Return)]
        ctx.check(bool(r) and t(r[0].value) == T.term(ast.parse('[i.%s for i in self]' % attr, mode='eval').body), 'product_measure.' + prop,
                  'factor %s in factor order' % attr, 'product_measure.%s returns %s' % (prop, unparse(r[0].value) if r else None), pr[0], pr[0].node)


POS_WORDS = ('position', 'pos', 'coords', 'samples')
WT_WORDS = ('weight', 'wts')


@rule('C19.c', min_instances=20)
def delegation_roles(ctx):
    """every call from discrete.py into measures.py binds positions to `samples` and weights to `weights`; measure properties pair mean/impose_mean, spread/impose_spread, variance/impose_variance"""
    dm = ctx.model.module(DS)
    mm = ctx.model.module(MS)
    n = 0
    for q, f in sorted(dm.funcs.items()):
        for c in calls_where(f.node, lambda c: isinstance(c.func, (ast.Name, ast.Attribute)), include_lambda=False):
            r = ctx.model.resolve_dotted(f, c.func)
            if not (r and r[0] == 'func' and r[1].module is mm):
                continue
            callee = r[1]
            if callee.name.startswith('_'):
                continue      # generic packers (_pack, _nested_split, ...) take either role by design
            params = callee.args()
            bound = {}
            for i, a in enumerate(c.args):
                if isinstance(a, ast.Starred):
                    break
                if i < len(params):
                    bound[params[i]] = a
            for k in c.keywords:
                if k.arg:
                    bound[k.arg] = k.value
            for role, good_words, bad_words in (('samples', POS_WORDS, WT_WORDS), ('weights', WT_WORDS, POS_WORDS)):
                if role not in bound:
                    continue
                txt = unparse(bound[role]).lower()
                n += 1
                ctx.touch(f)
                crossed = any(w in txt for w in bad_words) and not any(w in txt for w in good_words)
                ctx.check(not crossed, '%s->%s#%s' % (q, callee.name, role), '%s := %s' % (role, unparse(bound[role])[:40]),
                          '%s passes %s as the `%s` of measures.%s' % (q, unparse(bound[role]), role, callee.name), f, c)
    ctx.need(n >= 20, 'expected >= 20 role bindings from discrete.py into measures.py, found %d' % n)
    mc = ctx.cls(DS + ':measure')
    for prop, getter, setter in (('center_mass', 'mean', 'impose_mean'), ('range', 'spread', 'impose_spread'), ('var', 'variance', 'impose_variance')):
        pr = ctx.model.lookup_prop(mc, prop)
        ctx.need(pr and pr[0] and pr[1], 'measure.%s property vanished' % prop)
        g, s_ = ctx.touch(pr[0]), ctx.touch(pr[1])
        gc = [callee_text(c) for c in calls_where(g.node, lambda c: True)]
        sc = [c for c in calls_where(s_.node, lambda c: callee_text(c).startswith('impose'))]
        ok_ = getter in gc and len(sc) == 1 and callee_text(sc[0]) == setter and len(sc[0].args) >= 3 and \
            [unparse(a) for a in sc[0].args[1:3]] == ['self.positions', 'self.weights'] and unparse(sc[0].args[0]) == s_.args()[1]
        st = [x for x in s_.node.body if isinstance(x, ast.Assign)]
        ok_ = ok_ and bool(st) and unparse(st[0].targets[0]) == 'self.positions'
        ctx.check(ok_, 'measure.' + prop, 'get: %s(...) ; set: positions = %s(value, positions, weights)' % (getter, setter),
                  'measure.%s is read with %s and set with %s' % (prop, gc, [unparse(c)[:60] for c in sc]), s_, s_.node)
    mass = ctx.model.lookup_prop(mc, 'mass')
    r = [x for x in mass[0].node.body if isinstance(x, ast.Return)] if mass and mass[0] else []
    ctx.check(bool(r) and unparse(r[0].value) == 'sum(self.weights)', 'measure.mass', 'sum of the weights', 'measure.mass returns %s' % (unparse(r[0].value) if r else None), mass[0], mass[0].node)


@rule('C19.d', min_instances=24)
def explicit_sums(ctx):
    """pof / pof_value add the weight of exactly the points where f(point) <= 0; expect / expect_var / support / support_index / mass and the measure setters keep their confirmed explicit-sum delegations; flatten / update / load of product measures and scenarios keep their confirmed cut-and-rebuild shape"""
    from .c19_refs import REFS
    what = {'pof': 'sum of weights over positions with f(x) <= 0', 'pof_value': 'sum of weights over values with f(y) <= 0'}
    for a, src in sorted(REFS.items()):
        if not a.startswith(DS + ':'):
            continue
        name = a.split('.')[-1]
        _ref(ctx, a, src, what.get(name, 'confirmed definition of %s' % a.split(':')[1]))


VALUE_SENSITIVE = {'set', 'frozenset', 'dict', 'sorted', 'unique', 'fromkeys', 'index', 'count', 'sort', 'remove', 'Counter', 'groupby', 'min', 'max',
                   'argsort', 'searchsorted', 'where', 'nonzero'}
INDEX_ONLY = {'len', 'list', 'tuple', 'append', 'extend', 'range', 'enumerate', 'zip', 'iter', 'recurse', 'chain', 'product', 'prod', 'int', 'reversed',
              'asarray', 'array', 'flatten', 'tolist', 'ones', 'zeros', 'isinstance', 'hasattr',
              'list_or_tuple_or_ndarray', 'getattr'}      # type / shape tests: they look at the container, not at the values
PACKERS = ['_pack', '_unpack', '_flat', '_nested', '_nested_split']


@rule('C19.e', min_instances=9)
def index_only_packing(ctx):
    """_pack / _unpack / _flat / _nested / _nested_split are parametric in the point values: elements are moved by index, slice and iteration only - never compared, hashed, sorted or de-duplicated (so repeated positions and zero weights survive the round trip); _pack / _unpack keep their confirmed Cartesian order and stride arithmetic"""
    from .c19_refs import REFS
    mm = ctx.model.module(MS)
    for name in PACKERS:
        f = ctx.func('%s:%s' % (MS, name))
        data = set(f.args())
        shape = {'npts'}
        bodies = [f] + [g for q, g in sorted(mm.funcs.items()) if q.startswith(name + '.')]
        n_ops = 0
        verdict = None
        for g in bodies:
            ctx.touch(g)
            for n in ast.walk(g.node):
                if isinstance(n, ast.Call):
                    cal = callee_text(n).split('.')[-1]
                    n_ops += 1
                    if cal in VALUE_SENSITIVE:
                        verdict = verdict or ('bad', '%s inspects the point values with %s(...)' % (name, callee_text(n)), n)
                    elif cal not in INDEX_ONLY and cal not in PACKERS:
                        verdict = verdict or ('unknown', '%s calls %s(...), which is neither a known index-only nor a known value-sensitive operation' % (name, callee_text(n)), n)
                elif isinstance(n, (ast.Set, ast.SetComp, ast.Dict, ast.DictComp)):
                    verdict = verdict or ('bad', '%s hashes the point values into a %s' % (name, type(n).__name__), n)
                elif isinstance(n, ast.Compare):
                    # comparisons may involve indices, cursors and shapes, not the elements themselves
                    n_ops += 1
                    raw = [x for x in ast.walk(n) if isinstance(x, ast.Name) and x.id in data - shape and
                           not (isinstance(parent(x), ast.Call) and callee_text(parent(x)) == 'len')]
                    if raw:
                        verdict = verdict or ('bad', '%s compares point values: %s' % (name, unparse(n)), n)
        if verdict and verdict[0] == 'unknown':
            raise AnalysisError('C19.e: ' + verdict[1])
        if verdict:
            ctx.bad(name + '#parametric', verdict[1], f, verdict[2])
        else:
            ctx.ok(name + '#parametric', '%d operations, all index / slice / iteration' % n_ops, f, f.node)
    for a in (MS + ':_pack', MS + ':_pack.recurse', MS + ':_unpack', MS + ':_unpack.recurse', MS + ':_flat', MS + ':_nested'):
        if '.' in a.split(':')[1] and a.split(':')[1] not in mm.funcs:
            # the closure is gone: the enclosing function's own comparison (just above) has already differed
            ctx.need(any(k == a.split(':')[1].split('.')[0] for k in ctx.bad_keys()), '%s vanished although its enclosing function is unchanged' % a)
            continue
        _ref(ctx, a, REFS[a], {'_pack': 'recursion from the last factor: first factor varies fastest', '_pack.recurse': 'first factor varies fastest',
                               '_unpack': 'factor 0 = first npts[0] entries of column 0', '_unpack.recurse': 'factor i = column i sliced [:prod(npts[:i+1]):prod(npts[:i])]',
                               '_flat': 'concatenation of the factors', '_nested': 'consecutive runs of npts[i] values'}[a.split(':')[1]])


@rule('C19.f', min_instances=5)
def numpy_reductions_get_arrays(ctx):
    """resolved callees: no numpy reduction reachable from the measure classes (expect, expect_var, pof, support, mass, the setters, flatten/load/update) is handed a generator expression (the statistics delegate to measures.py, where `from numpy import sum` shadows the builtin)"""
    from . import npcalls
    m = ctx.model.module('mystic.math.discrete')
    ents = [f.anchor for q, f in sorted(m.funcs.items()) if q.count('.') <= 1 and not q.split('.')[-1].startswith('__')]
    npcalls.check_closure(ctx, ents, min_sites=5)


@rule('C19.g', min_instances=5)
def measure_setters_and_measure_constraints(ctx):
    """measure.center_mass / range / var reach their value through impose_mean / impose_spread / impose_variance, which keep their affine constructions over ALL positions (shared with C18.b: the range getter is max - min over all positions, so the setter must rescale by that same spread); impose_measure applies every collapse of every dict it was given, in order, per call (a tuple of dicts is never merged by key: two dicts may address the same measure)"""
    from .c18 import affine_shape
    affine_shape(ctx)
    impose_measure_applies_every_collapse(ctx)


def impose_measure_applies_every_collapse(ctx):
    """impose_measure: a single dict is wrapped in a tuple; per call every collapse of every dict is applied to the loaded product
    measure, position collapses (tracking) first, then weight collapses (noweight, not nullable) - shared by C19.g and C11.j"""
    f = ctx.func('mystic.constraints:impose_measure')
    g = ctx.func('mystic.constraints:impose_measure.dec.func')
    ref_outer = '''def impose_measure(npts, tracking={}, noweight={}):
    if type(tracking) is dict: tracking = (tracking,)
    if type(noweight) is dict: noweight = (noweight,)
    def dec(f):
        pass
    return dec
'''
    ref_inner = '''def func(x, *args, **kwds):
    c = product_measure()
    c.load(x, npts)
    for clps in tracking:
        for k,v in clps.items():
            c[k].positions, c[k].weights = impose_collapse(v, c[k].positions, c[k].weights)
    for clps in noweight:
        for k,v in clps.items():
            c[k].positions, c[k].weights = impose_unweighted(v, c[k].positions, c[k].weights, False)
    return f(c.flatten(), *args, **kwds)
'''
    import copy as _copy
    outer = _copy.deepcopy(f.node)
    for n in ast.walk(outer):
        if isinstance(n, ast.FunctionDef) and n.name == 'dec':
            n.body = [ast.Pass()]
    ast.fix_missing_locations(outer)
    # the two helpers it applies keep their confirmed definitions (references shared with C18.d/e)
    from .c18_refs import REFS as R18
    for hname, hwhat in (('impose_collapse', 'merged points: positions to the first, weights summed onto it'),
                         ('impose_unweighted', 'listed weights zeroed, the rest renormalised to the original mass (all mass listed and not nullable: spread evenly)')):
        a = 'mystic.math.measures:' + hname
        hf = ctx.func(a)
        got, want = SB.agree(hf.node, R18[a], strict_casts=True)
        if got != want and (a + '#two-phase') in R18:
            # the groups tools.connected returns are disjoint: all group sums first, then all stores, is the same move (see C18.e)
            got2, want2 = SB.agree(hf.node, R18[a + '#two-phase'], strict_casts=True)
            if got2 == want2:
                got, want = got2, want2
        ctx.stats['terms_compared'] += len(got)
        ctx.check(got == want, hname, hwhat, '%s (applied by impose_measure) differs from its confirmed behaviour: %s' % (hname, SB.diff(got, want)), hf, hf.node)
    for node, src, what, label in ((outer, ref_outer, 'a single dict is wrapped in a tuple; nothing is merged', 'impose_measure'),
                                   (g.node, ref_inner, 'every collapse of every dict is applied per call, tracking first, then noweight', 'impose_measure.func')):
        got, want = SB.agree(node, src)
        ctx.stats['terms_compared'] += len(got)
        ctx.check(got == want, label, what, '%s differs from its confirmed behaviour: %s' % (label, SB.diff(got, want)), f, f.node if node is outer else g.node)


@rule('C19.h', min_instances=5)
def delegated_statistics_are_explicit_sums(ctx):
    """what measure.expect / expect_var / support / support_index delegate to in math.measures keeps its explicit-sum definition: expectation and _expected_moment weigh f(x) by w over exactly the points with |w| > tol (signed measures keep their negative-weight points), support / support_index keep the points with w > tol (reference summaries shared with C18.f)"""
    from .c18_refs import REFS as R18
    for name, what in (('expectation', 'sum w f(x) / sum w over |w| > tol'), ('_expected_moment', 'weighted moment of f over |w| > tol'),
                       ('expected_variance', '_expected_moment(order=2)'), ('support_index', 'indices with w > tol'), ('support', 'points with w > tol')):
        a = 'mystic.math.measures:' + name
        _ref(ctx, a, R18[a], what)


@rule('C19.i', min_instances=2)
def measures_do_not_share_a_default_container(ctx):
    """no function or method of math.discrete / math.measures has a mutable default argument that it keeps (stores on the object, puts into a container, returns) or mutates: scenario / measure objects built without that argument would all hold the same list, so an in-place edit of one object's values shows up in every other and a flatten/load round trip no longer returns an equal object; positive control on a synthetic constructor"""
    probe = ast.parse('def __init__(self, pm=None, values=[]):\n    self.__Y = values\n').body[0]
    ctx.need(len(escaping_mutable_defaults(probe)) == 1, 'mutable-default detector lost its positive control')
    for mname in ('mystic.math.discrete', 'mystic.math.measures'):
        m = ctx.model.modules[mname]
        n = 0
        found = []
        for q, fi in sorted(m.funcs.items()):
            n += 1
            for pname, how, node in escaping_mutable_defaults(fi.node):
                found.append((fi, pname, how, node))
        for fi, pname, how, node in found:
            ctx.touch(fi)
            ctx.bad('%s#default[%s]' % (fi.qualname, pname), '%s has the mutable default %s=... and it is %s: every call that omits `%s` shares one object'
                    % (fi.qualname, pname, how, pname), fi, node)
        if not found:
            ctx.ok(mname + '#defaults', '%d functions: no mutable default argument is kept or mutated' % n, next(iter(m.funcs.values())), m.tree)


@rule('C19.j', min_instances=3)
def given_weights_are_never_replaced_by_the_default(ctx):
    """compose / _list_of_measures fall back to uniform weights when no weights are GIVEN; that is decided by `weights is None` (or an empty container), never by the truth value of the weights themselves: `not weights` is true for a 1x1 array holding the weight 0.0 (the given zero weight was replaced by 1.0 - compose / decompose no longer inverses "including zeros") and raises for larger arrays"""
    n = 0
    for a, PN in ((DS + ':compose', 'weights'), (DS + ':_list_of_measures', 'weights'), (DS + ':scenario.__init__', 'values')):
        f = ctx.func(a)
        ctx.need(PN in f.args(), '%s: no %s parameter' % (f.qualname, PN))
        dflt = [s for s in stmts_of(f.node) if isinstance(s, ast.If) and any(isinstance(x, ast.Assign) and any(isinstance(t_, ast.Name) and t_.id == PN for t_ in x.targets) for x in s.body)]
        ctx.need(dflt, '%s: the default for missing weights is not found' % f.qualname)
        for st in dflt:
            n += 1

            def truthiness(e):
                # a bare truth test of the parameter (possibly negated), anywhere in the condition
                if isinstance(e, ast.UnaryOp) and isinstance(e.op, ast.Not):
                    return truthiness(e.operand)
                if isinstance(e, ast.BoolOp):
                    # `weights is None or not len(weights)`: after an `is None` alternative the rest may only use len()
                    return any(truthiness(v) for v in e.values)
                if isinstance(e, ast.Name) and e.id != PN and e.id in local:
                    # a local flag (`empty`): what it was computed from; a truth test of the parameter is the fallback for objects WITHOUT a
                    # length only when it sits in the `except TypeError` handler of a try whose body asks len(<parameter>) first
                    return any(truthiness(v) for v, fallback in local[e.id] if not fallback)
                return isinstance(e, ast.Name) and e.id == PN
            local = {}
            for a_ in stmts_of(f.node):
                if isinstance(a_, ast.Assign) and len(a_.targets) == 1 and isinstance(a_.targets[0], ast.Name) and a_.targets[0].id not in f.args():
                    fb = False
                    h_ = parent(a_)
                    if isinstance(h_, ast.ExceptHandler) and h_.type is not None and 'TypeError' in unparse(h_.type):
                        tr = parent(h_)
                        fb = isinstance(tr, ast.Try) and any(isinstance(c, ast.Call) and isinstance(c.func, ast.Name) and c.func.id == 'len' and c.args and isinstance(c.args[0], ast.Name) and c.args[0].id == PN
                                                             for b_ in tr.body for c in ast.walk(b_))
                    local.setdefault(a_.targets[0].id, []).append((a_.value, fb))
            ctx.check(not truthiness(st.test), '%s#default' % f.qualname, 'uniform weights only when weights is None / empty (%s)' % ' '.join(unparse(st.test).split()),
                      '%s decides "no weights given" by the truth value of the weights (%s): a single zero weight given as an array is replaced by a uniform weight, a larger array raises'
                      % (f.qualname, ' '.join(unparse(st.test).split())), f, st)
    ctx.need(n >= 3, 'expected the defaults of compose, _list_of_measures and scenario.__init__, found %d' % n)
