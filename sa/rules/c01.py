"""C01 - the reported optimum is a genuinely evaluated point with its true energy.

Decided: how each _decorate_objective composes the objective (counter+monitor
innermost, one penalty wrapper evaluated at the constrained vector, reducer
outermost); what the wrappers compute; that DE/DE2 store an energy only together
with the vector it was computed for, under a strict <, with no write to the
vector in between; that Nelder-Mead pairs every vertex store with the energy of
that vertex and sorts both arrays with one permutation; that Powell keeps the
(energy, point) pair of its line search; that the functional wrappers return the
solver's own best pair.  Round 3: the raw cost receives a copy of the solver's vector (wrap_penalty or
wrap_function); ensembles hand back the best member's pair on every path on
which one was found (shared with C09.a).
Round 4: the reducer-over-penalty order is checked against the statement (known
finding D24); reduced() is decided on every return path; SetObjective's early
return is truth-table-equivalent to `cost unchanged and ExtraArgs unchanged`;
every constrained image stored by Nelder-Mead / Powell is cast to float64.
Round 6: a change of the constraints invalidates the decorated objective like a
change of penalty or reducer; the simplex is clipped only against ranges that
are in force; an ensemble draws starting points only while it has no members.
NOT decided: identity of arrays at run time, float
equality, reducers on array-valued costs, Powell's monotonicity (brent).
"""
import ast

from ..core import rule
from ..srcmodel import AnalysisError, walk_no_nested, attr_chain, unparse, norm_stmt
from ..paths import enumerate_paths, enumerate_block
from .. import terms as T
from .common import *
from . import decorate as D


def _is_self(t, sn, attr):
    return t == ('attr', ('name', sn), attr)


@rule('C01.a', min_instances=12)
def objective_composition(ctx):
    """each _decorate_objective: wrap_function innermost, wrap_penalty once (inside wrap_nested where constraints are nested), reducer outermost; _cost[0] is what is returned"""
    for key, anchor in D.DECORATORS.items():
        f = ctx.func(anchor)
        res = D.analyse(ctx, f)
        ctx.need(res, 'no returning path in %s' % anchor)
        for r in res:
            ch = r['chain']
            sn = r['self']
            label = '%s._decorate_objective[strict=%s,reducer=%s]' % (f.cls.name, r['strict'], r['reducer'])
            node = r['path'].exit_node
            names = [c[0] for c in ch]
            unknown = [n for n in names if n.startswith('?')]
            if unknown:
                ctx.undecided('unknown wrapper %s in %s' % (unknown, label))
            shown = D.render(ch)
            # innermost
            inner_ok = len(ch) >= 2 and ch[-1] == ('RAW', ('name', r['raw_param'])) and ch[-2][0] == 'wrap_function'
            if inner_ok:
                wf = ch[-2]
                mon = wf[1][2] if len(wf[1]) > 2 else None
                mon_ok = _is_self(mon, sn, '_evalmon') or (key == 'DE2' and r['pymap'] is False and D._callee(mon) == 'Null')
                inner_ok = mon_ok and names.count('wrap_function') == 1
            ctx.check(inner_ok, label + '#innermost', 'counter+monitor wrapper is innermost, around the raw cost: ' + shown,
                      'the counting/monitoring wrapper is not the innermost wrapper around the raw cost (or not bound to the solver\'s evaluation monitor): ' + shown, f, node)
            # penalty exactly once
            pens = [c for c in ch if c[0] == 'wrap_penalty']
            pen_ok = len(pens) == 1 and len(pens[0][1]) == 2 and _is_self(pens[0][1][1], sn, '_penalty')
            ctx.check(pen_ok, label + '#penalty', 'wrap_penalty(., self._penalty) exactly once',
                      'the penalty wrapper occurs %d times / is not bound to self._penalty: %s' % (len(pens), shown), f, node)
            # constraints nesting
            nests = [c for c in ch if c[0] == 'wrap_nested']
            if D.NESTS_CONSTRAINTS[key]:
                want = D.constraints_term(sn, bool(r['strict']))
                n_ok = len(nests) == 1 and pens and names.index('wrap_nested') < names.index('wrap_penalty') and \
                    len(nests[0][1]) == 2 and nests[0][1][1] == want
                ctx.check(n_ok, label + '#nested', 'constraints are nested outside the penalty: penalty is evaluated at the constrained vector',
                          'the constraints are not nested around (outside) the penalty with %s: %s' % (T.show(want), shown), f, node)
            else:
                ctx.check(not nests, label + '#nested', 'DE applies constraints in _Step, not in the objective',
                          'unexpected wrap_nested in a DE objective: ' + shown, f, node)
            # reducer
            reds = [c for c in ch if c[0] == 'reduced']
            if r['reducer']:
                rd_ok = len(reds) == 1 and names[0] == 'reduced' and reds[0][1] and _is_self(reds[0][1][0], sn, '_reducer') and \
                    ('arraylike', ('const', True)) in reds[0][2]
                ctx.check(rd_ok, label + '#reducer', 'reducer is outermost', 'the reducer is not the outermost wrapper: ' + shown, f, node)
                # what the property states is reducer(cost(x)) + penalty(x): the penalty must be added OUTSIDE the reducer.  With the
                # reducer outside the penalty wrapper the solver minimises reducer(cost(x) + penalty(x)) - the scalar penalty broadcast
                # over the components - which agrees with the statement only for translation-equivariant reducers (max, min, mean)
                if rd_ok and pens and names.index('reduced') < names.index('wrap_penalty'):
                    key2 = '%s._decorate_objective#reducer-over-penalty' % f.cls.name
                    if key2 not in getattr(ctx, '_c01_seen', set()):
                        ctx._c01_seen = getattr(ctx, '_c01_seen', set()) | {key2}
                        ctx.bad(key2, '%s applies the reducer to cost(x) + penalty(x), not to cost(x) alone: the reported energy is reducer(cost + penalty) instead of reducer(cost) + penalty (a sum reducer over n components counts the penalty n times): %s'
                                % (f.qualname, shown), f, node, statement='reducer wraps the penalty wrapper')
            else:
                ctx.check(not reds, label + '#reducer', 'no reducer wrapper without a reducer',
                          'a reducer wrapper is applied although no reducer is set: ' + shown, f, node)
            st = r['stored']
            st_ok = st is not None and st[0] == 'tuple' and len(st) == 4 and st[1] == r['returned'] and st[2] == ('name', r['raw_param'])
            ctx.check(st_ok, label + '#stored', '_cost = (decorated, raw, args) with decorated == returned',
                      'self._cost does not hold (the returned objective, the raw cost, args): %s' % (T.show(st) if st else None), f, node)


def _wrapper_ret(ctx, anchor):
    f = ctx.func(anchor)
    b = T.Builder()
    ret = None
    for st in f.node.body:
        if isinstance(st, ast.Return):
            ret = T.simp(b.t(st.value))
            break
        b.exec_stmt(st)
    ctx.need(ret is not None, 'no return in %s' % anchor)
    return f, ret


def _copy_or_self(t, x):
    return t == ('name', x) or t == ('sub', ('name', x), ('slice', None, None, None))


def raw_cost_receives_a_copy(ctx):
    """the raw cost never sees the solver's own live vector (DE hands its trialSolution list down the chain): one of the two
    wrappers that are always on the chain - wrap_penalty, wrap_function - hands on a copy.  With no copy a cost that works
    on its argument in place rewrites the vector the solver then stores next to the energy of the original one, and an
    in-process map behaves differently from a process map (which always works on a pickled copy).  Shared by C01.b, C07.i."""
    def _is_copy(t_, x_):
        if t_ == ('sub', ('name', x_), ('slice', None, None, None)):
            return True
        return t_[0] == 'call' and T.show(t_[1]).split('.')[-1] in ('copy', 'deepcopy', 'list', 'array') and len(t_[2]) >= 1 and \
            (t_[2][0] == ('name', x_) or (t_[1][0] == 'attr' and t_[1][1] == ('name', x_)))
    f, ret = _wrapper_ret(ctx, 'mystic.tools:wrap_penalty.function_wrapper')
    outer = ctx.func('mystic.tools:wrap_penalty')
    cf = outer.args()[0]
    x = f.args()[0]
    pen_copies = False
    for sub in T.subterms(ret):
        if isinstance(sub, tuple) and sub and sub[0] == 'call' and T.show(sub[1]) == cf and len(sub[2]) == 1:
            pen_copies = _is_copy(sub[2][0], x)
    wf = ctx.func('mystic.tools:wrap_function.function_wrapper')
    wouter = ctx.func('mystic.tools:wrap_function')
    raw = wouter.args()[0]
    wx = wf.args()[0]
    bw = T.Builder()
    fun_copies = None
    for st in stmts_of(wf.node):
        for c in calls_where(st, lambda c: isinstance(c.func, ast.Name) and c.func.id == raw, include_lambda=False):
            if c.args:
                fun_copies = _is_copy(T.simp(bw.t(c.args[0])), wx)
        if isinstance(st, ast.Assign) and all(isinstance(tg, ast.Name) for tg in st.targets):
            bw.exec_stmt(st)
    ctx.need(fun_copies is not None, 'wrap_function.function_wrapper no longer calls the raw function')
    ctx.check(pen_copies or fun_copies, 'wrap_penalty/wrap_function#copy', 'the raw cost receives a copy of the solver\'s vector (%s)' % ('wrap_penalty' if pen_copies else 'wrap_function'),
              'neither wrap_penalty nor wrap_function copies the vector before the raw cost sees it: the solver\'s own trial vector reaches user code, and an in-place cost leaves (stored point, stored energy) out of step', f, f.node)


@rule('C01.b', min_instances=3)
def wrappers_mean_what_they_say(ctx):
    """wrap_penalty = cost(a)+penalty(a) at one and the same a; wrap_nested = outer(inner(copy of x)); reduced applies the reducer to the result"""
    f, ret = _wrapper_ret(ctx, 'mystic.tools:wrap_penalty.function_wrapper')
    outer = ctx.func('mystic.tools:wrap_penalty')
    cf, pf = outer.args()[:2]
    x = f.args()[0]
    good = False
    a1 = (None,)
    if T.is_poly(ret) and len(ret[1]) == 2:
        atoms = {}
        for m, c in ret[1]:
            if c == 1 and len(m) == 1 and m[0][1] == 1 and m[0][0][0] == 'call':
                atoms[T.show(m[0][0][1])] = m[0][0]
        if set(atoms) == {cf, pf}:
            a1, a2 = atoms[cf][2], atoms[pf][2]
            good = len(a1) == 1 and a1 == a2 and _copy_or_self(a1[0], x) and not atoms[cf][3] and not atoms[pf][3]
    ctx.stats['terms_compared'] += 1
    ctx.check(good, 'wrap_penalty.function_wrapper', 'returns cost(a) + penalty(a), a = copy of x',
              'wrap_penalty returns %s: cost and penalty are not added / not evaluated at one and the same vector' % T.show(ret), f, f.node)
    raw_cost_receives_a_copy(ctx)
    f, ret = _wrapper_ret(ctx, 'mystic.tools:wrap_nested.function_wrapper')
    outer = ctx.func('mystic.tools:wrap_nested')
    of, inf_ = outer.args()[:2]
    x = f.args()[0]
    good = ret[0] == 'call' and T.show(ret[1]) == of and len(ret[2]) == 1 and ret[2][0][0] == 'call' and \
        T.show(ret[2][0][1]) == inf_ and len(ret[2][0][2]) == 1 and _copy_or_self(ret[2][0][2][0], x)
    ctx.stats['terms_compared'] += 1
    ctx.check(good, 'wrap_nested.function_wrapper', 'returns outer(inner(copy of x))',
              'wrap_nested returns %s, not outer(inner(x))' % T.show(ret), f, f.node)
    # reduced(reducer, arraylike)(f): result = f(*args, **kwds); reducer(result) if iterable else result
    for q in ('mystic.tools:reduced.dec.func', 'mystic.tools:reduced.dec.func#2'):
        f = ctx.func(q)
        res = ('call', ('name', 'f'), (('star', ('name', 'args')),), ((None, ('name', 'kwds')),))
        itb = ('call', ('name', 'isiterable'), (res,), ())
        arraylike = q.endswith('func')
        red = ('call', ('name', 'reducer'), (res,), ()) if arraylike else ('call', ('name', 'reduce'), (('name', 'reducer'), res), ())
        rts = return_terms(f.node)
        ctx.need(rts, 'reduced: no return')
        good = True
        shown = []
        for p, term, b, conds in rts:
            # every way out: the reducer's value exactly when the result is iterable (any length, 1 included), the result itself otherwise
            for cl, leaf in T.cases(term):
                lits = [(c[0], c[1]) for c in conds] + list(cl)
                d = decided(itb, lits)
                shown.append('%s under %s' % (T.show(leaf)[:40], [(T.show(a)[:30], tr) for a, tr in lits]))
                if leaf == red:
                    good = good and d is True and all(a == itb for a, tr in lits)
                elif leaf == res:
                    good = good and d is False and all(a == itb for a, tr in lits)
                else:
                    good = False
        ctx.stats['terms_compared'] += len(rts)
        ctx.check(good, 'reduced.dec.func[%s]' % ('arraylike' if arraylike else 'pairwise'),
                  'returns reducer(result) if iterable else result, result = f(*args, **kwds), on every path',
                  'reduced returns %s' % shown[:3], f, f.node)
    # wrap_reducer (SetReducer without arraylike): a pairwise reducer is folded over the cost vector itself - no seed
    # value takes part (a seed of 0.0 would change max / product reductions)
    f = ctx.func('mystic.tools:wrap_reducer._reduce')
    outer = ctx.func('mystic.tools:wrap_reducer')
    rts = return_terms(f.node)
    want = ('call', ('name', 'reduce'), (('name', outer.args()[0]), ('name', f.args()[0])), ())
    ctx.stats['terms_compared'] += 1
    ctx.check(bool(rts) and all(x[1] == want for x in rts), 'wrap_reducer._reduce', 'reduce(reducer, x): the fold of the cost vector, nothing else',
              'wrap_reducer folds as %s' % ([T.show(x[1]) for x in rts][:1]), f, f.node)


def _trial_energy_defs(f, name='trialEnergy'):
    return [s for s in stmts_of(f.node) if isinstance(s, ast.Assign) and len(s.targets) == 1
            and isinstance(s.targets[0], ast.Name) and s.targets[0].id == name]


def _de_selection(ctx, key, f):
    """find the guarded store groups of a DE _Step; yields dicts"""
    sn = selfname_of(f)
    out = []
    for n in walk_no_nested(f.node):
        if not isinstance(n, ast.If):
            continue
        tt = t(n.test)
        if tt[0] != 'cmp' or tt[1] not in ('<', '<='):
            continue
        if tt[3][0] == 'sub' and tt[3][1] == ('attr', ('name', sn), 'popEnergy'):
            out.append(('member', n, tt))
        elif tt[3] == ('attr', ('name', sn), 'bestEnergy'):
            out.append(('best', n, tt))
        elif (tt[2][0] == 'sub' and tt[2][1] == ('attr', ('name', sn), 'popEnergy')) or tt[2] == ('attr', ('name', sn), 'bestEnergy'):
            out.append(('reversed', n, tt))
    return out


@rule('C01.c', min_instances=8)
def de_energy_stored_with_its_point(ctx):
    """DE/DE2 _Step (every path, locals substituted, roles from the data flow): a member/best energy is replaced only where the path knows `trial energy < incumbent` (strict), by the energy the objective returned for the very vector stored with it, and the trial vector is not written between its evaluation and the stores"""
    from . import deselect as DS
    for key in ('DE', 'DE2'):
        cls = ctx.cls(CONCRETE_SOLVERS[key])
        f = ctx.touch(ctx.model.lookup_method(cls, '_Step'))
        r = DS.analyse(ctx, key, f)
        sn, mode = r['sn'], r['mode']
        for node, v in r['transformed']:
            ctx.bad('%s._Step#energy' % cls.name, 'the trial energy is recomputed/transformed after the evaluation: %s' % norm_stmt(node), f, node)
        ctx.ok('%s._Step#evaluation' % cls.name, '%s = %s' % (r['energy_var'], 'objective(self.trialSolution)' if mode == 'direct' else 'self._map(objective, self.trialSolution, ...)'),
               f, r['evals'][0][0])
        loop_stores = [st for st in r['stores'] if st.in_loop > 0 and st.kind != 'trial']
        ctx.need(any(st.kind == 'member-energy' for st in loop_stores) and any(st.kind == 'best-energy' for st in loop_stores),
                 'selection stores not found in %s._Step' % cls.name)
        results = {}
        for st in loop_stores:
            il = DS.improvement_literal(st, sn, mode)
            kind = st.kind
            if il is None:
                results.setdefault((kind, 'guard'), []).append((False, st, 'the store does not address one member'))
                continue
            lit, en, pt = il
            known = (lit, True) in st.lits
            nonstrict = (('cmp', '<=') + lit[2:], True) in st.lits
            msg = ''
            if not known:
                msg = 'replaced by a trial that is not known to be strictly better (%s)' % ('only `<=` is established' if nonstrict else 'no `%s` on the path' % T.show(lit)[:60])
            results.setdefault((kind, 'strict'), []).append((known, st, msg))
            if kind.endswith('energy'):
                ok = en is not None and st.value == en
                results.setdefault((kind, 'value'), []).append((ok, st, 'the stored energy is %s, not the energy the objective returned for this trial' % T.show(st.value)[:60]))
            else:
                val = DS._strip_slice(st.value)
                val = val[2][0] if (val[0] == 'call' and T.show(val[1]) in ('copy', 'list') and len(val[2]) == 1) else val
                ok = pt is not None and val == pt
                results.setdefault((kind, 'value'), []).append((ok, st, 'the stored vector is %s, not the evaluated trial %s' % (T.show(st.value)[:60], T.show(pt)[:40] if pt else '?')))
            results.setdefault((kind, 'evaluated'), []).append((st.evaluated, st, 'the store happens on a path on which the objective has not been evaluated for this trial'))
        for (kind, what), items in sorted(results.items()):
            bad = [(st, m) for ok, st, m in items if not ok]
            ctx.check(not bad, '%s._Step#%s#%s' % (cls.name, kind, what), '%d store events: %s' % (len(items), {'strict': 'strict improvement known on the path', 'value': 'stores the trial\'s own energy / vector',
                      'evaluated': 'after the evaluation', 'guard': 'addresses one member'}[what]),
                      '%s: %s (path %s)' % (kind, bad[0][1] if bad else '', bad[0][0].path.describe(6) if bad else ''), f, bad[0][0].node if bad else items[0][1].node)
        # energy and point of a member / of the best are replaced together
        for a, b_ in (('member-energy', 'member-point'), ('best-energy', 'best-point')):
            la = set(tuple(st.lits) for st in loop_stores if st.kind == a)
            lb = set(tuple(st.lits) for st in loop_stores if st.kind == b_)
            lone = [st for st in loop_stores if st.kind in (a, b_) and not any(_prefix(tuple(st.lits), o) or _prefix(o, tuple(st.lits)) for o in (lb if st.kind == a else la))]
            ctx.check(not lone, '%s._Step#%s+%s' % (cls.name, a, b_), 'energy and vector are replaced on the same paths',
                      'a path replaces the %s without the matching %s' % (lone[0].kind if lone else '', b_ if lone and lone[0].kind == a else a), f, lone[0].node if lone else f.node)
        # the trial is not touched between evaluation and stores
        late = [st for st in r['stores'] if st.kind == 'trial' and st.evaluated]
        ctx.check(not late, '%s._Step#no-write' % cls.name, 'the trial vector is not written between its evaluation and the stores',
                  'the trial vector is modified after it was evaluated and before it is stored: %s' % (norm_stmt(late[0].node) if late else ''), f, late[0].node if late else f.node)


def _prefix(a, b):
    return len(a) <= len(b) and b[:len(a)] == a


def _local_def(f, name):
    ds = [s for s in stmts_of(f.node) if isinstance(s, ast.Assign) and len(s.targets) == 1 and
          isinstance(s.targets[0], ast.Name) and s.targets[0].id == name]
    return ds


@rule('C01.d', min_instances=8)
def simplex_pairing(ctx):
    """Nelder-Mead: every vertex store sim[k]=P is paired in the same block with fsim[k]=cost(P); one permutation sorts both arrays"""
    f = ctx.func('mystic.scipy_optimize:NelderMeadSimplexSolver._Step')
    n_pairs = 0
    for st in stmts_of(f.node):
        if not (isinstance(st, ast.Assign) and len(st.targets) == 1 and isinstance(st.targets[0], ast.Subscript)
                and isinstance(st.targets[0].value, ast.Name) and st.targets[0].value.id == 'sim'):
            continue
        idx = t(st.targets[0].slice)
        val = t(st.value)
        construct = 'NelderMeadSimplexSolver._Step#sim[%s]' % T.show(idx)
        # accepted exception: re-projection of a vertex onto the constraints (energy unchanged: objective nests the same constraints)
        if val == ('call', ('name', 'constraints'), (('sub', ('name', 'sim'), idx),), ()):
            ctx.ok(construct, 're-projection sim[k] = constraints(sim[k]) (energy unchanged by idempotence)', f, st)
            n_pairs += 1
            continue
        blk = parent(st)
        body = blk.body if st in getattr(blk, 'body', []) else getattr(blk, 'orelse', [])
        partner = None
        for s2 in body:
            if isinstance(s2, ast.Assign) and len(s2.targets) == 1 and isinstance(s2.targets[0], ast.Subscript) and \
                    isinstance(s2.targets[0].value, ast.Name) and s2.targets[0].value.id == 'fsim' and t(s2.targets[0].slice) == idx:
                partner = s2
        if partner is None:
            ctx.bad(construct, 'vertex %s is replaced without storing its energy next to it' % T.show(idx), f, st)
            continue
        ev = partner.value
        # resolve a local like fxr -> cost(xr)
        hops = 0
        while isinstance(ev, ast.Name) and hops < 3:
            ds = _local_def(f, ev.id)
            if len(ds) != 1:
                break
            ev = ds[0].value
            hops += 1
        et = t(ev)
        arg_ok = et[0] == 'call' and et[1] == ('name', 'cost') and len(et[2]) == 1 and \
            (et[2][0] == val or et[2][0] == ('sub', ('name', 'sim'), idx))
        if arg_ok and et[2][0] == ('sub', ('name', 'sim'), idx):
            arg_ok = partner.lineno > st.lineno   # cost(sim[j]) must read the new vertex
        ctx.stats['terms_compared'] += 1
        ctx.check(arg_ok, construct, 'paired with fsim[%s] = cost(%s)' % (T.show(idx), T.show(val)[:40]),
                  'vertex %s := %s but its stored energy is %s' % (T.show(idx), T.show(val)[:60], T.show(et)[:60]), f, partner)
        n_pairs += 1
    ctx.need(n_pairs >= 7, 'expected >= 7 vertex stores in Nelder-Mead _Step, found %d' % n_pairs)
    # the sort
    sorts = [s for s in stmts_of(f.node) if isinstance(s, ast.Assign) and isinstance(s.value, ast.Call) and callee_text(s.value).endswith('take')]
    perm = set()
    tg = {}
    for s in sorts:
        v = t(s.value)
        if len(v[2]) >= 2:
            tg[T.show(t(s.targets[0]))] = (T.show(v[2][0]), T.show(v[2][1]))
            perm.add(T.show(v[2][1]))
    good = tg.get('sim', (None,))[0] == 'sim' and tg.get('fsim', (None,))[0] == 'fsim' and len(perm) == 1
    # the permutation: whatever local it is called, it is defined once, as argsort of the energies
    pname = perm.pop() if len(perm) == 1 else None
    inddef = _local_def(f, pname) if pname else []
    good = good and len(inddef) == 1 and t(inddef[0].value)[0] == 'call' and T.show(t(inddef[0].value)[1]).endswith('argsort') and T.show(t(inddef[0].value)[2][0]) == 'fsim'
    ctx.check(good, 'NelderMeadSimplexSolver._Step#sort', 'sim and fsim are permuted by the same argsort(fsim)',
              'the simplex and its energies are not sorted by one and the same permutation of the energies: %s' % tg, f, sorts[0] if sorts else f.node)


@rule('C01.e', min_instances=4)
def powell_keeps_linesearch_pair(ctx):
    """_linesearch_powell returns (brent's minimum value, p + alpha_min*xi, alpha_min*xi); _Step unpacks every line search as (fval, x, direction) and stores that pair"""
    f = ctx.func('mystic.scipy_optimize:_linesearch_powell')
    my, _brent = callable_passed_to(ctx, f, 'brent')
    p, xi = f.args()[1], f.args()[2]
    fn = f.args()[0]
    b = T.Builder()
    ret = None
    for st in f.node.body:
        if isinstance(st, ast.Return):
            ret = T.simp(b.t(st.value))
        else:
            b.exec_stmt(st)
    ctx.need(ret is not None and ret[0] == 'tuple' and len(ret) == 4, '_linesearch_powell: unexpected return')
    br = None
    for s in T.subterms(ret):
        if isinstance(s, tuple) and s and s[0] == 'call' and T.show(s[1]) == 'brent':
            br = s
    ctx.need(br is not None, '_linesearch_powell no longer calls brent')
    A, F = ('sub', br, T.num(0)), ('sub', br, T.num(1))
    want_pt = T.simp(T.padd(('name', p), T.pmul(A, ('name', xi))))
    want_dir = T.simp(T.pmul(A, ('name', xi)))
    ctx.stats['terms_compared'] += 3
    ctx.check(ret[1] == F and ret[2] == want_pt and ret[3] == want_dir and br[2] and (br[2][0] == ('name', my.name) or br[2][0][0] == 'lambda'),
              '_linesearch_powell#return', 'returns (fret, p + alpha_min*xi, alpha_min*xi) of one brent call on myfunc',
              '_linesearch_powell returns %s' % T.show(ret)[:200], f, f.node.body[-1])
    alpha = my.args()[0]
    mrt = return_terms(my.node)
    ctx.need(mrt, 'myfunc has no return')
    want = ('call', ('name', fn), (T.simp(T.padd(('name', p), T.pmul(('name', alpha), ('name', xi)))),), ())
    ctx.check(all(x[1] == want for x in mrt), '_linesearch_powell.myfunc', 'myfunc(alpha) = func(p + alpha*xi)',
              'myfunc evaluates %s' % T.show([x[1] for x in mrt if x[1] != want][0]) if any(x[1] != want for x in mrt) else '', my, my.node)
    # _Step: every line search is unpacked as (energy, point, direction) with the point variable fed back in, and the
    # step ends by storing exactly that (point, energy) pair as the best -- roles are taken from the data flow, not from names
    g = ctx.func('mystic.scipy_optimize:PowellDirectionalSolver._Step')
    sn = selfname_of(g)
    ls = [s for s in stmts_of(g.node) if isinstance(s, ast.Assign) and isinstance(s.value, ast.Call) and callee_text(s.value) == '_linesearch_powell']
    ctx.need(len(ls) >= 3, 'expected 3 line searches in Powell _Step, found %d' % len(ls))
    roles = set()
    for s in ls:
        tg = s.targets[0]
        names = [e.id if isinstance(e, ast.Name) else None for e in getattr(tg, 'elts', [])]
        a = s.value.args
        good = len(names) == 3 and None not in names[:2] and len(a) >= 3 and isinstance(a[0], ast.Name) and \
            isinstance(a[1], ast.Name) and a[1].id == names[1] and names[0] != names[1]
        if good:
            # the function searched along is the decorated objective of this step
            ds = _local_def(g, a[0].id)
            good = bool(ds) and all(isinstance(d.value, ast.Call) and self_call(d.value, '_bootstrap_objective', sn) for d in ds)
            roles.add((names[0], names[1]))
        ctx.check(good, 'PowellDirectionalSolver._Step#linesearch', 'energy, point, d = _linesearch_powell(objective, point, d, ...)',
                  'a line search result is unpacked as %s from %s' % (names, unparse(s.value)[:80]), g, s)
    ctx.need(len(roles) == 1, 'Powell _Step: the line searches do not share one (energy, point) pair of variables: %s' % sorted(roles))
    (ename, xname), = roles
    tail = [s for s in g.node.body if isinstance(s, ast.Assign)]
    want_pop = t(ast.parse('%s.population[0]' % sn, mode='eval').body)
    want_pe = t(ast.parse('%s.popEnergy[0]' % sn, mode='eval').body)
    pop = [s for s in tail if t(s.targets[0]) == want_pop]
    pe = [s for s in tail if t(s.targets[0]) == want_pe]
    good = pop and pe and isinstance(pop[-1].value, ast.Name) and pop[-1].value.id == xname and isinstance(pe[-1].value, ast.Name) and pe[-1].value.id == ename
    ctx.check(bool(good), 'PowellDirectionalSolver._Step#store', 'population[0] = point and popEnergy[0] = energy of the line searches at the end of every step',
              'the step does not end by storing the (point, energy) pair of its line searches as the best', g, (pop or pe or [g.node])[-1])


WRAPPERS = ['mystic.scipy_optimize:fmin', 'mystic.scipy_optimize:fmin_powell',
            'mystic.differential_evolution:diffev', 'mystic.ensemble:lattice',
            'mystic.ensemble:buckshot', 'mystic.ensemble:sparsity']


@rule('C01.f', min_instances=6)
def wrappers_report_solver_state(ctx):
    """fmin/fmin_powell/diffev(2)/lattice/buckshot/sparsity return solver.bestSolution and solver.bestEnergy of the solver they ran"""
    for anchor in WRAPPERS:
        f = ctx.func(anchor)
        # what is returned, with the locals substituted along every path of the slice that feeds the return value
        rts = return_terms(f.node, extra=lambda n: isinstance(n, ast.Call) and isinstance(n.func, ast.Attribute) and n.func.attr == 'Solve')
        ctx.need(rts, '%s: no return value found' % f.qualname)
        ctx.stats['paths_enumerated'] += len(rts)
        bad = None
        for p, term, b, conds in rts:
            # the solver the wrapper ran: the receiver of .Solve(...) on this path
            recv = None
            for e in p.events:
                if e[0] == 'stmt':
                    for c in calls_where(e[1], lambda c: isinstance(c.func, ast.Attribute) and c.func.attr == 'Solve', include_lambda=False):
                        recv = T.simp(b.t(c.func.value))
            if recv is None:
                bad = (p, 'no solver.Solve(...) call precedes the return')
                break
            elems = flatten_seq(term)
            first = elems[0] if elems else term
            if first != ('attr', recv, 'bestSolution'):
                bad = (p, 'returns %s where the best solution of the solver it ran belongs' % T.show(first)[:80])
                break
            if elems and len(elems) >= 5 and elems[1] != ('attr', recv, 'bestEnergy'):
                bad = (p, 'full output reports %s as the optimum value instead of the best energy of the solver it ran' % T.show(elems[1])[:80])
                break
        ctx.check(bad is None, f.qualname, 'on all %d return paths: solver.bestSolution first, solver.bestEnergy second in the full output, of the solver that ran Solve' % len(rts),
                  'the wrapper %s (%s)' % (bad[1] if bad else '', bad[0].describe(6) if bad else ''), f, bad[0].exit_node if bad else f.node)
    g = ctx.func('mystic.differential_evolution:diffev2')
    rts = return_terms(g.node)
    good = bool(rts)
    for p, term, b, conds in rts:
        if not (term[0] == 'call' and T.show(term[1]) == 'diffev'):
            good = False
    ctx.check(good, 'diffev2', 'diffev2 returns diffev(...) unchanged', 'diffev2 no longer returns the result of diffev unchanged', g, g.node)


@rule('C01.g', min_instances=2)
def best_never_displaced_structurally(ctx):
    """Nelder-Mead's update phase never writes vertex 0 / energy 0 (only [-1] and j in 1..N) before the sort"""
    f = ctx.func('mystic.scipy_optimize:NelderMeadSimplexSolver._Step')
    # the generations>1 branch: the final else of the if/elif chain on the log
    chain = [s for s in f.node.body if isinstance(s, ast.If) and 'len(self._stepmon)' in unparse(s.test) and s.orelse]
    ctx.need(chain, 'no generation dispatch in Nelder-Mead _Step')
    node = chain[0]
    while len(node.orelse) == 1 and isinstance(node.orelse[0], ast.If):
        node = node.orelse[0]
    update = node.orelse
    ctx.need(update, 'no update-phase branch')
    mod = ast.Module(body=update, type_ignores=[])
    loops = {}
    for n in ast.walk(mod):
        if isinstance(n, ast.For) and isinstance(n.target, ast.Name):
            loops[n.target.id] = n
    for arr in ('sim', 'fsim'):
        bad = None
        n_st = 0
        for st in ast.walk(mod):
            if isinstance(st, ast.Assign) and isinstance(st.targets[0], ast.Subscript) and isinstance(st.targets[0].value, ast.Name) \
                    and st.targets[0].value.id == arr:
                n_st += 1
                idx = st.targets[0].slice
                it = t(idx)
                if it == T.num(-1):
                    continue
                if it == T.num(0):
                    v = t(st.value)
                    if arr == 'sim' and v == ('call', ('name', 'constraints'), (('sub', ('name', 'sim'), T.num(0)),), ()):
                        continue
                    bad = st
                    continue
                if isinstance(idx, ast.Name) and idx.id in loops:
                    rng = t(loops[idx.id].iter)
                    # range(1, N+1) possibly through a local
                    if rng[0] == 'name':
                        ds = _local_def(f, rng[1])
                        rng = t(ds[0].value) if len(ds) == 1 else rng
                    if rng[0] == 'call' and T.show(rng[1]) == 'range' and len(rng[2]) == 2 and rng[2][0] == T.num(1):
                        continue
                bad = st
        ctx.need(n_st > 0, 'no %s stores in the update phase' % arr)
        ctx.check(bad is None, 'NelderMeadSimplexSolver._Step#update-%s' % arr, '%d stores, none to slot 0' % n_st,
                  'the update phase overwrites the best vertex/energy: %s' % (norm_stmt(bad) if bad is not None else ''), f, bad if bad is not None else update[0])


@rule('C01.h', min_instances=4)
def members_rewritten_with_their_energies(ctx):
    """a _decorate_objective that rewrites member vectors after generation 0 (clipping into new ranges, rebuilding the simplex) must refresh their stored energies; otherwise (point, energy) pairs go stale"""
    for key, anchor in D.DECORATORS.items():
        f = ctx.func(anchor)
        sn = selfname_of(f)
        stores = []
        for st in stmts_of(f.node):
            if isinstance(st, ast.Assign):
                for tg in store_targets(st):
                    b = tg
                    while isinstance(b, ast.Subscript):
                        b = b.value
                    if is_self_attr(b, 'population', sn) and b is not tg:
                        stores.append(st)
        construct = '%s._decorate_objective#members' % f.cls.name
        if not stores:
            ctx.ok(construct, 'does not rewrite members', f, f.node)
            continue
        late = []
        for st in stores:
            gs = guards_of(st, stop=f.node)
            gen0 = any((''.join(unparse(g[0]).split()) in ('%s.generations' % sn, 'ngen') and g[1] is False) or
                       (''.join(unparse(g[0]).split()) in ('not%s.generations' % sn, 'notngen') and g[1] is True) for g in gs)
            if not gen0:
                late.append(st)
        refreshed = any(isinstance(st, (ast.Assign, ast.AugAssign)) and any(
            is_self_attr(b_, 'popEnergy', sn) for tg in store_targets(st) for b_ in ast.walk(tg)) for st in stmts_of(f.node))
        if late and not refreshed:
            ctx.bad(construct, 'when the objective is re-decorated after generation 0 (ranges installed/changed mid-run) member vectors are rewritten '
                    '(%s) but their stored energies are kept: the stored energy is no longer the objective at that member' % norm_stmt(late[0])[:80],
                    f, late[0], statement='members rewritten without refreshing popEnergy')
        else:
            ctx.ok(construct, 'members rewritten only at generation 0 or together with their energies', f, stores[0])


@rule('C01.i', min_instances=8)
def penalty_and_reducer_changes_take_effect(ctx):
    """a method that replaces the penalty or the reducer captured by the decorated objective invalidates it on every path (otherwise the reported energy is not cost + the *active* penalty)"""
    from . import invalidate
    for key, anchor in CONCRETE_SOLVERS.items():
        cls = ctx.cls(anchor)
        # (the constraints too: the decorated cost nests them - wrap_nested - while _Step stores the vectors it constrained itself; if the two
        # disagree the stored best is a vector the cost was never called with)
        n, decoin = invalidate.check_class(ctx, key, cls, only_attrs={'_penalty', '_reducer', '_constraints'}, label_prefix=key + ':')
        ctx.need({'_penalty', '_reducer'} <= decoin, '%s: penalty/reducer not captured by the decorator?' % cls.name)


@rule('C01.j', min_instances=12)
def members_are_evaluated_after_bounds_and_constraints(ctx):
    """the point whose energy is stored is the image under BOTH the constraints and the strict bounds: all six coupling sites build and_(self._constraints, self._strictbounds, onfail=self._strictbounds) under strict ranges and self._constraints otherwise (shared with C03.d) - with the bare constraints under tight ranges the reported best solution is a vector the cost was never called with"""
    from .c03 import and_falls_back_to_bounds
    and_falls_back_to_bounds(ctx)


@rule('C01.k', min_instances=3)
def ensemble_reports_its_best_members_pair(ctx):
    """ensemble solvers report the (point, energy) pair of one member: __update_state hands bestSolution and bestEnergy (with population, popEnergy, the counter) back from the same best member on every path on which the scan found one - the arrays are shared with the member but the energy is a scalar copy, so a skipped hand-back leaves cost(bestSolution) != bestEnergy (shared with C09.a)"""
    from .c09 import reduction
    reduction(ctx)


@rule('C01.l', min_instances=7)
def constrained_vectors_stay_float(ctx):
    """Nelder-Mead / Powell: every constrained image that becomes a simplex vertex / the current point is stored as float64 (asarray(constraints(v), dtype='float64')) at ALL sites - a constraint that returns integers (mystic.constraints.integers) would otherwise turn the whole simplex into an integer array, later vertices are truncated when stored while their energies belong to the untruncated points"""
    n = 0
    for anchor in ('mystic.scipy_optimize:NelderMeadSimplexSolver._Step', 'mystic.scipy_optimize:PowellDirectionalSolver._Step'):
        f = ctx.func(anchor)
        cons = set()
        for s in stmts_of(f.node):
            if isinstance(s, ast.Assign) and len(s.targets) == 1 and isinstance(s.targets[0], ast.Name) and \
                    any(isinstance(x, ast.Attribute) and x.attr == '_constraints' for x in ast.walk(s.value)):
                cons.add(s.targets[0].id)
        ctx.need(cons, '%s: no local holds the constraints' % f.qualname)
        for st in stmts_of(f.node):
            if not isinstance(st, ast.Assign):
                continue
            calls = [c for c in ast.walk(st.value) if isinstance(c, ast.Call) and isinstance(c.func, ast.Name) and c.func.id in cons]
            if not calls:
                continue
            n += 1
            v = st.value
            ok_ = isinstance(v, ast.Call) and callee_text(v) in ('asarray', 'numpy.asarray', 'array', 'numpy.array') and v.args and v.args[0] is calls[0] and \
                any(k.arg == 'dtype' and const_value(k.value) in ('float64', 'float') or (k.arg == 'dtype' and unparse(k.value) in ('float', 'float64', 'numpy.float64')) for k in v.keywords)
            ctx.check(ok_, '%s#float[%d]' % (f.qualname, n), 'constrained image stored as float64', '%s stores a constrained vector without the float64 cast its sibling sites apply: %s' % (f.qualname, norm_stmt(st)[:80]), f, st)
    ctx.need(n >= 7, 'expected >= 7 constrained-image stores in NM / Powell, found %d' % n)


@rule('C01.m', min_instances=1)
def objective_is_replaced_unless_cost_and_arguments_are_both_unchanged(ctx):
    """SetObjective keeps the stored objective only when the cost is unchanged (None / the raw cost / the decorated cost) AND the extra arguments are unchanged (None / the stored ones): truth-table equivalence of the early return's path condition with that conjunction - with the conjunction mis-parenthesised, re-registering the same cost with new ExtraArgs silently keeps the old arguments and the reported energy is not cost(x, *args)"""
    from .. import pathcond as PC
    f = ctx.func('mystic.abstract_solver:AbstractSolver.SetObjective')
    stores = [s for s in stmts_of(f.node) if isinstance(s, ast.Assign) and any(is_self_attr(tg, '_cost', selfname_of(f)) for tg in s.targets)]
    ctx.need(stores, 'SetObjective no longer stores self._cost')
    last = stores[-1].lineno

    def classify(ret, b):
        return 'keep' if ret.lineno < last else 'set'
    forms, n = PC.outcome_formulas(f.node, classify, relevant=lambda nd: isinstance(nd, (ast.Return, ast.Assign)))
    ctx.stats['paths_enumerated'] += n
    ctx.need('keep' in forms, 'SetObjective has no early return any more')
    cp, ap = f.args()[1], f.args()[2]
    prelude = [norm_stmt(s) for s in f.node.body if isinstance(s, ast.Assign) and s.lineno < last and isinstance(s.targets[0], (ast.Tuple, ast.Name))
               and 'self._cost' in unparse(s.value)][:1]
    ctx.need(prelude, 'SetObjective no longer unpacks self._cost')
    names = [e.id for e in ast.parse(prelude[0]).body[0].targets[0].elts]
    want = PC.spec_formula('(%s is None or %s is %s or %s is %s) and (%s is None or %s is %s)' % (cp, cp, names[1], cp, names[0], ap, ap, names[2]), prelude)
    eq, cex, rows = PC.equivalent(forms['keep'], want)
    ctx.stats['truth_table_rows'] += rows
    ctx.check(eq, 'SetObjective#keep', 'early return iff cost unchanged and ExtraArgs unchanged (%d truth-table rows)' % rows,
              'SetObjective keeps the stored objective although cost or ExtraArgs changed: e.g. with %s true and all other tests false'
              % ([T.show(a)[:40] for a, v in (cex or {}).items() if v]), f, f.node)


@rule('C01.n', min_instances=6)
def the_simplex_is_rebuilt_only_inside_ranges_that_are_in_force(ctx):
    """member energies match members: Nelder-Mead's _setSimplexWithinRangeBoundary clips vertex 0 into the strict ranges only while strict ranges are in force (SetStrictRanges(False) keeps the old numbers but switches them off) - clipped against ranges that are off, the evaluated vertex 0 is replaced by its clipped image and keeps the old energy (reference summaries shared with C02.e)"""
    from .c02 import members_clipped_on_decoration
    members_clipped_on_decoration(ctx)


@rule('C01.o', min_instances=1)
def ensemble_members_keep_their_starting_points(ctx):
    """an ensemble member's stored energies belong to its stored vectors: the ensemble draws starting points only while it has no members (shared with C09.k)"""
    from .c09 import starting_points_are_drawn_once
    starting_points_are_drawn_once(ctx)


@rule('C01.p', min_instances=3)
def member_vectors_can_hold_the_evaluated_point(ctx):
    """member energies match members: the rows of the population are float vectors from the start (shared with C08.k) - an integer row truncates the accepted trial, so the stored member was never passed to the cost"""
    from .c08 import members_are_float_vectors
    members_are_float_vectors(ctx)
