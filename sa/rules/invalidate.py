"""Staleness analysis (C02.c / C03.c / C04.g): whoever changes an input of the decorated
objective must invalidate it.

For a solver class K:  DecoIn(K) = the ``self`` attributes read inside K's resolved
``_decorate_objective`` (they are captured by the wrapped cost) that are *settings*
(written by some Set* method).  Every method of K's MRO that stores to a member
of DecoIn(K) must, on every normally-exiting path, afterwards reach
``self._live = False`` - directly, or through ``_update_objective`` / ``Finalize``
(each override of which is itself verified to clear ``_live`` on every path).
"""
import ast

from ..srcmodel import AnalysisError, walk_no_nested, unparse
from ..paths import enumerate_paths
from ..callgraph import attr_writes
from .common import selfname_of, self_call, is_self_attr, calls_where

SOLVER_BASE = 'mystic.abstract_solver:AbstractSolver'

EXEMPT = {
    '__init__': 'creates the settings before any objective exists',
    '_decorate_objective': 'builds the objective from the settings',
    '__update_state': 'ensemble hand-back from the best member; the ensemble rebuilds its objective at each _Solve',
    '__load_state': 'whole-dict restore',
    '__deepcopy__': 'copy protocol', '__copy__': 'copy protocol',
}


def reads_of(fnode, sn):
    out = set()
    for n in walk_no_nested(fnode):
        if isinstance(n, ast.Attribute) and isinstance(n.ctx, ast.Load) and isinstance(n.value, ast.Name) and n.value.id == sn:
            out.add(n.attr)
    return out


def settings_written_by_setters(model, base):
    out = set()
    for k in model.subclasses(base):
        for name, m in k.methods.items():
            if name.startswith('Set'):
                for a, kind, node in attr_writes(m.node, selfname_of(m)):
                    if kind == 'bind':
                        out.add(a)
    return out


def clears_live_everywhere(ctx, finfo, _seen=None):
    """True iff every normally-exiting path of finfo sets self._live = False (possibly via Finalize/_update_objective)"""
    _seen = _seen or set()
    if finfo.anchor in _seen:
        return False
    _seen.add(finfo.anchor)
    sn = selfname_of(finfo)
    cls = ctx.model.enclosing_class(finfo)

    def rel(n):
        if isinstance(n, ast.Attribute) and n.attr == '_live':
            return True
        return isinstance(n, ast.Call) and (self_call(n, '_update_objective', sn) or self_call(n, 'Finalize', sn))
    for p in enumerate_paths(finfo.node, relevant=rel, unroll=(0, 1)):
        if p.exit == 'raise':
            continue
        cleared = False
        for e in p.events:
            if e[0] != 'stmt':
                continue
            if _stmt_clears(ctx, e[1], sn, cls, _seen):
                cleared = True
            elif _stmt_sets_live_true(e[1], sn):
                cleared = False
        if not cleared:
            return False
    return True


def _stmt_sets_live_true(st, sn):
    return isinstance(st, ast.Assign) and any(is_self_attr(t, '_live', sn) for t in st.targets) and \
        not (isinstance(st.value, ast.Constant) and st.value.value is False)


def _stmt_clears(ctx, st, sn, cls, _seen):
    if isinstance(st, ast.Assign) and any(is_self_attr(t, '_live', sn) for t in st.targets) and \
            isinstance(st.value, ast.Constant) and st.value.value is False:
        return True
    for c in calls_where(st, lambda c: self_call(c, '_update_objective', sn) or self_call(c, 'Finalize', sn), include_lambda=False):
        name = c.func.attr
        targets = []
        for k in ctx.model.subclasses(cls):
            m = ctx.model.lookup_method(k, name)
            if m is not None and m not in targets:
                targets.append(m)
        if targets and all(clears_live_everywhere(ctx, m, set(_seen)) for m in targets):
            return True
    return False


def check_class(ctx, key, cls, only_attrs=None, label_prefix=''):
    """run the staleness rule for one concrete solver class; returns number of writer instances"""
    model = ctx.model
    base = ctx.cls(SOLVER_BASE)
    deco = model.lookup_method(cls, '_decorate_objective')
    if deco is None:
        raise AnalysisError('no _decorate_objective for %s' % cls.name)
    ctx.touch(deco)
    settings = settings_written_by_setters(model, base)
    decoin = reads_of(deco.node, selfname_of(deco)) & settings
    if only_attrs is not None:
        decoin &= set(only_attrs)
    n = 0
    seen = set()
    for k in model.mro(cls):
        for name, m in sorted(k.methods.items()):
            if model.lookup_method(cls, name, from_cls=k) is not m and not name.startswith('__'):
                continue   # overridden for this class
            if name in EXEMPT or id(m) in seen:
                continue
            seen.add(id(m))
            sn = selfname_of(m)
            ws = [(a, kind, node) for a, kind, node in attr_writes(m.node, sn) if a in decoin and kind in ('bind', 'aug', 'del')]
            if not ws:
                continue
            ctx.touch(m)
            attrs = sorted(set(a for a, _, _ in ws))

            def rel(nn, attrs=attrs, sn=sn):
                if isinstance(nn, ast.Attribute) and (nn.attr == '_live' or (nn.attr in attrs and isinstance(nn.ctx, ast.Store))):
                    return True
                return isinstance(nn, ast.Call) and (self_call(nn, '_update_objective', sn) or self_call(nn, 'Finalize', sn))
            paths = [p for p in enumerate_paths(m.node, relevant=rel, unroll=(0, 1)) if p.exit != 'raise']
            ctx.stats['paths_enumerated'] += len(paths)
            bad = None
            for p in paths:
                pending = None
                for e in p.events:
                    if e[0] != 'stmt':
                        continue
                    st = e[1]
                    if _stmt_clears(ctx, st, sn, k, set()):
                        pending = None
                    if isinstance(st, (ast.Assign, ast.AugAssign, ast.Delete)):
                        for a, kind, node in attr_writes(ast.Module(body=[st], type_ignores=[]), sn):
                            if a in attrs and kind in ('bind', 'aug', 'del'):
                                pending = (a, st)
                if pending is not None:
                    bad = (pending, p)
                    break
            n += 1
            construct = '%s%s.%s[%s]' % (label_prefix, k.name, name, ','.join(attrs))
            if bad:
                (a, st), p = bad
                ctx.bad(construct, 'for %s: %s.%s changes %s, which the decorated objective has captured, without invalidating it '
                        '(no self._live = False / _update_objective() afterwards on path %s)' % (cls.name, k.name, name, a, p.describe(5)),
                        m, st)
            else:
                ctx.ok(construct, 'for %s: every path that writes %s ends with the objective invalidated' % (cls.name, attrs), m, m.node)
    return n, decoin
