"""C08 - the optimizers implement their published algorithms.

Decided: the Nelder-Mead update block of NelderMeadSimplexSolver._Step agrees,
as a behavioural summary (path conditions, evaluations made, vertex/energy
stores, canonical coefficient terms), with the loop body of the bundled
reference fmin it is adapted from; default and adaptive coefficients; the
initial-simplex constants; Powell's direction loop and extrapolation block agree
with the bundled reference fmin_powell modulo the declared delta (inf guard,
constraint application, maxiter of the line search); _linesearch_powell equals
the reference copy; the default stop rules equal the reference's inline tests;
every DE strategy forms its mutated component as its scheme defines, from
distinct members drawn without replacement, with one of the two canonical
crossover loops; replacement only by strictly lower energy (C01.c).
Round 3: Powell's three line searches receive the same (xtol*100, imax)
settings.
Round 4: the wrappers build their stop rule from the caller's tolerances in the
reference's roles; a DE member is replaced only behind a TRUE `trial <
incumbent` test (NaN-safe).
NOT decided: numerical agreement with scipy (rounding, counts), brent.
"""
import ast
import copy

from ..core import rule
from ..srcmodel import AnalysisError, walk_no_nested, unparse, norm_stmt
from .. import terms as T
from .. import siblings as SB
from .common import *

REF = 'mystic._scipy060optimize'
SO = 'mystic.scipy_optimize'


def _loop_of(f, kind=ast.While):
    ls = [n for n in f.node.body if isinstance(n, kind)]
    if not ls:
        raise AnalysisError('no %s loop in %s' % (kind.__name__, f.qualname))
    return ls[0]


def _slice_from(stmts, pred_start, pred_stop=None):
    out, on = [], False
    for st in stmts:
        if not on and pred_start(st):
            on = True
        if on and pred_stop is not None and pred_stop(st):
            break
        if on:
            out.append(st)
    return out


def _assigns_name(st, name):
    if not (isinstance(st, ast.Assign) and len(st.targets) == 1):
        return False
    tg = st.targets[0]
    if isinstance(tg, ast.Name):
        return tg.id == name
    return isinstance(tg, (ast.Tuple, ast.List)) and any(isinstance(e, ast.Name) and e.id == name for e in tg.elts)


def _nm_update_branch(f):
    chain = [s for s in f.node.body if isinstance(s, ast.If) and 'len(self._stepmon)' in unparse(s.test) and s.orelse]
    if not chain:
        raise AnalysisError('no generation dispatch in Nelder-Mead _Step')
    node = chain[0]
    while len(node.orelse) == 1 and isinstance(node.orelse[0], ast.If):
        node = node.orelse[0]
    return node.orelse


@rule('C08.a', min_instances=3)
def nelder_mead_agrees_with_reference(ctx):
    """the reflection/expansion/contraction/shrink block equals the reference fmin loop body (same tests with the same strictness, same evaluations, same stores, same coefficient terms); default coefficients (1,2,1/2,1/2), adaptive ones per Gao-Han"""
    f = ctx.func(SO + ':NelderMeadSimplexSolver._Step')
    r = ctx.func(REF + ':fmin')
    mine = _slice_from(_nm_update_branch(f), lambda s: _assigns_name(s, 'xbar'))
    ref = _slice_from(_loop_of(r).body, lambda s: _assigns_name(s, 'xbar'), lambda s: _assigns_name(s, 'ind'))
    ctx.need(mine and ref, 'Nelder-Mead update blocks not found')
    # index ranges bound before the block (one2np1 = range(1, N+1)) are substituted on whichever side names them
    def ranges(stmts, stop):
        env = {}
        for st in stmts:
            if st is stop:
                break
            if isinstance(st, ast.Assign) and len(st.targets) == 1 and isinstance(st.targets[0], ast.Name) and isinstance(st.value, ast.Call) and \
                    callee_text(st.value) == 'range':
                env[st.targets[0].id] = T.term(st.value)
        return env
    a = SB.summary(SB.block(mine), track_calls=('cost',), env=ranges(_nm_update_branch(f), mine[0]))
    b = SB.summary(SB.block(ref), name_map={'func': 'cost'}, track_calls=('cost',), env=ranges(r.node.body, _loop_of(r)))
    ctx.stats['terms_compared'] += len(a)
    ctx.check(a == b, 'NelderMeadSimplexSolver._Step#update', '%d path summaries equal the reference fmin loop body' % len(a),
              'the Nelder-Mead update differs from the reference scipy fmin it is adapted from: %s' % SB.diff(a, b), f, mine[0])
    # what precedes the update block in the branch is only the declared delta
    pre = [s for s in _nm_update_branch(f) if s.lineno < mine[0].lineno]
    okpre = True
    for s_ in pre:
        txt = ''.join(unparse(s_).split())
        if txt in ('sim=self.population', 'fsim=self.popEnergy', 'N=len(sim[0])') or txt.startswith('sim[0]=asarray(constraints(sim[0])'):
            continue
        if isinstance(s_, ast.Assign) and len(s_.targets) == 1 and isinstance(s_.targets[0], ast.Name) and isinstance(s_.value, ast.Call) and callee_text(s_.value) == 'range':
            continue      # an index range
        okpre = False
    ctx.check(okpre, 'NelderMeadSimplexSolver._Step#prologue', 'prologue = bind sim/fsim, N, one2np1, re-project best vertex',
              'unexpected statement before the update block: %s' % [norm_stmt(s_) for s_ in pre][:3], f, pre[0] if pre else mine[0])
    # coefficients
    coef = [s for s in f.node.body if isinstance(s, ast.If) and isinstance(s.test, ast.Name) and s.test.id == 'adaptive']
    ctx.need(coef, 'coefficient selection not found')
    env = {}
    b_ = T.Builder()
    for st in coef[0].orelse:
        b_.exec_stmt(st)
    got = {k: b_.env.get(k) for k in ('rho', 'chi', 'psi', 'sigma')}
    want = {'rho': T.num(1), 'chi': T.num(2), 'psi': T.num('1/2'), 'sigma': T.num('1/2')}
    rb = T.Builder()
    for st in r.node.body:
        if isinstance(st, ast.Assign) and isinstance(st.targets[0], ast.Name) and st.targets[0].id in want:
            rb.exec_stmt(st)
    refc = {k: rb.env.get(k) for k in want}
    ctx.check(got == want and refc == want, 'NelderMeadSimplexSolver._Step#coefficients', '(rho,chi,psi,sigma) = (1,2,1/2,1/2) as in the reference',
              'default coefficients are %s (reference %s)' % ({k: T.show(v) if v else None for k, v in got.items()}, {k: T.show(v) if v else None for k, v in refc.items()}), f, coef[0])
    ab = T.Builder()
    for st in coef[0].body:
        ab.exec_stmt(st)
    dim = ab.env.get('dim')
    ctx.need(dim is not None, 'adaptive: dim not defined')
    D_ = ('name', 'D')
    ab2 = T.Builder(env={'dim': D_})
    for st in coef[0].body:
        if not _assigns_name(st, 'dim'):
            ab2.exec_stmt(st)
    wantA = {'rho': T.num(1), 'chi': T.term(ast.parse('1+2/D', mode='eval').body), 'psi': T.term(ast.parse('0.75-1/(2*D)', mode='eval').body),
             'sigma': T.term(ast.parse('1-1/D', mode='eval').body)}
    gotA = {k: T.simp(ab2.env.get(k)) if ab2.env.get(k) is not None else None for k in wantA}
    ctx.check(gotA == {k: T.simp(v) for k, v in wantA.items()} and 'len(self.population[0])' in ''.join(T.show(dim).split()).replace(' ', ''),
              'NelderMeadSimplexSolver._Step#adaptive', 'adaptive (1, 1+2/n, 3/4-1/(2n), 1-1/n), n = dimension (Gao-Han)',
              'adaptive coefficients are %s' % {k: T.show(v) if v else None for k, v in gotA.items()}, f, coef[0])


@rule('C08.b', min_instances=2)
def initial_simplex(ctx):
    """unbounded initial simplex: vertex k differs from x0 in coordinate k by the factor (1+radius), zeros replaced by a constant; radius 0.05 and the zero step 0.00025 match the reference's nonzdelt/zdelt; each vertex is evaluated once"""
    h = ctx.func(SO + ':NelderMeadSimplexSolver._setSimplexWithinRangeBoundary')
    b = T.Builder()
    val = zero = None
    for st in h.node.body:
        if _assigns_name(st, 'val'):
            val = T.simp(b.t(st.value))
        if isinstance(st, ast.Assign) and ''.join(unparse(st.targets[0]).split()) == 'val[val==0]' and zero is None:
            zero = T.simp(b.t(st.value))
    want = T.term(ast.parse('x0*(1+radius)', mode='eval').body)
    r = ctx.func(REF + ':fmin')
    rb = T.Builder()
    for st in r.node.body:
        if isinstance(st, ast.Assign) and isinstance(st.targets[0], ast.Name) and st.targets[0].id in ('nonzdelt', 'zdelt'):
            rb.exec_stmt(st)
    nz, zd = T.poly_const(rb.env.get('nonzdelt', T.ZERO)), T.poly_const(rb.env.get('zdelt', T.ZERO))
    dflt = [s for s in h.node.body if isinstance(s, ast.If) and ''.join(unparse(s.test).split()) == 'radiusisNone']
    rad = T.poly_const(T.term(dflt[0].body[0].value)) if dflt and isinstance(dflt[0].body[0], ast.Assign) else None
    zval = T.poly_const(T.substitute(zero, ('name', 'radius'), T.num(rad))) if zero is not None and rad is not None else None
    ctx.check(val == want and rad == nz and zval == zd, '_setSimplexWithinRangeBoundary#unbounded',
              'val = x0*(1+radius); radius default %s = nonzdelt; zero step %s = zdelt' % (rad, zval),
              'initial simplex step is %s, radius default %s (reference %s), zero step %s (reference %s)' % (T.show(val) if val else None, rad, nz, zval, zd), h, h.node)
    f = ctx.func(SO + ':NelderMeadSimplexSolver._Step')
    loops = [n for n in walk_no_nested(f.node) if isinstance(n, ast.For) and T.term(n.iter) == ('call', ('name', 'range'), (('name', 'N'),), ())]
    ctx.need(loops, 'simplex population loop not found')
    a = SB.summary(SB.block(loops[0].body), track_calls=('cost',))
    refsrc = 'def blk():\n    y = numpy.array(x0, copy=True)\n    y[k] = val[k]\n    sim[k+1] = y\n    fsim[k+1] = cost(y)\n'
    bsum = SB.summary_of_source(refsrc, track_calls=('cost',))
    ctx.check(a == bsum, 'NelderMeadSimplexSolver._Step#populate', 'vertex k+1 = x0 with coordinate k replaced, evaluated once, stored with its energy',
              'simplex population differs: %s' % SB.diff(a, bsum), f, loops[0])


class _PowellDelta(ast.NodeTransformer):
    """removes the declared differences between PowellDirectionalSolver._Step and the reference fmin_powell"""

    guard_names = ()      # locals holding the inf/inf guard  isinf(a) & isinf(b)  (whatever they are called)

    def visit_Assign(self, node):
        txt = ''.join(unparse(node).split())
        if txt.startswith('x=asarray(constraints(x)'):
            return None            # constraint application (delta)
        if len(node.targets) == 1 and isinstance(node.targets[0], ast.Name) and node.targets[0].id in self.guard_names:
            return None            # inf/inf guard (delta)
        return self.generic_visit(node)

    def visit_For(self, node):
        # the loop over the direction set: `for i in ilist` / `for i in range(len(x))` / `for i in range(N)` - one token
        self.generic_visit(node)
        it = node.iter
        if (isinstance(it, ast.Name) and it.id == 'ilist') or (isinstance(it, ast.Call) and isinstance(it.func, ast.Name) and it.func.id in ('range', 'list')):
            if isinstance(node.target, ast.Name) and any(isinstance(n, ast.Subscript) and isinstance(n.value, ast.Name) and n.value.id == 'direc' and
                                                         isinstance(n.slice, ast.Name) and n.slice.id == node.target.id for n in ast.walk(node)):
                node.iter = ast.copy_location(ast.Name(id='DIRECTIONS', ctx=ast.Load()), it)
        return node

    def visit_BoolOp(self, node):
        self.generic_visit(node)
        if isinstance(node.op, ast.And):
            vals = [v for v in node.values if not (isinstance(v, ast.UnaryOp) and isinstance(v.op, ast.Not) and isinstance(v.operand, ast.Name)
                                                   and v.operand.id in self.guard_names)]
            if len(vals) == 1:
                return vals[0]
            node.values = vals
        return node

    def visit_Call(self, node):
        self.generic_visit(node)
        if isinstance(node.func, ast.Name) and node.func.id == '_linesearch_powell':
            node.keywords = [k for k in node.keywords if k.arg != 'maxiter']
        return node

    def visit_Attribute(self, node):
        if ''.join(unparse(node).split()) == 'self._direc':
            return ast.copy_location(ast.Name(id='direc', ctx=node.ctx), node)
        return self.generic_visit(node)

    def visit_With(self, node):
        self.generic_visit(node)
        return node.body          # the warnings filter is transparent

    def visit_Import(self, node):
        return None

    def visit_Expr(self, node):
        if isinstance(node.value, ast.Call) and unparse(node.value.func).startswith('warnings.'):
            return None
        return self.generic_visit(node)


def _guard_names(stmts):
    out = set()
    for st in stmts:
        for n in ast.walk(st):
            if isinstance(n, ast.Assign) and len(n.targets) == 1 and isinstance(n.targets[0], ast.Name) and isinstance(n.value, ast.BinOp) and \
                    isinstance(n.value.op, ast.BitAnd) and all(isinstance(x, ast.Call) and callee_text(x).endswith('isinf') for x in (n.value.left, n.value.right)):
                out.add(n.targets[0].id)
    return out


def _norm_powell(stmts):
    out = []
    tr = _PowellDelta()
    tr.guard_names = tuple(_guard_names(stmts))
    for st in stmts:
        r = tr.visit(copy.deepcopy(st))
        if r is None:
            continue
        out.extend(r if isinstance(r, list) else [r])
    for s_ in out:
        ast.fix_missing_locations(s_)
    return out


@rule('C08.c', min_instances=4)
def powell_agrees_with_reference(ctx):
    """direction loop (both occurrences) and extrapolation block equal the reference fmin_powell modulo the declared delta; _linesearch_powell equals the reference copy"""
    f = ctx.func(SO + ':PowellDirectionalSolver._Step')
    r = ctx.func(REF + ':fmin_powell')
    wl = _loop_of(r)
    ref_dir = _slice_from(wl.body, lambda s: _assigns_name(s, 'fx'), lambda s: isinstance(s, ast.AugAssign))
    ref_ext = _slice_from(wl.body, lambda s: _assigns_name(s, 'direc1'))
    ctx.need(ref_dir and ref_ext, 'reference fmin_powell fragments not found')
    bd = SB.summary(SB.block(_norm_powell(ref_dir)), name_map={'func': 'cost'}, track_calls=('cost', '_linesearch_powell'))
    be = SB.summary(SB.block(_norm_powell(ref_ext)), name_map={'func': 'cost'}, track_calls=('cost', '_linesearch_powell'))
    # locate the branches of the solver
    chain = [s for s in f.node.body if isinstance(s, ast.If) and 'len(self._stepmon)' in unparse(s.test) and s.orelse]
    ctx.need(chain, 'generation dispatch not found in Powell _Step')
    gen1 = chain[0].orelse[0]
    ctx.need(isinstance(gen1, ast.If), 'Powell: generation-1 branch not found')
    later = gen1.orelse
    mine_dir1 = _slice_from(gen1.body, lambda s: _assigns_name(s, 'fx'), lambda s: 'energy_history' in unparse(s))
    mine_ext = _slice_from(later, lambda s: _assigns_name(s, 'direc1'), lambda s: ''.join(unparse(s).split()).startswith('self._direc='))
    mine_dir2 = _slice_from(later, lambda s: _assigns_name(s, 'fx'), lambda s: 'energy_history' in unparse(s))
    for label, mine, want in (('direction-loop@generation1', mine_dir1, bd), ('direction-loop', mine_dir2, bd), ('extrapolation', mine_ext, be)):
        ctx.need(mine, 'Powell fragment %s not found' % label)
        # drop bookkeeping that is not part of the algorithm (ilist definition)
        mine = [s for s in mine if not _assigns_name(s, 'ilist')]
        a = SB.summary(SB.block(_norm_powell(mine)), track_calls=('cost', '_linesearch_powell'))
        ctx.stats['terms_compared'] += len(a)
        ctx.check(a == want, 'PowellDirectionalSolver._Step#' + label, '%d path summaries equal the reference fmin_powell (modulo inf guard, constraints, maxiter)' % len(a),
                  'Powell\'s %s differs from the reference direction-set method: %s' % (label, SB.diff(a, want)), f, mine[0])
    # the declared delta itself: inf guard conjunct is exactly `not isnan`, isnan = isinf(fx2) & isinf(fval)
    gn = _guard_names([f.node])
    isn = [s for s in stmts_of(f.node) if isinstance(s, ast.Assign) and len(s.targets) == 1 and isinstance(s.targets[0], ast.Name) and s.targets[0].id in gn]
    want_g = T.term(ast.parse('numpy.isinf(fx2)&numpy.isinf(fval)', mode='eval').body)
    good = len(isn) == 2 and all(T.term(s.value) == want_g for s in isn)
    ctx.check(good, 'PowellDirectionalSolver._Step#inf-guard', 'inf guard = isinf(fx2) & isinf(fval)', 'the inf/inf guard changed: %s' % [unparse(s.value) for s in isn], f, isn[0] if isn else f.node)
    ls = ctx.func(SO + ':_linesearch_powell')
    lr = ctx.func(REF + ':_linesearch_powell')

    def strip(fn):
        body = [s for s in fn.node.body if not ('seterr' in unparse(s))]
        return SB.block(body)
    a, b = SB.summary(strip(ls)), SB.summary(strip(lr))
    mya, myb = callable_passed_to(ctx, ctx.func(SO + ':_linesearch_powell'), 'brent')[0], callable_passed_to(ctx, ctx.func(REF + ':_linesearch_powell'), 'brent')[0]
    ctx.check(a == b and SB.summary(mya.node) == SB.summary(myb.node), '_linesearch_powell', 'equals the reference copy (modulo the seterr bracket)',
              '_linesearch_powell differs from the reference: %s' % SB.diff(a, b), ls, ls.node)


@rule('C08.d', min_instances=2)
def default_stop_rules_equal_reference(ctx):
    """CandidateRelativeTolerance is the reference fmin's break test; NormalizedChangeOverGeneration is the reference fmin_powell's break test (including the 1e-20)"""
    r = ctx.func(REF + ':fmin')
    brk = [s for s in _loop_of(r).body if isinstance(s, ast.If) and any(isinstance(x, ast.Break) for x in s.body)]
    ctx.need(brk, 'reference fmin break test not found')
    want = T.term(brk[0].test)
    c = ctx.func('mystic.termination:CandidateRelativeTolerance._CandidateRelativeTolerance')
    b = T.Builder()
    for st in c.node.body:
        if isinstance(st, ast.Assign) and isinstance(st.targets[0], ast.Name) and st.targets[0].id == 'answer':
            b.exec_stmt(st)
    got = T.simp(b.env.get('answer')) if b.env.get('answer') is not None else None
    ctx.stats['terms_compared'] += 1
    ctx.check(got == want, 'CandidateRelativeTolerance', 'answer == reference test %s' % T.show(want)[:80],
              'CandidateRelativeTolerance computes %s, the reference fmin stops on %s' % (T.show(got) if got else None, T.show(want)), c, c.node)
    rp = ctx.func(REF + ':fmin_powell')
    brk = [s for s in _loop_of(rp).body if isinstance(s, ast.If) and any(isinstance(x, ast.Break) for x in s.body) and 'ftol' in unparse(s.test)]
    ctx.need(brk, 'reference fmin_powell break test not found')
    want = T.term(brk[0].test)
    n = ctx.func('mystic.termination:NormalizedChangeOverGeneration._NormalizedChangeOverGeneration')
    fac = ctx.func('mystic.termination:NormalizedChangeOverGeneration')
    eta = [s for s in fac.node.body if _assigns_name(s, 'eta')]
    b = T.Builder(env={'eta': T.term(eta[0].value)} if eta else {})
    # the tolerance test: the (last) top-level `if` whose test, with the locals substituted, mentions the tolerance and eta
    test = None
    for st in n.node.body:
        if isinstance(st, ast.Assign) and all(isinstance(tg, (ast.Name, ast.Tuple)) for tg in st.targets) and not (
                isinstance(st.targets[0], ast.Name) and st.targets[0].id == 'info'):
            b.exec_stmt(st)
        if isinstance(st, ast.If):
            tt_ = T.simp(b.t(st.test))
            if 'tolerance' in T.show(tt_) and any(isinstance(x, tuple) and x and x[0] == 'cmp' and x[1] in ('<', '<=') for x in T.subterms(tt_)):
                test = tt_
    ctx.need(test is not None, 'NCOG: tolerance test not found')
    # roles by data flow: the history is the local read from inst.energy_history, the look-back is the name it is indexed by
    hist_names = [k for k, v in b.env.items() if v == ('attr', ('name', n.args()[0]), 'energy_history')]
    ctx.need(hist_names, 'NCOG: no local holds inst.energy_history')
    hname = hist_names[0]
    gname = None
    for x in walk_no_nested(n.node):
        if isinstance(x, ast.Subscript) and isinstance(x.value, ast.Name) and x.value.id == hname and isinstance(x.slice, ast.UnaryOp) and \
                isinstance(x.slice.op, ast.USub) and isinstance(x.slice.operand, ast.Name):
            gname = x.slice.operand.id
    ctx.need(gname is not None, 'NCOG: look-back index not found')
    hg = T.simp(b.t(ast.parse('%s[-%s]' % (hname, gname), mode='eval').body))
    h1 = T.simp(b.t(ast.parse('%s[-1]' % hname, mode='eval').body))
    mapped = T.substitute(T.substitute(T.substitute(want, ('name', 'fx'), hg), ('name', 'fval'), h1), ('name', 'ftol'), ('name', 'tolerance'))
    ctx.stats['terms_compared'] += 1
    ctx.check(T.simp(mapped) == test, 'NormalizedChangeOverGeneration', 'tolerance test == reference 2(fx-fval) <= ftol(|fx|+|fval|)+1e-20',
              'NormalizedChangeOverGeneration tests %s, the reference fmin_powell stops on %s' % (T.show(test), T.show(mapped)), n, n.node)


# scheme -> (base, plus members, minus members)      [DESIGN.md appendix A.3]
SCHEMES = {
    'Best1': ('best', 1, 1), 'Rand1': ('r1', 1, 1), 'RandToBest1': ('rtb', 1, 1), 'Best2': ('best', 2, 2), 'Rand2': ('r1', 2, 2),
}


def _scheme_term(scheme, idx, rs):
    P = lambda r: 'inst.population[%s][%s]' % (r, idx)
    base, npl, nmi = SCHEMES[scheme]
    rr = list(rs)
    if base == 'best':
        b = 'inst.bestSolution[%s]' % idx
    elif base == 'r1':
        b = P(rr.pop(0))
    else:
        b = 'trialSolution[{i}] + inst.scale*(inst.bestSolution[{i}] - trialSolution[{i}])'.format(i=idx)
    plus, minus = rr[:npl], rr[npl:npl + nmi]
    src = '%s + inst.scale*(%s - %s)' % (b, ' + '.join(P(r) for r in plus), ' - '.join(P(r) for r in minus))
    return T.term(ast.parse(src, mode='eval').body), len(rs)


@rule('C08.e', min_instances=11)
def de_trial_vectors(ctx):
    """every store into the trial vector is the parent copy or base + F*(sum of +/- distinct members) per the strategy's scheme; the members come from get_random_candidates(nPop, candidate, N), which samples without replacement from a range omitting the candidate"""
    g = ctx.func('mystic.strategy:get_random_candidates')
    rets = [s for s in g.node.body if isinstance(s, ast.Return)]
    want = T.term(ast.parse('random.sample(list(range(exclude)) + list(range(exclude + 1, NP)), N)', mode='eval').body)
    only = [s for s in g.node.body if not (isinstance(s, ast.Expr) and isinstance(s.value, ast.Constant))]
    ctx.stats['terms_compared'] += 1
    ctx.check(len(only) == 1 and rets and t(rets[0].value) == want, 'get_random_candidates',
              'random.sample(range(NP) without exclude, N): distinct members, candidate excluded',
              'get_random_candidates no longer samples N distinct members from range(NP) minus the candidate on every path', g, g.node)
    sm = ctx.model.module('mystic.strategy')
    count = 0
    for q, f in sorted(sm.funcs.items()):
        if '.' in q or q == 'get_random_candidates':
            continue
        scheme = q[:-3]
        if scheme not in SCHEMES or q[-3:] not in ('Exp', 'Bin'):
            ctx.undecided('unknown strategy %s' % q)
        ctx.touch(f)
        count += 1
        # the r's
        unp = [s for s in f.node.body if isinstance(s, ast.Assign) and isinstance(s.value, ast.Call) and callee_text(s.value) == 'get_random_candidates']
        ctx.need(len(unp) == 1, '%s: candidate selection not found' % q)
        rs = [e.id for e in unp[0].targets[0].elts] if isinstance(unp[0].targets[0], ast.Tuple) else [unp[0].targets[0].id]
        args = [''.join(unparse(a).split()) for a in unp[0].value.args]
        # trial vector stores
        stores = [s for s in stmts_of(f.node) if isinstance(s, (ast.Assign, ast.AugAssign)) and
                  isinstance((s.targets[0] if isinstance(s, ast.Assign) else s.target), ast.Subscript) and
                  unparse((s.targets[0] if isinstance(s, ast.Assign) else s.target).value) == 'trialSolution']
        pcopy = [s for s in stores if isinstance(s, ast.Assign) and isinstance(s.targets[0].slice, ast.Slice)]
        mut = [s for s in stores if s not in pcopy]
        ok_parent = len(pcopy) == 1 and ''.join(unparse(pcopy[0].value).split()) in ('inst.population[candidate]', 'inst.population[candidate][:]')
        ctx.need(len(mut) == 1, '%s: expected one mutation store, found %d' % (q, len(mut)))
        m = mut[0]
        tg = m.targets[0] if isinstance(m, ast.Assign) else m.target
        idx = unparse(tg.slice)
        # temporaries defined earlier in the same block are substituted
        bb = T.Builder()
        blk_ = parent(m)
        for s_ in (blk_.body if m in getattr(blk_, 'body', []) else getattr(blk_, 'orelse', [])):
            if s_ is m:
                break
            if isinstance(s_, ast.Assign) and isinstance(s_.targets[0], ast.Name) and s_.targets[0].id not in ('n', 'i'):
                bb.exec_stmt(s_)
        if isinstance(m, ast.AugAssign):
            val = T.simp(T.padd(bb.t(tg), bb.t(m.value))) if isinstance(m.op, ast.Add) else ('opaque', unparse(m))
        else:
            val = T.simp(bb.t(m.value))
        wantv, nneed = _scheme_term(scheme, idx, rs)
        ctx.stats['terms_compared'] += 1
        good = ok_parent and val == wantv and args == ['inst.nPop', 'candidate', str(len(rs))] and len(set(rs)) == len(rs) and \
            len(rs) == {'Best1': 2, 'Rand1': 3, 'RandToBest1': 2, 'Best2': 4, 'Rand2': 5}[scheme]
        ctx.check(good, 'strategy.' + q, 'parent copy, then component = %s' % T.show(wantv)[:110],
                  '%s forms its mutated component as %s from %s = get_random_candidates(%s) (expected %s)' % (
                      q, T.show(val)[:160], rs, ', '.join(args), T.show(wantv)[:160]), f, m)
    ctx.need(count == 10, 'expected 10 strategies, found %d' % count)


@rule('C08.f', min_instances=10)
def crossover_shape(ctx):
    """each strategy's position loop is one of the two canonical shapes: a contiguous run from a random start of at most nDim positions that stops on random() >= CR, or a per-index test with one forced index"""
    sm = ctx.model.module('mystic.strategy')
    exp_ref = '''def blk():
    i = 0
    while 1:
        if random.random() >= inst.probability or i == inst.nDim:
            break
        MUTATE(n)
        n = (n + 1) % inst.nDim
        i += 1
'''
    bin_ref = '''def blk():
    for i in range(inst.nDim):
        cross = random.random()
        if i == n or cross < inst.probability:
            MUTATE(i)
'''

    class Abst(ast.NodeTransformer):
        def visit_Assign(self, node):
            if isinstance(node.targets[0], ast.Subscript) and unparse(node.targets[0].value) == 'trialSolution' and not isinstance(node.targets[0].slice, ast.Slice):
                return ast.copy_location(ast.Expr(value=ast.Call(func=ast.Name(id='MUTATE', ctx=ast.Load()), args=[node.targets[0].slice], keywords=[])), node)
            return node

        def visit_AugAssign(self, node):
            if isinstance(node.target, ast.Subscript) and unparse(node.target.value) == 'trialSolution':
                return ast.copy_location(ast.Expr(value=ast.Call(func=ast.Name(id='MUTATE', ctx=ast.Load()), args=[node.target.slice], keywords=[])), node)
            return node
    E_ = SB.summary_of_source(exp_ref, unroll=(0, 1, 2))
    B_ = SB.summary_of_source(bin_ref, unroll=(0, 1, 2))
    for q, f in sorted(sm.funcs.items()):
        if '.' in q or q == 'get_random_candidates':
            continue
        loops = [n for n in f.node.body if isinstance(n, (ast.While, ast.For))]
        ctx.need(len(loops) == 1, '%s: expected one position loop' % q)
        lp = loops[0]
        pre = [s for s in f.node.body if _assigns_name(s, 'i') and s.lineno < lp.lineno] if isinstance(lp, ast.While) else []
        blk = [Abst().visit(copy.deepcopy(s)) for s in pre + [lp]]
        for s_ in blk:
            ast.fix_missing_locations(s_)
        a = SB.summary(SB.block(blk), unroll=(0, 1, 2))
        shape = 'exponential' if a == E_ else ('binomial' if a == B_ else None)
        nsrc = [s for s in f.node.body if _assigns_name(s, 'n')]
        n_ok = bool(nsrc) and ''.join(unparse(nsrc[0].value).split()) == 'random.randrange(inst.nDim)'
        ctx.check(shape is not None and n_ok, 'strategy.%s#crossover' % q, '%s crossover loop, start/forced index n = randrange(nDim)' % shape,
                  '%s uses a position loop that is neither the exponential nor the binomial crossover (or n is not randrange(nDim))' % q, f, lp)
        if shape:
            ctx.note('%s uses the %s loop' % (q, shape))


def attr_store_cases(fnode, attr, selfname='self'):
    """[(path, literals, stored leaf)] for every store to self.<attr> along the sliced paths of fnode, conditional
    expressions flattened: literals are (condition term, truth) from the path and from the expression"""
    want = ('attr', ('name', selfname), attr)
    stores = [s for s in stmts_of(fnode) if isinstance(s, ast.Assign) and any(T.term(tg) == want for tg in s.targets)]
    if not stores:
        return []
    seeds = set()
    for s in stores:
        seeds |= set(n.id for n in ast.walk(s.value) if isinstance(n, ast.Name))
    names = backward_slice(fnode, seeds)

    def rel(n):
        if n in stores:
            return True
        if isinstance(n, (ast.Assign, ast.AugAssign, ast.For)):
            return bool(set(assigned_names(n)) & names)
        return False
    out = []
    for p in enumerate_paths(fnode, relevant=rel, unroll=(0, 1)):
        b = T.Builder()
        lits = []
        for e in p.events:
            if e[0] == 'cond':
                lits.append((T.simp(b.t(e[1])), e[2]))
            elif e[0] == 'stmt':
                st = e[1]
                if st in stores:
                    v = T.simp(b.t(st.value))
                    for cl, leaf in T.cases(v):
                        out.append((p, tuple(lits) + tuple(cl), leaf, st))
                b.exec_stmt(st)
    return out


@rule('C08.g', min_instances=4)
def de_settings_reach_the_strategies_unchanged(ctx):
    """the scale F and the crossover probability CR the strategies read (inst.scale, inst.probability) are exactly what the caller gave: _process_inputs stores kwds[key] whenever the key is present (any value, 0 included) and keeps the previous value only when it is absent; SetInitial.../__init__ defaults aside, nothing else rewrites them"""
    for cls in ('DifferentialEvolutionSolver', 'DifferentialEvolutionSolver2'):
        f = ctx.func('mystic.differential_evolution:%s._process_inputs' % cls)
        sn = selfname_of(f)
        kw = f.node.args.args[1].arg if len(f.node.args.args) > 1 else 'kwds'
        for attr, key in (('probability', 'CrossProbability'), ('scale', 'ScalingFactor')):
            cs = attr_store_cases(f.node, attr, sn)
            ctx.need(cs, '%s._process_inputs: no store to self.%s' % (cls, attr))
            present = ('cmp', 'in', ('const', key), ('name', kw))
            given = [('sub', ('name', kw), ('const', key)), ('call', ('attr', ('name', kw), 'get'), (('const', key),), ())]
            old = ('attr', ('name', sn), attr)
            bad = None
            for p, lits, leaf, st in cs:
                knows = dict((c, tr) for c, tr in lits)
                if leaf in given and knows.get(present) is True:
                    continue
                if leaf == old and knows.get(present) is False:
                    continue
                bad = (leaf, lits, st)
                break
            ctx.stats['terms_compared'] += len(cs)
            ctx.check(bad is None, '%s._process_inputs#%s' % (cls, attr), 'self.%s = kwds[%r] exactly when the key is present, else unchanged' % (attr, key),
                      '%s._process_inputs stores self.%s = %s under %s: the value the caller gave for %s does not reach the strategies unchanged (a legal 0 is dropped)'
                      % (cls, attr, T.show(bad[0])[:60] if bad else '', [(T.show(c)[:40], tr) for c, tr in bad[1]][:3] if bad else '', key), f, bad[2] if bad else f.node)


@rule('C08.h', min_instances=3)
def every_line_search_gets_the_same_settings(ctx):
    """Powell's three line searches (generation 1 loop, later loop, the search along the extrapolated direction) are the same Brent search: each _linesearch_powell call in _Step passes tol = 100 * the xtol setting and maxiter = the imax setting, both read from the step's settings (the reference has one tolerance and one iteration cap for all of them)"""
    f = ctx.func(SO + ':PowellDirectionalSolver._Step')
    sn = selfname_of(f)
    b = T.Builder()
    for st in f.node.body:
        if isinstance(st, ast.Assign) and len(st.targets) == 1 and isinstance(st.targets[0], ast.Name):
            b.exec_stmt(st)
    S = ('name', sn)

    def setting(key):
        settings = [k for k, v in b.env.items() if isinstance(v, tuple) and v and v[0] == 'call' and T.show(v[1]).endswith('_process_inputs')]
        ctx.need(settings, 'Powell _Step: no local holds the processed settings')
        sv = b.env[settings[0]]
        return ('ifexp', ('cmp', 'in', ('const', key), sv), ('sub', sv, ('const', key)), ('attr', S, key))
    calls = calls_where(f.node, lambda c: callee_text(c) == '_linesearch_powell', include_lambda=False)
    ctx.need(len(calls) >= 3, 'expected 3 line searches in Powell _Step, found %d' % len(calls))
    want_tol = T.simp(T.pmul(setting('xtol'), T.num(100)))
    want_max = setting('imax')
    for c in calls:
        tol = kwarg(c, 'tol', 3)
        mx = kwarg(c, 'maxiter', 4)
        gt = T.simp(b.t(tol)) if tol is not None else None
        gm = T.simp(b.t(mx)) if mx is not None else None
        ctx.stats['terms_compared'] += 2
        ctx.check(gt == want_tol and gm == want_max, 'PowellDirectionalSolver._Step#linesearch[%d]' % calls.index(c), 'tol = xtol*100, maxiter = imax (from the settings)',
                  'the line search at line %d runs with tol=%s, maxiter=%s instead of the step\'s (xtol*100, imax): the three searches of one sweep are no longer the same Brent search'
                  % (c.lineno, T.show(gt)[:60] if gt else 'default', T.show(gm)[:60] if gm else 'default (500)'), f, enclosing_stmt(c))


WRAPPER_STOP_RULES = {
    # wrapper: {termination factory: tolerance roles of its first arguments, by the wrapper's own parameter names}
    SO + ':fmin': {'CandidateRelativeTolerance': ('xtol', 'ftol'), 'VTRChangeOverGeneration': ('ftol',)},
    SO + ':fmin_powell': {'NormalizedChangeOverGeneration': ('ftol', 'gtol'), 'VTRChangeOverGeneration': ('ftol',)},
}


@rule('C08.i', min_instances=4)
def wrappers_build_the_reference_stop_rule(ctx):
    """fmin stops on CandidateRelativeTolerance(xtol, ftol) - the reference fmin's (xtol, ftol) test - and fmin_powell on NormalizedChangeOverGeneration(ftol, gtol) - the reference's ftol test (VTRChangeOverGeneration(ftol) when the first is switched off): every stop rule a wrapper constructs receives the caller's tolerances in these roles (iteration and evaluation counts are comparable with the reference only then)"""
    for anchor, table in WRAPPER_STOP_RULES.items():
        f = ctx.func(anchor)
        imports = {}
        for n in walk_no_nested(f.node):
            if isinstance(n, ast.ImportFrom) and n.module and n.module.endswith('termination'):
                for a in n.names:
                    imports[a.asname or a.name] = a.name
        found = {}
        b = T.Builder()
        for st in stmts_of(f.node):
            if isinstance(st, ast.Assign) and len(st.targets) == 1 and isinstance(st.targets[0], ast.Name) and isinstance(st.value, ast.Call) \
                    and isinstance(st.value.func, ast.Name) and imports.get(st.value.func.id) in table:
                fac = imports[st.value.func.id]
                found.setdefault(fac, []).append((st, [T.simp(T.term(a)) for a in st.value.args], st.value.keywords))
        for fac, roles in sorted(table.items()):
            ctx.need(fac in found, '%s no longer builds a %s stop rule' % (f.qualname, fac))
            for st, args, kws in found[fac]:
                want = [('name', r) for r in roles]
                ctx.stats['terms_compared'] += 1
                ctx.check(args[:len(want)] == want and not kws, '%s#%s' % (f.qualname, fac), '%s(%s)' % (fac, ', '.join(roles)),
                          '%s builds its stop rule as %s: the caller\'s tolerances are not in the roles (%s) of the reference method' % (f.qualname, norm_stmt(st)[:70], ', '.join(roles)), f, st)


@rule('C08.j', min_instances=8)
def de_replaces_only_on_strict_improvement(ctx):
    """differential evolution, every path of _Step: a member (and the best) is replaced only where the path has established `trial energy < incumbent` as a TRUE test - not merely the failure of `>=`, which also lets a NaN energy through (shared with C01.c)"""
    from .c01 import de_energy_stored_with_its_point
    de_energy_stored_with_its_point(ctx)


def members_are_float_vectors(ctx):
    """every initial-point setter stores FLOAT data into self.population: a value computed by random.uniform / a float arithmetic expression, the .tolist() of a float
    draw, or an explicit float cast (asarray(.., dtype=float) / .astype(float)); the output of a user-supplied distribution is not known to be float and must be cast
    (numpy.random.randint rows are int64: an accepted float trial stored with `population[i][:] = trial` is truncated, the member is then a vector that was never
    evaluated and popEnergy no longer matches it).  Shared by C08.k and C01.p."""
    from .c04 import AS
    k = ctx.cls(AS)
    n = 0
    for name, m in sorted(k.methods.items()):
        if not (name.startswith('Set') and name.endswith('InitialPoints')):
            continue
        sn = selfname_of(m)
        for st in stmts_of(m.node):
            if not (isinstance(st, ast.Assign) and len(st.targets) == 1 and isinstance(st.targets[0], ast.Subscript)):
                continue
            root = st.targets[0]
            depth = 0
            while isinstance(root, ast.Subscript):
                root = root.value
                depth += 1
            if not (isinstance(root, ast.Attribute) and root.attr == 'population' and isinstance(root.value, ast.Name) and root.value.id == sn):
                continue
            n += 1
            ctx.touch(m)
            v = st.value

            def floaty(e):
                if isinstance(e, ast.Call):
                    t_ = callee_text(e)
                    last = t_.split('.')[-1]
                    if last in ('asarray', 'array') and any(kw.arg == 'dtype' and 'float' in unparse(kw.value) for kw in e.keywords):
                        return True
                    if last == 'astype' and e.args and 'float' in unparse(e.args[0]):
                        return True
                    if last in ('uniform', 'random', 'normal', 'multivariate_normal', 'gauss', 'float'):
                        return True
                    if last == 'tolist' and isinstance(e.func, ast.Attribute):
                        return floaty(e.func.value)
                    return False
                if isinstance(e, ast.BinOp):
                    return floaty(e.left) or floaty(e.right) or isinstance(e.op, ast.Div)
                if isinstance(e, ast.Constant):
                    return isinstance(e.value, float)
                if isinstance(e, ast.Name):
                    # a local that was cast to float64 earlier in the method (x0 = asarray(x0, dtype='float64'))
                    return any(isinstance(s2, ast.Assign) and any(isinstance(t2, ast.Name) and t2.id == e.id for t2 in s2.targets) and floaty(s2.value) for s2 in stmts_of(m.node) if s2.lineno < st.lineno)
                if isinstance(e, ast.Subscript):
                    return floaty(e.value)
                return False
            ctx.check(floaty(v), 'AbstractSolver.%s#%s' % (name, ' '.join(unparse(st.targets[0]).split())[:40]), 'stores float data (%s)' % unparse(v)[:50],
                      'AbstractSolver.%s stores %s into the population without a float cast: an integer-valued sample (numpy.random.randint) leaves int64 rows, into which accepted float trials are truncated - '
                      'the stored member is not the trial that was evaluated and its stored energy belongs to another vector' % (name, unparse(v)[:60]), m, st)
    ctx.need(n >= 3, 'expected >= 3 stores into self.population by the initial-point setters, found %d' % n)


@rule('C08.k', min_instances=3)
def a_replaced_member_is_the_trial_that_was_evaluated(ctx):
    """ "a member is replaced only by a trial of strictly lower energy" - and the new member IS that trial: the population rows the trial is copied into hold floats whatever produced the starting points (see members_are_float_vectors)"""
    members_are_float_vectors(ctx)
