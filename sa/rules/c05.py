"""C05 - stopping discipline: limits, termination and exit requests are honoured.

Decided (structure visible on every path): Step never calls _Step without a falsy
Terminated() unless the log is empty; Terminated consults the termination
condition, both limits (with >=) and the exit flag, after resolving the limits;
the message names the branch that fired; limit bookkeeping pairs iterations with
generations and evaluations with evaluations; wrappers' warnflag; who may write
the exit flag.  NOT decided: that Solve returns for every cost, the size of the
evaluation overshoot.
"""
import ast

from ..core import rule
from ..srcmodel import AnalysisError, walk_no_nested, attr_chain, unparse
from .. import terms as T
from .. import ordabs
from .common import *

AS = 'mystic.abstract_solver:AbstractSolver'


def _is_terminated_call(n, selfname='self'):
    return isinstance(n, ast.Call) and isinstance(n.func, ast.Attribute) and n.func.attr == 'Terminated' \
        and isinstance(n.func.value, ast.Name) and n.func.value.id == selfname


def _negative_stop_guard(term, truth, stopvars):
    """is (term == truth) a fact that implies 'Terminated() returned something falsy'?"""
    k = term[0]
    if k == 'cmp' and term[1] == 'is' and term[3] == ('const', None) and term[2] in stopvars:
        return truth is True
    if k == 'cmp' and term[1] == 'isnot' and term[3] == ('const', None) and term[2] in stopvars:
        return truth is False
    if k == 'not' and (term[1] in stopvars):
        return truth is True
    if term in stopvars:
        return truth is False
    return None


@rule('C05.a', min_instances=1)
def step_guard(ctx):
    """Step calls _Step only when the log is empty or Terminated(info=True) was falsy"""
    f = ctx.func(AS + '.Step')
    sn = selfname_of(f)

    def rel(n):
        return (isinstance(n, ast.Call) and (self_call(n, '_Step', sn) or _is_terminated_call(n, sn))) or \
               (isinstance(n, ast.Name) and isinstance(n.ctx, ast.Store))
    paths = enumerate_paths(f.node, relevant=rel)
    ctx.stats['paths_enumerated'] += len(paths)
    n_inst = 0
    for p in paths:
        # walk the path keeping: value terms of variables derived from Terminated()
        b = T.Builder()
        stopvars = set()
        guards = []
        stepmon_empty = False
        for e in p.events:
            if e[0] == 'cond':
                tt = T.simp(b.t(e[1]))
                guards.append((tt, e[2], e[1]))
                if mentions(tt, 'len(%s._stepmon)' % sn) and e[2] is False:
                    stepmon_empty = True
                if tt == ('not', ('call', ('name', 'len'), (('attr', ('name', sn), '_stepmon'),), ())) and e[2] is True:
                    stepmon_empty = True
            elif e[0] == 'stmt':
                st = e[1]
                step_calls = calls_where(st, lambda c: self_call(c, '_Step', sn))
                if step_calls:
                    n_inst += 1
                    good = stepmon_empty
                    why = 'log empty (initial evaluation)' if good else ''
                    for tt, truth, node in guards:
                        # direct: `if not self.Terminated(...)`
                        if any(_is_terminated_call(c, sn) for c in calls_where(node, lambda c: True)):
                            inner = tt[1] if tt[0] == 'not' else tt
                            if (tt[0] == 'not' and truth is True) or (tt[0] != 'not' and truth is False):
                                good, why = True, 'guard %s is %s' % (unparse(node), truth)
                        g = _negative_stop_guard(tt, truth, stopvars)
                        if g:
                            good, why = True, 'guard %s is %s' % (unparse(node), truth)
                    ctx.check(good, 'AbstractSolver.Step', 'path %s: %s' % (p.describe(6), why),
                              'a path reaches self._Step() although the log is non-empty and no falsy '
                              'Terminated() result guards it: %s' % p.describe(8), f, step_calls[0])
                    break
                if isinstance(st, ast.Assign) and len(st.targets) == 1 and isinstance(st.targets[0], ast.Name):
                    name = st.targets[0].id
                    tcalls = calls_where(st.value, lambda c: _is_terminated_call(c, sn))
                    v = st.value
                    if tcalls:
                        # msg = self.Terminated(..., info=True) or None  |  msg = self.Terminated(...)
                        ok_shape = (v is tcalls[0]) or (isinstance(v, ast.BoolOp) and isinstance(v.op, ast.Or)
                                                        and v.values[0] is tcalls[0]
                                                        and all(const_value(x, 1) in (None, False, '', 0) for x in v.values[1:]))
                        if ok_shape:
                            stopvars.add(('name', name))
                        else:
                            stopvars.discard(('name', name))
                    else:
                        stopvars.discard(('name', name))
                        if const_value(v, 1) is None and isinstance(v, ast.Constant):
                            # msg = None : only sound when the log is empty
                            if stepmon_empty:
                                pass
                    # do not substitute: keep names symbolic
    ctx.need(n_inst > 0, 'no path of Step reaches a self._Step() call')


def _limit_kind(term, sn='self'):
    """classify a condition term of Terminated: 'maxfun' | 'maxiter' | 'exit' | None"""
    s = T.show(term)
    if '._maxfun' in s and '<=' in s or ('._maxfun' in s and '<' in s):
        return 'maxfun'
    if '._maxiter' in s and ('<=' in s or '<' in s):
        return 'maxiter'
    if '._EARLYEXIT' in s:
        return 'exit'
    return None


def _terminated_paths(ctx, f, subject):
    """for each path of a Terminated implementation: (fired kinds, final msg term, path)"""
    sn = selfname_of(f)

    def rel(n):
        if isinstance(n, ast.Name) and n.id == 'msg':
            return True
        if isinstance(n, ast.Attribute) and n.attr in ('_maxfun', '_maxiter', '_EARLYEXIT'):
            return True
        return False
    paths = enumerate_paths(f.node, relevant=rel)
    ctx.stats['paths_enumerated'] += len(paths)
    out = []
    for p in paths:
        if p.exit != 'return':
            continue
        b = T.Builder()
        fired, notfired = [], []
        for e in p.events:
            if e[0] == 'stmt':
                st = e[1]
                if isinstance(st, ast.Assign) and all(isinstance(x, ast.Name) for x in st.targets):
                    b.exec_stmt(st)
            elif e[0] == 'cond':
                tt = T.simp(b.t(e[1]))
                kind = _limit_kind(tt, sn)
                if kind:
                    (fired if e[2] else notfired).append((kind, tt, e[1]))
        msg = b.env.get('msg')
        out.append((fired, notfired, msg, p))
    return out


def _check_terminated(ctx, f, subject, label):
    sn = selfname_of(f)
    res = _terminated_paths(ctx, f, subject)
    ctx.need(res, 'no returning path in %s' % label)
    kinds_seen = set()
    term_call_ok = False
    for fired, notfired, msg, p in res:
        # paths that return before the main block (ensemble all=True/None) have no msg
        if msg is None:
            continue
        shown = T.show(msg)
        fk = [k for k, _, _ in fired]
        kinds_seen.update(fk)
        kinds_seen.update(k for k, _, _ in notfired)
        if fk:
            k = fk[0]
            want = 'SolverInterrupt' if k == 'exit' else 'EvaluationLimits'
            lit_ok = msg[0] == 'fmt' and msg[1][0] == 'const' and isinstance(msg[1][1], str) and \
                msg[1][1].strip() != '' and want in msg[1][1]
            ctx.check(lit_ok, label, 'branch %s fired -> message %s (non-empty literal)' % (k, shown[:60]),
                      'when the %s condition is true the message is %s, which does not name that condition / may be empty'
                      % (k, shown[:80]), f, fired[0][2])
        else:
            # nothing fired: message must be the termination's own
            is_term = msg[0] == 'call' and any(kw == ('info', ('const', True)) for kw in msg[3]) and \
                len(msg[2]) >= 1
            if is_term:
                term_call_ok = True
            ctx.check(is_term, label, 'no limit/exit branch fired -> message is the termination condition\'s own: %s' % shown[:60],
                      'a path on which no limit and no exit request is true reports %s instead of the '
                      'termination condition\'s message' % shown[:80], f, p.exit_node)
    for k in ('maxfun', 'maxiter', 'exit'):
        ctx.check(k in kinds_seen, label, 'source %s is consulted' % k,
                  'Terminated no longer consults the %s stop source' % k, f, f.node)
    ctx.check(term_call_ok, label, 'termination(self, info=True) is consulted',
              'Terminated no longer evaluates the termination condition', f, f.node)
    return res


@rule('C05.b', min_instances=6)
def terminated_sources(ctx):
    """Terminated consults termination, both limits and the exit flag; each true source forces its own non-empty message (covers C05.d)"""
    f = ctx.func(AS + '.Terminated')
    _check_terminated(ctx, f, 'self', 'AbstractSolver.Terminated')
    # limits resolved before being compared
    sn = selfname_of(f)
    sets = calls_where(f.node, lambda c: self_call(c, '_SetEvaluationLimits', sn))
    cmps = [n for n in walk_no_nested(f.node) if isinstance(n, ast.Compare)
            and any(isinstance(x, ast.Attribute) and x.attr in ('_maxfun', '_maxiter') for x in ast.walk(n))
            and any(isinstance(o, (ast.Lt, ast.LtE, ast.Gt, ast.GtE)) for o in n.ops)]
    ctx.need(cmps, 'no limit comparison found in Terminated')
    good = bool(sets) and all((s.lineno, s.col_offset) < (c.lineno, c.col_offset) for s in sets[:1] for c in cmps) \
        and not guards_of(enclosing_stmt(sets[0]), stop=f.node) if sets else False
    ctx.check(good, 'AbstractSolver.Terminated', '_SetEvaluationLimits() runs unconditionally before the first limit comparison',
              'the limits are compared before self._SetEvaluationLimits() has resolved None/"*" defaults', f, cmps[0])
    fe = ctx.func('mystic.abstract_ensemble_solver:AbstractEnsembleSolver.Terminated')
    _check_terminated(ctx, fe, 'solver', 'AbstractEnsembleSolver.Terminated')


def _reached_means_ge(ctx, term, count_atom, limit_atom, f, node, label):
    """over the three orderings of count vs limit the predicate is false for <, true for = and >"""
    rows = []
    okall = True
    for rel, rank in (('<', {count_atom: 0, limit_atom: 1}), ('=', {count_atom: 0, limit_atom: 0}),
                      ('>', {count_atom: 1, limit_atom: 0})):
        assume = {}
        for a in cond_atoms(term):
            if a[0] == 'cmp' and a[1] in ('is', 'isnot') and a[3] == ('const', None):
                assume[a] = (a[1] == 'isnot')
        try:
            v = ordabs.evaluate(term, rank, assume)
        except ordabs.Unknown as e:
            raise AnalysisError('cannot order-evaluate %s' % e)
        ctx.stats['orderings_enumerated'] += 1
        rows.append('%s:%s' % (rel, v))
        if v != (rel != '<'):
            okall = False
    ctx.check(okall, label, 'count vs limit orderings %s' % ' '.join(rows),
              'limit test %s is not "count >= limit": %s' % (T.show(term), ' '.join(rows)), f, node)


def _find_cmp(term, attr):
    for s in T.subterms(term):
        if isinstance(s, tuple) and s and s[0] == 'cmp' and s[1] in ('<', '<=', '==', '!=') and attr in T.show(s):
            return s
    return None


@rule('C05.c', min_instances=4)
def reached_means_ge(ctx):
    """'limit reached' is count >= limit in Terminated (base, ensemble), EvaluationLimits and the wrappers"""
    for anchor, label in ((AS + '.Terminated', 'AbstractSolver.Terminated'),
                          ('mystic.abstract_ensemble_solver:AbstractEnsembleSolver.Terminated', 'AbstractEnsembleSolver.Terminated')):
        f = ctx.func(anchor)
        done = set()
        for fired, notfired, msg, p in _terminated_paths(ctx, f, None):
            for kind, tt, node in fired + notfired:
                if kind in ('maxfun', 'maxiter') and (kind, id(node)) not in done:
                    done.add((kind, id(node)))
                    c = _find_cmp(tt, '._' + kind)
                    ctx.need(c is not None, 'no comparison in %s' % T.show(tt))
                    a, b_ = c[2], c[3]
                    limit = a if ('._' + kind) in T.show(a) else b_
                    count = b_ if limit is a else a
                    want = '_fcalls' if kind == 'maxfun' else 'generations'
                    ctx.check(want in T.show(count) or (kind == 'maxfun' and 'evaluations' in T.show(count)), label,
                              '%s is compared with %s' % (kind, T.show(count)),
                              'the %s limit is compared with %s, not with the matching counter' % (kind, T.show(count)), f, node)
                    _reached_means_ge(ctx, tt, count, limit, f, node, label + '#' + kind)
    # EvaluationLimits termination condition
    f = ctx.func('mystic.termination:EvaluationLimits._EvaluationLimits')
    tests = [n for n in walk_no_nested(f.node) if isinstance(n, ast.If)]
    ctx.need(tests, 'EvaluationLimits has no test')
    b = T.Builder()
    n_ok = 0
    for st in f.node.body:   # gens = inst.generations ; eval = inst._fcalls[0]
        if isinstance(st, ast.Assign) and isinstance(st.value, (ast.Attribute, ast.Subscript)):
            b.exec_stmt(st)
    for test in tests:
        tt = T.simp(b.t(test.test))
        for atom in cond_atoms(tt):
            if atom[0] == 'cmp' and atom[1] in ('<', '<='):
                s = T.show(atom)
                if 'maxfun' in s or 'maxiter' in s:
                    lim = atom[2] if ('maxfun' in T.show(atom[2]) or 'maxiter' in T.show(atom[2])) else atom[3]
                    cnt = atom[3] if lim is atom[2] else atom[2]
                    kind = 'maxfun' if 'maxfun' in T.show(lim) else 'maxiter'
                    want = ('_fcalls', 'evaluations') if kind == 'maxfun' else ('generations',)
                    ctx.check(any(w in T.show(cnt) for w in want), 'EvaluationLimits#' + kind,
                              '%s compared with %s' % (kind, T.show(cnt)),
                              'EvaluationLimits compares %s with %s' % (kind, T.show(cnt)), f, test)
                    _reached_means_ge(ctx, atom, cnt, lim, f, test, 'EvaluationLimits#' + kind)
                    n_ok += 1
    ctx.need(n_ok >= 2, 'EvaluationLimits: expected two limit comparisons, found %d' % n_ok)


WRAPPERS = ['mystic.scipy_optimize:fmin', 'mystic.scipy_optimize:fmin_powell',
            'mystic.differential_evolution:diffev', 'mystic.ensemble:lattice',
            'mystic.ensemble:buckshot', 'mystic.ensemble:sparsity']


def _warnflag_chain(ctx, f):
    """returns [(test term, value)] of the if/elif chain assigning warnflag, plus initial value"""
    b = T.Builder()
    init = None
    chain = []
    for st in f.node.body:
        if isinstance(st, ast.Assign):
            if len(st.targets) == 1 and isinstance(st.targets[0], ast.Name) and st.targets[0].id == 'warnflag':
                init = const_value(st.value, '?')
            # substitute only simple attribute reads of the solver (fcalls = solver.evaluations)
            if isinstance(st.value, ast.Attribute):
                b.exec_stmt(st)
        elif isinstance(st, ast.If) and contains_node(st, lambda n: isinstance(n, ast.Name) and n.id == 'warnflag'
                                                     and isinstance(n.ctx, ast.Store)):
            cur = st
            while True:
                val = None
                for s2 in cur.body:
                    if isinstance(s2, ast.Assign) and isinstance(s2.targets[0], ast.Name) and s2.targets[0].id == 'warnflag':
                        val = const_value(s2.value, '?')
                chain.append((T.simp(b.t(cur.test)), val, cur))
                if len(cur.orelse) == 1 and isinstance(cur.orelse[0], ast.If):
                    cur = cur.orelse[0]
                else:
                    for s2 in cur.orelse:
                        if isinstance(s2, ast.Assign) and isinstance(s2.targets[0], ast.Name) and s2.targets[0].id == 'warnflag':
                            chain.append((None, const_value(s2.value, '?'), s2))
                    break
            break
    return init, chain


@rule('C05.g', min_instances=6)
def wrappers_warnflag(ctx):
    """wrappers: warnflag 1 iff evaluations >= _maxfun, else 2 iff generations >= _maxiter, else 0"""
    for anchor in WRAPPERS:
        f = ctx.func(anchor)
        init, chain = _warnflag_chain(ctx, f)
        ctx.need(chain, 'no warnflag decision chain in %s' % f.qualname)
        sv = ('name', 'solver')
        want1 = T.mk_cmp('>=', ('attr', sv, 'evaluations'), ('attr', sv, '_maxfun'))
        want2 = T.mk_cmp('>=', ('attr', sv, 'generations'), ('attr', sv, '_maxiter'))
        got = [(tt, v) for tt, v, _ in chain if tt is not None]
        ok_ = init == 0 and len(got) >= 2 and got[0] == (want1, 1) and got[1] == (want2, 2) and \
            all(v in (0, None) for tt, v, _ in chain[2:])
        ctx.stats['terms_compared'] += 2
        ctx.check(ok_, f.qualname, 'warnflag chain = [evals>=maxfun -> 1, gens>=maxiter -> 2, else 0]',
                  'warnflag chain is init=%r %s' % (init, [(T.show(tt) if tt else 'else', v) for tt, v, _ in chain]),
                  f, chain[0][2])


@rule('C05.e', min_instances=2)
def solve_loops_on_step(ctx):
    """_Solve: each `while not stop` loop reassigns stop only from self.Step(...); collapse loop re-enters only on a non-empty Collapse()"""
    f = ctx.func(AS + '._Solve')
    sn = selfname_of(f)
    loops = [n for n in walk_no_nested(f.node) if isinstance(n, ast.While)]
    inner = [w for w in loops if isinstance(w.test, ast.UnaryOp) and isinstance(w.test.op, ast.Not) and isinstance(w.test.operand, ast.Name)]
    ctx.need(inner, 'no `while not <stop>` loop in _Solve')
    for w in inner:
        var = w.test.operand.id
        stores = [s for s in walk_no_nested(w) if isinstance(s, (ast.Assign, ast.AugAssign)) and var in assigned_names(s)]
        good = bool(stores) and all(isinstance(s, ast.Assign) and self_call(s.value, 'Step', sn) for s in stores)
        has_break = any(isinstance(n, ast.Break) for n in walk_no_nested(w))
        ctx.check(good and not has_break, 'AbstractSolver._Solve', 'loop variable %s comes only from self.Step(...)' % var,
                  'the solve loop at line %d can end (or continue) on something other than the value returned by Step' % w.lineno, f, w)
    outer = [w for w in loops if w not in inner]
    for w in outer:
        tt = t(w.test)
        good = tt[0] == 'and' and any(x[0] == 'call' and T.show(x[1]).endswith('.Collapse') for x in tt[1:]) and \
            any(T.show(x).endswith('._collapse') for x in tt[1:])
        ctx.check(good, 'AbstractSolver._Solve#collapse', 'collapse loop guarded by %s' % T.show(tt),
                  'the collapse loop re-enters on %s rather than on (self._collapse and a non-empty Collapse())' % T.show(tt), f, w)


@rule('C05.f', min_instances=6)
def limit_bookkeeping(ctx):
    """new=True offsets _maxiter by generations and _maxfun by evaluations; the '*' sentinel resolves likewise"""
    f = ctx.func(AS + '.SetEvaluationLimits')
    sn = selfname_of(f)
    pair = {'_maxiter': 'generations', '_maxfun': 'evaluations'}
    seen = set()
    for st in stmts_of(f.node):
        if isinstance(st, ast.AugAssign) and is_self_attr(st.target, None, sn) and st.target.attr in pair:
            a = st.target.attr
            g = guards_of(st, stop=f.node)
            under_new = any(isinstance(x, ast.Name) and x.id == 'new' and truth for x, truth, _ in g)
            good = isinstance(st.op, ast.Add) and is_self_attr(st.value, pair[a], sn) and under_new
            ctx.check(good, 'SetEvaluationLimits#' + a, '%s += self.%s under new' % (a, pair[a]),
                      'with new=True the limit %s is offset by %s (expected + self.%s, only when new)' % (a, unparse(st.value), pair[a]), f, st)
            seen.add(a)
        if isinstance(st, ast.Assign) and len(st.targets) == 1 and is_self_attr(st.targets[0], None, sn) \
                and st.targets[0].attr in pair and const_value(st.value) == '*':
            g = guards_of(st, stop=f.node)
            under_new = any(isinstance(x, ast.Name) and x.id == 'new' and truth for x, truth, _ in g)
            ctx.check(under_new, 'SetEvaluationLimits#' + st.targets[0].attr + '*', 'sentinel stored only under new',
                      'the "*" sentinel is stored outside the new=True branch', f, st)
    ctx.need(seen == set(pair), 'SetEvaluationLimits: offsets found for %s only' % sorted(seen))
    # plain assignment of the given limits
    first = {}
    for st in f.node.body:
        if isinstance(st, ast.Assign) and len(st.targets) == 1 and is_self_attr(st.targets[0], None, sn) and st.targets[0].attr in pair:
            first.setdefault(st.targets[0].attr, st)
    for a, par in (('_maxiter', 'generations'), ('_maxfun', 'evaluations')):
        ctx.need(a in first, 'no unconditional store to %s' % a)
        v = first[a].value
        names = [n.id for n in ast.walk(v) if isinstance(n, ast.Name)]
        other = 'evaluations' if par == 'generations' else 'generations'
        ctx.check(par in names and other not in names, 'SetEvaluationLimits#' + a + '=', '%s <- %s' % (a, par),
                  '%s is set from %s' % (a, unparse(v)), f, first[a])
    # _SetEvaluationLimits
    g = ctx.func(AS + '._SetEvaluationLimits')
    sn = selfname_of(g)
    scale = {'_maxiter': 'iterscale', '_maxfun': 'evalscale'}
    found = 0
    for st in stmts_of(g.node):
        if isinstance(st, ast.Assign) and len(st.targets) == 1 and is_self_attr(st.targets[0], None, sn) and st.targets[0].attr in pair:
            a = st.targets[0].attr
            gs = guards_of(st, stop=g.node)
            ctx.need(gs, 'store to %s in _SetEvaluationLimits is unguarded' % a)
            gt = t(gs[0][0])
            vt = T.show(t(st.value))
            is_star = '*' in T.show(gt) and gs[0][1]
            is_none = gt == T.mk_cmp('is', ('attr', ('name', sn), a), ('const', None)) and gs[0][1]
            mention_self = a in T.show(gt)
            good = mention_self and scale[a] in vt and scale['_maxfun' if a == '_maxiter' else '_maxiter'] not in vt
            if is_star:
                good = good and ('%s.%s' % (sn, pair[a])) in vt and ('%s.%s' % (sn, pair['_maxfun' if a == '_maxiter' else '_maxiter'])) not in vt
            elif is_none:
                good = good and 'generations' not in vt and 'evaluations' not in vt
            else:
                ctx.undecided('unknown guard %s for %s' % (T.show(gt), a))
            ctx.check(good, '_SetEvaluationLimits#%s%s' % (a, '*' if is_star else ''),
                      '%s resolves to %s' % (a, vt), 'default for %s under %s resolves to %s' % (a, T.show(gt), vt), g, st)
            found += 1
    ctx.need(found >= 4, '_SetEvaluationLimits: expected 4 default stores, found %d' % found)


@rule('C05.i', min_instances=3)
def exit_flag_writers(ctx):
    """_EARLYEXIT is written only by __init__, Solve (reset) and the signal handler's exit branch"""
    allowed = {'mystic.abstract_solver:AbstractSolver.__init__', 'mystic.abstract_solver:AbstractSolver.Solve',
               'mystic._signal:Handler.__call__', 'mystic._scipyoptimize:'}
    n = 0
    for m in ctx.model.modules.values():
        for q, fi in m.funcs.items():
            for node in walk_no_nested(fi.node):
                if isinstance(node, ast.Attribute) and node.attr == '_EARLYEXIT' and isinstance(node.ctx, (ast.Store, ast.Del)):
                    n += 1
                    ctx.touch(fi)
                    okw = fi.anchor in allowed or fi.anchor.startswith('mystic._scipyoptimize:')
                    if fi.anchor.endswith('Handler.__call__'):
                        gs = guards_of(enclosing_stmt(node), stop=fi.node)
                        okw = any("'exit'" in unparse(g[0]) and g[1] for g in gs)
                    if fi.anchor.endswith('AbstractSolver.Solve'):
                        st = enclosing_stmt(node)
                        okw = isinstance(st, ast.Assign) and const_value(st.value, 1) is False and \
                            st.lineno < min([c.lineno for c in calls_where(fi.node, lambda c: self_call(c, '_Solve'))] or [0])
                    ctx.check(okw, fi.qualname, 'allowed writer of the exit flag',
                              '%s writes the exit-request flag' % fi.anchor, fi, node)
    ctx.need(n >= 3, 'expected >= 3 writers of _EARLYEXIT, found %d' % n)


@rule('C05.j', min_instances=1)
def finalize_on_stop(ctx):
    """in Step, a truthy Terminated() after _Step leads to Finalize()"""
    f = ctx.func(AS + '.Step')
    sn = selfname_of(f)
    steps = calls_where(f.node, lambda c: self_call(c, '_Step', sn))
    ctx.need(steps, 'no _Step call')
    st = enclosing_stmt(steps[0])
    blk = parent(st)
    body = blk.body if st in getattr(blk, 'body', []) else blk.orelse
    after = body[body.index(st) + 1:]
    good = False
    for a in after:
        if isinstance(a, ast.If) and _is_terminated_call(a.test, sn) and \
                calls_where(ast.Module(body=a.body, type_ignores=[]), lambda c: self_call(c, 'Finalize', sn)):
            good = True
            break
        if calls_where(a, lambda c: self_call(c, 'Finalize', sn)) and not isinstance(a, ast.If):
            good = True
            break
    ctx.check(good, 'AbstractSolver.Step', 'Finalize() follows a truthy Terminated() after _Step',
              'after _Step a terminated solver is no longer finalized', f, st)
