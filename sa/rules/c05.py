"""C05 - stopping discipline: limits, termination and exit requests are honoured.

Decided (structure visible on every path): Step never calls _Step without a falsy
Terminated() unless the log is empty; Terminated consults the termination
condition, both limits (with >=) and the exit flag, after resolving the limits;
the message names the branch that fired; limit bookkeeping pairs iterations with
generations and evaluations with evaluations; wrappers' warnflag; who may write
the exit flag.  Round 3: every re-decoration continues the evaluation counter (shared with
C04.b), so the evaluation limit bounds the total.
Round 4: the EvaluationLimits termination condition answers per its documented
predicate (a limit of 0 is a limit).
Round 5 (hunt): SetEvaluationLimits' case analysis follows the value actually
stored (maxiter= / maxfun= spellings included; repair 834de84); only a solver
with a decorated objective is ever marked live outside the decorators (repair
03c2d04).
Round 6: the count compared with the evaluation limit is the counter cell; a
monitor swap does not move the generation count; a time limit of 0 is a limit
(no default on truth value).
NOT decided: that Solve returns for every cost, the size of the
evaluation overshoot.
"""
import ast

from ..core import rule
from ..srcmodel import AnalysisError, walk_no_nested, attr_chain, unparse
from .. import terms as T
from .. import ordabs
from .common import *

AS = 'mystic.abstract_solver:AbstractSolver'


def _is_terminated_call(n, selfname='self'):
    return isinstance(n, ast.Call) and isinstance(n.func, ast.Attribute) and n.func.attr == 'Terminated' \
        and isinstance(n.func.value, ast.Name) and n.func.value.id == selfname


def _negative_stop_guard(term, truth, stopvars):
    """is (term == truth) a fact that implies 'Terminated() returned something falsy'?"""
    k = term[0]
    if k == 'cmp' and term[1] == 'is' and term[3] == ('const', None) and term[2] in stopvars:
        return truth is True
    if k == 'cmp' and term[1] == 'isnot' and term[3] == ('const', None) and term[2] in stopvars:
        return truth is False
    if k == 'not' and (term[1] in stopvars):
        return truth is True
    if term in stopvars:
        return truth is False
    return None


@rule('C05.a', min_instances=1)
def step_guard(ctx):
    """Step calls _Step only when the log is empty or Terminated(info=True) was falsy"""
    f = ctx.func(AS + '.Step')
    sn = selfname_of(f)

    def rel(n):
        return (isinstance(n, ast.Call) and (self_call(n, '_Step', sn) or _is_terminated_call(n, sn))) or \
               (isinstance(n, ast.Name) and isinstance(n.ctx, ast.Store))
    paths = enumerate_paths(f.node, relevant=rel)
    ctx.stats['paths_enumerated'] += len(paths)
    n_inst = 0
    for p in paths:
        # walk the path keeping: value terms of variables derived from Terminated()
        b = T.Builder()
        stopvars = set()
        guards = []
        stepmon_empty = False
        for e in p.events:
            if e[0] == 'cond':
                tt = T.simp(b.t(e[1]))
                guards.append((tt, e[2], e[1]))
                if mentions(tt, 'len(%s._stepmon)' % sn) and e[2] is False:
                    stepmon_empty = True
                if tt == ('not', ('call', ('name', 'len'), (('attr', ('name', sn), '_stepmon'),), ())) and e[2] is True:
                    stepmon_empty = True
            elif e[0] == 'stmt':
                st = e[1]
                step_calls = calls_where(st, lambda c: self_call(c, '_Step', sn))
                if step_calls:
                    n_inst += 1
                    good = stepmon_empty
                    why = 'log empty (initial evaluation)' if good else ''
                    for tt, truth, node in guards:
                        # direct: `if not self.Terminated(...)`
                        if any(_is_terminated_call(c, sn) for c in calls_where(node, lambda c: True)):
                            inner = tt[1] if tt[0] == 'not' else tt
                            if (tt[0] == 'not' and truth is True) or (tt[0] != 'not' and truth is False):
                                good, why = True, 'guard %s is %s' % (unparse(node), truth)
                        g = _negative_stop_guard(tt, truth, stopvars)
                        if g:
                            good, why = True, 'guard %s is %s' % (unparse(node), truth)
                    ctx.check(good, 'AbstractSolver.Step', 'path %s: %s' % (p.describe(6), why),
                              'a path reaches self._Step() although the log is non-empty and no falsy '
                              'Terminated() result guards it: %s' % p.describe(8), f, step_calls[0])
                    break
                if isinstance(st, ast.Assign) and len(st.targets) == 1 and isinstance(st.targets[0], ast.Name):
                    name = st.targets[0].id
                    tcalls = calls_where(st.value, lambda c: _is_terminated_call(c, sn))
                    v = st.value
                    if tcalls:
                        # msg = self.Terminated(..., info=True) or None  |  msg = self.Terminated(...)
                        ok_shape = (v is tcalls[0]) or (isinstance(v, ast.BoolOp) and isinstance(v.op, ast.Or)
                                                        and v.values[0] is tcalls[0]
                                                        and all(const_value(x, 1) in (None, False, '', 0) for x in v.values[1:]))
                        if ok_shape:
                            stopvars.add(('name', name))
                        else:
                            stopvars.discard(('name', name))
                    else:
                        stopvars.discard(('name', name))
                        if const_value(v, 1) is None and isinstance(v, ast.Constant):
                            # msg = None : only sound when the log is empty
                            if stepmon_empty:
                                pass
                    # do not substitute: keep names symbolic
    ctx.need(n_inst > 0, 'no path of Step reaches a self._Step() call')


def _limit_kind(term, sn='self'):
    """classify a condition term of Terminated: 'maxfun' | 'maxiter' | 'exit' | None"""
    s = T.show(term)
    if '._maxfun' in s and '<=' in s or ('._maxfun' in s and '<' in s):
        return 'maxfun'
    if '._maxiter' in s and ('<=' in s or '<' in s):
        return 'maxiter'
    if '._EARLYEXIT' in s:
        return 'exit'
    return None


def _terminated_paths(ctx, f, subject):
    """for each path of a Terminated implementation: (fired kinds, final msg term, path)"""
    sn = selfname_of(f)

    def rel(n):
        if isinstance(n, ast.Name) and n.id == 'msg':
            return True
        if isinstance(n, ast.Attribute) and n.attr in ('_maxfun', '_maxiter', '_EARLYEXIT'):
            return True
        return False
    paths = enumerate_paths(f.node, relevant=rel)
    ctx.stats['paths_enumerated'] += len(paths)
    out = []
    for p in paths:
        if p.exit != 'return':
            continue
        b = T.Builder()
        fired, notfired = [], []
        for e in p.events:
            if e[0] == 'stmt':
                st = e[1]
                if isinstance(st, ast.Assign) and all(isinstance(x, ast.Name) for x in st.targets):
                    b.exec_stmt(st)
            elif e[0] == 'cond':
                tt = T.simp(b.t(e[1]))
                kind = _limit_kind(tt, sn)
                if kind:
                    (fired if e[2] else notfired).append((kind, tt, e[1]))
        msg = b.env.get('msg')
        out.append((fired, notfired, msg, p))
    return out


def _check_terminated(ctx, f, subject, label):
    sn = selfname_of(f)
    res = _terminated_paths(ctx, f, subject)
    ctx.need(res, 'no returning path in %s' % label)
    kinds_seen = set()
    term_call_ok = False
    for fired, notfired, msg, p in res:
        # paths that return before the main block (ensemble all=True/None) have no msg
        if msg is None:
            continue
        shown = T.show(msg)
        fk = [k for k, _, _ in fired]
        kinds_seen.update(fk)
        kinds_seen.update(k for k, _, _ in notfired)
        if fk:
            k = fk[0]
            want = 'SolverInterrupt' if k == 'exit' else 'EvaluationLimits'
            lit_ok = msg[0] == 'fmt' and msg[1][0] == 'const' and isinstance(msg[1][1], str) and \
                msg[1][1].strip() != '' and want in msg[1][1]
            ctx.check(lit_ok, label, 'branch %s fired -> message %s (non-empty literal)' % (k, shown[:60]),
                      'when the %s condition is true the message is %s, which does not name that condition / may be empty'
                      % (k, shown[:80]), f, fired[0][2])
        else:
            # nothing fired: message must be the termination's own
            is_term = msg[0] == 'call' and any(kw == ('info', ('const', True)) for kw in msg[3]) and \
                len(msg[2]) >= 1
            if is_term:
                term_call_ok = True
            ctx.check(is_term, label, 'no limit/exit branch fired -> message is the termination condition\'s own: %s' % shown[:60],
                      'a path on which no limit and no exit request is true reports %s instead of the '
                      'termination condition\'s message' % shown[:80], f, p.exit_node)
    # the exit request alone must make its branch fire: the branch test, as a boolean function of its atoms, is true
    # whenever the _EARLYEXIT atom is true (a conjunct such as `self._handle_sigint and ...` would ignore requests)
    import itertools
    from .. import pathcond as PC
    seen_tests = set()
    for fired, notfired, msg, p in res:
        for kind, tt, node in fired + notfired:
            if kind != 'exit' or id(node) in seen_tests:
                continue
            seen_tests.add(id(node))
            atoms = PC.leaves(tt)
            ex = [a for a in atoms if '._EARLYEXIT' in T.show(a)]
            others = [a for a in atoms if a not in ex]
            ctx.need(len(atoms) <= 10, 'exit test too large for a truth table')
            implied = all(PC.ev(tt, dict(list(zip(others, bits)) + [(a, True) for a in ex]))
                          for bits in itertools.product((False, True), repeat=len(others))) and \
                all(isinstance(a, tuple) and a[0] == 'attr' for a in ex)
            ctx.stats['truth_table_rows'] += 2 ** len(others)
            ctx.check(implied, label + '#exit-request', 'an exit request alone makes the exit branch fire (%s)' % T.show(tt)[:60],
                      'the exit branch is tested as %s: an exit request can be true while the branch does not fire, so the request is ignored'
                      % T.show(tt)[:100], f, node)
    for k in ('maxfun', 'maxiter', 'exit'):
        ctx.check(k in kinds_seen, label, 'source %s is consulted' % k,
                  'Terminated no longer consults the %s stop source' % k, f, f.node)
    ctx.check(term_call_ok, label, 'termination(self, info=True) is consulted',
              'Terminated no longer evaluates the termination condition', f, f.node)
    return res


@rule('C05.b', min_instances=6)
def terminated_sources(ctx):
    """Terminated consults termination, both limits and the exit flag; each true source forces its own non-empty message (covers C05.d)"""
    f = ctx.func(AS + '.Terminated')
    _check_terminated(ctx, f, 'self', 'AbstractSolver.Terminated')
    # limits resolved before being compared
    sn = selfname_of(f)
    sets = calls_where(f.node, lambda c: self_call(c, '_SetEvaluationLimits', sn))
    cmps = [n for n in walk_no_nested(f.node) if isinstance(n, ast.Compare)
            and any(isinstance(x, ast.Attribute) and x.attr in ('_maxfun', '_maxiter') for x in ast.walk(n))
            and any(isinstance(o, (ast.Lt, ast.LtE, ast.Gt, ast.GtE)) for o in n.ops)]
    ctx.need(cmps, 'no limit comparison found in Terminated')
    good = bool(sets) and all((s.lineno, s.col_offset) < (c.lineno, c.col_offset) for s in sets[:1] for c in cmps) \
        and not guards_of(enclosing_stmt(sets[0]), stop=f.node) if sets else False
    ctx.check(good, 'AbstractSolver.Terminated', '_SetEvaluationLimits() runs unconditionally before the first limit comparison',
              'the limits are compared before self._SetEvaluationLimits() has resolved None/"*" defaults', f, cmps[0])
    fe = ctx.func('mystic.abstract_ensemble_solver:AbstractEnsembleSolver.Terminated')
    _check_terminated(ctx, fe, 'solver', 'AbstractEnsembleSolver.Terminated')


def _reached_means_ge(ctx, term, count_atom, limit_atom, f, node, label):
    """over the three orderings of count vs limit the predicate is false for <, true for = and >"""
    rows = []
    okall = True
    for rel, rank in (('<', {count_atom: 0, limit_atom: 1}), ('=', {count_atom: 0, limit_atom: 0}),
                      ('>', {count_atom: 1, limit_atom: 0})):
        assume = {}
        free = []
        for a in cond_atoms(term):
            if a[0] == 'cmp' and a[1] in ('is', 'isnot') and a[3] == ('const', None):
                assume[a] = (a[1] == 'isnot')
            elif not (a[0] == 'cmp' and a[2] in rank and a[3] in rank) and a not in free:
                free.append(a)    # any other conjunct/disjunct: the answer must not depend on it
        if len(free) > 8:
            raise AnalysisError('too many atoms in limit test %s' % T.show(term))
        import itertools
        vals = set()
        for bits in itertools.product((False, True), repeat=len(free)):
            asg = dict(assume)
            asg.update(zip(free, bits))
            try:
                vals.add(ordabs.evaluate(term, rank, asg))
            except ordabs.Unknown as e:
                raise AnalysisError('cannot order-evaluate %s' % e)
            ctx.stats['orderings_enumerated'] += 1
        v = vals.pop() if len(vals) == 1 else ('depends on ' + ', '.join(T.show(a)[:30] for a in free))
        rows.append('%s:%s' % (rel, v))
        if v is not (rel != '<'):
            okall = False
    ctx.check(okall, label, 'count vs limit orderings %s' % ' '.join(rows),
              'limit test %s is not "count >= limit": %s' % (T.show(term), ' '.join(rows)), f, node)


def _find_cmp(term, attr):
    for s in T.subterms(term):
        if isinstance(s, tuple) and s and s[0] == 'cmp' and s[1] in ('<', '<=', '==', '!=') and attr in T.show(s):
            return s
    return None


@rule('C05.c', min_instances=4)
def reached_means_ge(ctx):
    """'limit reached' is count >= limit in Terminated (base, ensemble), EvaluationLimits and the wrappers"""
    for anchor, label in ((AS + '.Terminated', 'AbstractSolver.Terminated'),
                          ('mystic.abstract_ensemble_solver:AbstractEnsembleSolver.Terminated', 'AbstractEnsembleSolver.Terminated')):
        f = ctx.func(anchor)
        done = set()
        for fired, notfired, msg, p in _terminated_paths(ctx, f, None):
            for kind, tt, node in fired + notfired:
                if kind in ('maxfun', 'maxiter') and (kind, id(node)) not in done:
                    done.add((kind, id(node)))
                    c = _find_cmp(tt, '._' + kind)
                    ctx.need(c is not None, 'no comparison in %s' % T.show(tt))
                    a, b_ = c[2], c[3]
                    limit = a if ('._' + kind) in T.show(a) else b_
                    count = b_ if limit is a else a
                    want = '_fcalls' if kind == 'maxfun' else 'generations'
                    ctx.check(want in T.show(count) or (kind == 'maxfun' and 'evaluations' in T.show(count)), label,
                              '%s is compared with %s' % (kind, T.show(count)),
                              'the %s limit is compared with %s, not with the matching counter' % (kind, T.show(count)), f, node)
                    _reached_means_ge(ctx, tt, count, limit, f, node, label + '#' + kind)
    # EvaluationLimits termination condition
    f = ctx.func('mystic.termination:EvaluationLimits._EvaluationLimits')
    tests = [n for n in walk_no_nested(f.node) if isinstance(n, ast.If)]
    ctx.need(tests, 'EvaluationLimits has no test')
    b = T.Builder()
    n_ok = 0
    for st in f.node.body:   # gens = inst.generations ; eval = inst._fcalls[0]
        if isinstance(st, ast.Assign) and isinstance(st.value, (ast.Attribute, ast.Subscript)):
            b.exec_stmt(st)
    for test in tests:
        tt = T.simp(b.t(test.test))
        for atom in cond_atoms(tt):
            if atom[0] == 'cmp' and atom[1] in ('<', '<='):
                s = T.show(atom)
                if 'maxfun' in s or 'maxiter' in s:
                    lim = atom[2] if ('maxfun' in T.show(atom[2]) or 'maxiter' in T.show(atom[2])) else atom[3]
                    cnt = atom[3] if lim is atom[2] else atom[2]
                    kind = 'maxfun' if 'maxfun' in T.show(lim) else 'maxiter'
                    want = ('_fcalls', 'evaluations') if kind == 'maxfun' else ('generations',)
                    ctx.check(any(w in T.show(cnt) for w in want), 'EvaluationLimits#' + kind,
                              '%s compared with %s' % (kind, T.show(cnt)),
                              'EvaluationLimits compares %s with %s' % (kind, T.show(cnt)), f, test)
                    _reached_means_ge(ctx, atom, cnt, lim, f, test, 'EvaluationLimits#' + kind)
                    n_ok += 1
    ctx.need(n_ok >= 2, 'EvaluationLimits: expected two limit comparisons, found %d' % n_ok)


WRAPPERS = ['mystic.scipy_optimize:fmin', 'mystic.scipy_optimize:fmin_powell',
            'mystic.differential_evolution:diffev', 'mystic.ensemble:lattice',
            'mystic.ensemble:buckshot', 'mystic.ensemble:sparsity']


def _warnflag_chain(ctx, f):
    """returns [(test term, value)] of the if/elif chain assigning warnflag, plus initial value"""
    b = T.Builder()
    init = None
    chain = []
    for st in f.node.body:
        if isinstance(st, ast.Assign):
            if len(st.targets) == 1 and isinstance(st.targets[0], ast.Name) and st.targets[0].id == 'warnflag':
                init = const_value(st.value, '?')
            # substitute only simple attribute reads of the solver (fcalls = solver.evaluations)
            if isinstance(st.value, ast.Attribute):
                b.exec_stmt(st)
        elif isinstance(st, ast.If) and contains_node(st, lambda n: isinstance(n, ast.Name) and n.id == 'warnflag'
                                                     and isinstance(n.ctx, ast.Store)):
            cur = st
            while True:
                val = None
                for s2 in cur.body:
                    if isinstance(s2, ast.Assign) and isinstance(s2.targets[0], ast.Name) and s2.targets[0].id == 'warnflag':
                        val = const_value(s2.value, '?')
                chain.append((T.simp(b.t(cur.test)), val, cur))
                if len(cur.orelse) == 1 and isinstance(cur.orelse[0], ast.If):
                    cur = cur.orelse[0]
                else:
                    for s2 in cur.orelse:
                        if isinstance(s2, ast.Assign) and isinstance(s2.targets[0], ast.Name) and s2.targets[0].id == 'warnflag':
                            chain.append((None, const_value(s2.value, '?'), s2))
                    break
            break
    return init, chain


@rule('C05.g', min_instances=6)
def wrappers_warnflag(ctx):
    """wrappers (every return path of the full output, locals substituted, pure helpers expanded): warnflag is 1 exactly where evaluations >= solver._maxfun is known, 2 where that is known false and generations >= solver._maxiter is known, 0 where both are known false"""
    for anchor in WRAPPERS:
        f = ctx.func(anchor)
        rts = return_terms(f.node)
        ctx.need(rts, '%s: no return value' % f.qualname)
        n = 0
        bad = None
        for p, term, b, conds in rts:
            elems = flatten_seq(term)
            if not elems or len(elems) < 5:
                continue
            sol = elems[0][1] if elems[0][0] == 'attr' else None      # the solver whose state is reported
            if sol is None:
                continue
            wf = expand_helpers(ctx, f, elems[4])
            evals = [('attr', sol, 'evaluations'), ('sub', ('attr', sol, '_fcalls'), T.num(0))]
            gens = [('attr', sol, 'generations')]
            c1 = [T.mk_cmp('>=', e_, ('attr', sol, '_maxfun')) for e_ in evals]
            c2 = [T.mk_cmp('>=', g_, ('attr', sol, '_maxiter')) for g_ in gens]
            for cl, leaf in T.cases(T.simp(wf)):
                n += 1
                lits = [(c, tr) for c, tr, _ in conds] + list(cl)
                know = dict(lits)
                k1 = [decided(c, lits) for c in c1 if any(c in T.subterms(l) for l, _ in lits)]
                k2 = [decided(c, lits) for c in c2 if any(c in T.subterms(l) for l, _ in lits)]
                v = T.poly_const(leaf)
                if v == 1:
                    ok_ = True in k1
                elif v == 2:
                    ok_ = False in k1 and True in k2
                elif v == 0:
                    ok_ = False in k1 and False in k2
                else:
                    ok_ = False
                if not ok_:
                    bad = (p, leaf, know)
        ctx.need(n >= 3, '%s: warnflag cases not recognised in the full output (found %d)' % (f.qualname, n))
        ctx.stats['terms_compared'] += n
        ctx.check(bad is None, f.qualname, '%d cases: warnflag 1 <- evals>=maxfun, 2 <- gens>=maxiter (else), 0 otherwise' % n,
                  'warnflag is %s where the path knows %s' % (T.show(bad[1]) if bad else '', [(T.show(c)[:50], v) for c, v in list((bad[2] if bad else {}).items())[:4]]),
                  f, bad[0].exit_node if bad else f.node)


def _split_lit(c, tr):
    """{atom: truth} entailed by the literal (c, tr): negations stripped, a true conjunction / false disjunction split"""
    while isinstance(c, tuple) and c and c[0] == 'not':
        c, tr = c[1], not tr
    out = {c: tr}
    if c[0] == 'and' and tr:
        for x in c[1:]:
            out.update(_split_lit(x, True))
    if c[0] == 'or' and not tr:
        for x in c[1:]:
            out.update(_split_lit(x, False))
    return out


@rule('C05.e', min_instances=2)
def solve_loops_on_step(ctx):
    """_Solve: each `while not stop` loop reassigns stop only from self.Step(...); collapse loop re-enters only on a non-empty Collapse()"""
    f = ctx.func(AS + '._Solve')
    sn = selfname_of(f)
    # (the stepping loop may live in a nested helper of _Solve that is called from it)
    scopes = [f.node] + [g.node for q, g in f.module.funcs.items() if g.parent is f]
    loops = [n for sc in scopes for n in walk_no_nested(sc) if isinstance(n, ast.While)]
    inner = [w for w in loops if isinstance(w.test, ast.UnaryOp) and isinstance(w.test.op, ast.Not) and isinstance(w.test.operand, ast.Name)]
    ctx.need(inner, 'no `while not <stop>` loop in _Solve')
    for w in inner:
        var = w.test.operand.id
        stores = [s for s in walk_no_nested(w) if isinstance(s, (ast.Assign, ast.AugAssign)) and var in assigned_names(s)]
        good = bool(stores) and all(isinstance(s, ast.Assign) and self_call(s.value, 'Step', sn) for s in stores)
        has_break = any(isinstance(n, ast.Break) for n in walk_no_nested(w))
        ctx.check(good and not has_break, 'AbstractSolver._Solve', 'loop variable %s comes only from self.Step(...)' % var,
                  'the solve loop at line %d can end (or continue) on something other than the value returned by Step' % w.lineno, f, w)
    outer = [w for w in loops if w not in inner]
    for w in outer:
        tt = t(w.test)
        good = tt[0] == 'and' and any(x[0] == 'call' and T.show(x[1]).endswith('.Collapse') for x in tt[1:]) and \
            any(T.show(x).endswith('._collapse') for x in tt[1:])
        ctx.check(good, 'AbstractSolver._Solve#collapse', 'collapse loop guarded by %s' % T.show(tt),
                  'the collapse loop re-enters on %s rather than on (self._collapse and a non-empty Collapse())' % T.show(tt), f, w)


def _final_attr_cases(ctx, f, attr):
    """[(literals, leaf, path)] for the final value of self.<attr> over all normal paths of f;
    literals = path conditions + conditions of conditional expressions, as (term, truth)"""
    sn = selfname_of(f)

    def rel(n):
        return isinstance(n, ast.Attribute) and n.attr in ('_maxiter', '_maxfun')
    out = []
    for p in enumerate_paths(f.node, relevant=rel, unroll=(0, 1)):
        if p.exit == 'raise':
            continue
        b = T.Builder()
        lits = []
        history = []          # every value the attribute held on this path (an overwritten conditional store still decides the case)
        for e in p.events:
            if e[0] == 'cond':
                c_, tr_ = T.simp(b.t(e[1])), e[2]
                while isinstance(c_, tuple) and c_ and c_[0] == 'not':
                    c_, tr_ = c_[1], not tr_
                if isinstance(c_, tuple) and c_ and c_[0] == 'cmp' and c_[1] == 'isnot':
                    c_, tr_ = ('cmp', 'is') + c_[2:], not tr_
                lits.append((c_, tr_))
            elif e[0] == 'stmt':
                st = e[1]
                if isinstance(st, ast.AugAssign) and is_self_attr(st.target, None, sn):
                    cur = b.t(st.target)
                    v = b.t(st.value)
                    if isinstance(st.op, ast.Add):
                        b.env['%s.%s' % (sn, st.target.attr)] = T.padd(cur, v)
                    elif isinstance(st.op, ast.Sub):
                        b.env['%s.%s' % (sn, st.target.attr)] = T.padd(cur, T.pneg(v))
                    else:
                        b.env['%s.%s' % (sn, st.target.attr)] = ('opaque', unparse(st))
                else:
                    b.exec_stmt(st)
                cur_ = b.env.get('%s.%s' % (sn, attr))
                if cur_ is not None and (not history or history[-1] != cur_):
                    history.append(cur_)
        final = b.env.get('%s.%s' % (sn, attr))
        if final is None:
            out.append((tuple(lits), None, p))
            continue
        # the path conditions may test the stored value itself (`self._maxiter is not None` after a conditional store): the
        # conditionals of value and conditions are resolved together, so each case sees its own branch in both
        joint = ('tuple', T.simp(final)) + tuple(t_ for t_, _ in lits) + tuple(T.simp(h) for h in history)
        for cl, leaf in T.cases(joint):
            spec = []
            for (t_, tr_), t2 in zip(lits, leaf[2:2 + len(lits)]):
                t2 = T.simp(t2)
                while isinstance(t2, tuple) and t2 and t2[0] == 'not':
                    t2, tr_ = t2[1], not tr_
                if isinstance(t2, tuple) and t2 and t2[0] == 'cmp' and t2[1] == 'isnot':
                    t2, tr_ = ('cmp', 'is') + t2[2:], not tr_
                spec.append((t2, tr_))
            out.append((tuple(spec) + cl, T.simp(leaf[1]), p))
    ctx.stats['paths_enumerated'] += len(out)
    return out


def _lit_says(lits, term, truth):
    return any(t_ == term and tr == truth for t_, tr in lits)


def _is_none_fact(lits, name):
    """do the literals establish `name is None` ?"""
    n = ('name', name)
    return _lit_says(lits, T.mk_cmp('is', n, ('const', None)), True) or _lit_says(lits, T.mk_cmp('isnot', n, ('const', None)), False) or \
        _lit_says(lits, T.mk_cmp('==', n, ('const', None)), True)


def _truthy(lits, name):
    v = [tr for t_, tr in lits if t_ == ('name', name)]
    return v[-1] if v else None


@rule('C05.f', min_instances=6)
def limit_bookkeeping(ctx):
    """new=True offsets _maxiter by generations and _maxfun by evaluations and stores the '*' sentinel exactly when the limit is None; '*' and None resolve to default (+ current count)"""
    f = ctx.func(AS + '.SetEvaluationLimits')
    sn = selfname_of(f)
    S = ('name', sn)
    for attr, param, counter, other, kw in (('_maxiter', 'generations', 'generations', 'evaluations', 'maxiter'),
                                           ('_maxfun', 'evaluations', 'evaluations', 'generations', 'maxfun')):
        given = [('name', param), ('sub', ('name', 'kwds'), ('const', kw))]
        cs = _final_attr_cases(ctx, f, attr)
        ctx.need(cs, 'SetEvaluationLimits: no path stores %s' % attr)
        bad = None
        n_new = n_plain = n_star = 0
        in_kw = T.mk_cmp('in', ('const', kw), ('name', 'kwds'))
        for lits, leaf, p in cs:
            if leaf is None:
                bad = bad or ('a path leaves %s unset' % attr, p)
                continue
            # which of the two spellings carries the limit on this path: the backward-compatible keyword wins when present
            mine = [given[1]] if _lit_says(lits, in_kw, True) else [given[0]] if _lit_says(lits, in_kw, False) else given
            newv = _truthy(lits, 'new')
            if newv is None:
                bad = bad or ('the value of %s does not depend on `new` on path %s' % (attr, p.describe(4)), p)
                continue
            if not newv:
                n_plain += 1
                if leaf not in mine:
                    bad = bad or ('without new=True %s becomes %s instead of the given limit' % (attr, T.show(leaf)), p)
                continue
            if leaf == ('const', '*'):
                n_star += 1
                if not any(_lit_says(lits, T.mk_cmp('is', g, ('const', None)), True) or _lit_says(lits, T.mk_cmp('==', g, ('const', None)), True) for g in mine):
                    bad = bad or ('with new=True the "*" (use-default) sentinel is stored for %s although the given limit (%s) is not known to be None '
                                  '(a limit of 0, or one given as %s=, is silently replaced by the default budget)' % (attr, ' / '.join(T.show(g) for g in mine), kw), p)
                continue
            n_new += 1
            want = [T.simp(T.padd(g, ('attr', S, counter))) for g in mine]
            if leaf not in want:
                bad = bad or ('with new=True %s becomes %s, expected the given limit + self.%s' % (attr, T.show(leaf), counter), p)
        ctx.need(bad or (n_new and n_star and n_plain), 'SetEvaluationLimits: cases for %s not recognised (new=%d star=%d plain=%d)' % (attr, n_new, n_star, n_plain))
        if bad:
            ctx.bad('SetEvaluationLimits#' + attr, bad[0], f, f.node, statement='%s bookkeeping' % attr)
        else:
            ctx.ok('SetEvaluationLimits#' + attr, '%d cases: plain -> given limit; new -> limit + self.%s; "*" iff the limit is None' % (len(cs), counter), f, f.node)
    # _SetEvaluationLimits: None -> default ; "*" -> default + current count ; anything else untouched
    g = ctx.func(AS + '._SetEvaluationLimits')
    sn = selfname_of(g)
    S = ('name', sn)
    for attr, scale, otherscale, counter in (('_maxiter', 'iterscale', 'evalscale', 'generations'), ('_maxfun', 'evalscale', 'iterscale', 'evaluations')):
        cur = ('attr', S, attr)
        cs = _final_attr_cases(ctx, g, attr)
        seen = set()
        bad = None
        for lits, leaf, p in cs:
            is_none = _lit_says(lits, T.mk_cmp('is', cur, ('const', None)), True)
            is_star = _lit_says(lits, T.mk_cmp('==', cur, ('const', '*')), True)
            if leaf is None or leaf == cur:
                if is_none or is_star:
                    bad = bad or ('%s stays unresolved (None/"*") on a path' % attr, p)
                seen.add('keep')
                continue
            sh = T.show(leaf)
            if is_none:
                seen.add('none')
                if scale not in sh or otherscale in sh or 'generations' in sh or 'evaluations' in sh:
                    bad = bad or ('default for %s resolves to %s' % (attr, sh), p)
            elif is_star:
                seen.add('star')
                counter_t = ('attr', S, counter)
                rest = T.simp(T.padd(leaf, T.pneg(counter_t)))
                rs = T.show(rest)
                if scale not in rs or otherscale in rs or 'generations' in rs or 'evaluations' in rs:
                    bad = bad or ('the "*" sentinel for %s resolves to %s, expected default + self.%s' % (attr, sh, counter), p)
            else:
                bad = bad or ('%s is overwritten with %s although it was set' % (attr, sh), p)
        ctx.need(bad or {'none', 'star'} <= seen, '_SetEvaluationLimits: cases for %s not recognised (%s)' % (attr, sorted(seen)))
        if bad:
            ctx.bad('_SetEvaluationLimits#' + attr, bad[0], g, g.node, statement='%s default resolution' % attr)
        else:
            ctx.ok('_SetEvaluationLimits#' + attr, 'None -> N*nPop*%s ; "*" -> that + self.%s ; otherwise kept' % (scale, counter), g, g.node)
    # overrides only change the scale factors
    base = ctx.cls(AS)
    for m in ctx.model.overriders(base, '_SetEvaluationLimits'):
        if m is g:
            continue
        ctx.touch(m)
        calls = calls_where(m.node, lambda c: isinstance(c.func, ast.Attribute) and c.func.attr == '_SetEvaluationLimits')
        body = [s for s in m.node.body if not (isinstance(s, ast.Expr) and isinstance(s.value, ast.Constant))]
        good = len(calls) == 1 and [unparse(a) for a in calls[0].args] == ['iterscale', 'evalscale'] and \
            all(isinstance(s, (ast.Expr, ast.Return)) for s in body)
        k = ctx.model.enclosing_class(m)
        ctx.check(good, '%s._SetEvaluationLimits' % k.name, 'delegates to the base with (iterscale, evalscale)',
                  '%s._SetEvaluationLimits no longer just forwards its scale factors' % k.name, m, m.node)


@rule('C05.i', min_instances=3)
def exit_flag_writers(ctx):
    """_EARLYEXIT is written only by __init__, Solve (reset) and the signal handler's exit branch"""
    allowed = {'mystic.abstract_solver:AbstractSolver.__init__', 'mystic.abstract_solver:AbstractSolver.Solve',
               'mystic._signal:Handler.__call__', 'mystic._scipyoptimize:'}
    n = 0
    for m in ctx.model.modules.values():
        for q, fi in m.funcs.items():
            for node in walk_no_nested(fi.node):
                if isinstance(node, ast.Attribute) and node.attr == '_EARLYEXIT' and isinstance(node.ctx, (ast.Store, ast.Del)):
                    n += 1
                    ctx.touch(fi)
                    okw = fi.anchor in allowed or fi.anchor.startswith('mystic._scipyoptimize:')
                    if fi.anchor.endswith('Handler.__call__'):
                        gs = guards_of(enclosing_stmt(node), stop=fi.node)
                        okw = any("'exit'" in unparse(g[0]) and g[1] for g in gs)
                    if fi.anchor.endswith('AbstractSolver.Solve'):
                        st = enclosing_stmt(node)
                        okw = isinstance(st, ast.Assign) and const_value(st.value, 1) is False and \
                            st.lineno < min([c.lineno for c in calls_where(fi.node, lambda c: self_call(c, '_Solve'))] or [0])
                    ctx.check(okw, fi.qualname, 'allowed writer of the exit flag',
                              '%s writes the exit-request flag' % fi.anchor, fi, node)
    ctx.need(n >= 3, 'expected >= 3 writers of _EARLYEXIT, found %d' % n)


@rule('C05.j', min_instances=1)
def finalize_on_stop(ctx):
    """in Step, a truthy Terminated() after _Step leads to Finalize()"""
    f = ctx.func(AS + '.Step')
    sn = selfname_of(f)
    steps = calls_where(f.node, lambda c: self_call(c, '_Step', sn))
    ctx.need(steps, 'no _Step call')
    st = enclosing_stmt(steps[0])
    blk = parent(st)
    body = blk.body if st in getattr(blk, 'body', []) else blk.orelse
    after = body[body.index(st) + 1:]
    good = False
    for a in after:
        if isinstance(a, ast.If) and _is_terminated_call(a.test, sn) and \
                calls_where(ast.Module(body=a.body, type_ignores=[]), lambda c: self_call(c, 'Finalize', sn)):
            good = True
            break
        if calls_where(a, lambda c: self_call(c, 'Finalize', sn)) and not isinstance(a, ast.If):
            good = True
            break
    ctx.check(good, 'AbstractSolver.Step', 'Finalize() follows a truthy Terminated() after _Step',
              'after _Step a terminated solver is no longer finalized', f, st)


@rule('C05.k', min_instances=6)
def wrappers_pass_the_limits_on(ctx):
    """every wrapper hands its own maxiter / maxfun to <solver>.SetEvaluationLimits on every path before Solve (otherwise the caller's limits are never in force and warnflag is computed against the defaults)"""
    for anchor in WRAPPERS:
        f = ctx.func(anchor)
        r = wrapper_forwarding(ctx, f)
        ctx.need(r['paths'] >= 1, '%s: no path reaches Solve' % f.qualname)
        ctx.stats['paths_enumerated'] += r['paths']
        want = [('name', 'maxiter'), ('name', 'maxfun')]
        bad = None
        for p, seen, lits in r['per_path']:
            calls = seen.get('SetEvaluationLimits', [])
            ok_ = any((a[:2] == want) or (k.get('generations') == want[0] and k.get('evaluations') == want[1]) for _, a, k, _ in calls)
            if not ok_:
                bad = p
        ctx.check(bad is None, f.qualname + '#limits', 'SetEvaluationLimits(maxiter, maxfun) on all %d paths to Solve' % r['paths'],
                  '%s reaches Solve without handing its maxiter / maxfun to the solver (path %s)' % (f.qualname, bad.describe(5) if bad else ''), f, f.node)


@rule('C05.l', min_instances=3)
def evaluation_count_is_cumulative(ctx):
    """the count Terminated compares with the evaluation limit is the total over all Solve calls: every _decorate_objective rebinds the counter cell to wrap_function(..., start=<previous count>) (a counter that restarts makes a solver at its limit run on)"""
    from .c04 import rebinding_carries
    n = 0
    for anchor in ('mystic.abstract_solver:AbstractSolver._decorate_objective',
                   'mystic.differential_evolution:DifferentialEvolutionSolver._decorate_objective',
                   'mystic.scipy_optimize:NelderMeadSimplexSolver._decorate_objective'):
        f = ctx.func(anchor)
        stores = [enclosing_stmt(x) for x in walk_no_nested(f.node)
                  if isinstance(x, ast.Attribute) and x.attr == '_fcalls' and isinstance(x.ctx, ast.Store)]
        ctx.need(stores, '%s no longer binds the counter cell' % f.qualname)
        for st in stores:
            n += 1
            ctx.check(rebinding_carries(f, st), f.qualname + '#counter', 'counter cell continues from self._fcalls[0]',
                      're-decorating the objective restarts the evaluation counter, so the evaluation limit no longer bounds the total', f, st)
    ctx.need(n >= 3, 'expected 3 counter rebindings')


@rule('C05.m', min_instances=1)
def limits_as_a_termination_condition(ctx):
    """the limits can also be given as the termination condition EvaluationLimits(generations, evaluations): it answers "satisfied" exactly when evaluations >= the evaluation limit or generations >= the generation limit, None meaning no limit and 0 meaning 0 (truth-table equivalence with the documented predicate; shared with C10.c) - a limit of 0 treated as "none" lets the solver iterate on after the initial evaluation although the condition holds"""
    from .c10 import primitive_predicates
    primitive_predicates(ctx, only=('EvaluationLimits',))


@rule('C05.n', min_instances=2)
def only_a_decorated_solver_is_marked_live(ctx):
    """who may set <solver>._live = True: the _decorate_objective family (which stores the decorated objective in the same breath) and, as a documented hack, the ensemble closures _step / _solve for a member found 'not live but terminated'. A member that has never run also looks like that when a limit is 0 (0 >= 0): forced live, its Step skips the decoration and calls the objective None - Solve raises instead of returning. Every store of True outside the decorators is therefore guarded by `<solver>._cost[0] is not None` (the member has a decorated objective)"""
    n = 0
    for mname, m in sorted(ctx.model.modules.items()):
        if mname.startswith('mystic.tests'):
            continue
        for q, fi in sorted(m.funcs.items()):
            if fi.name == '_decorate_objective':
                continue
            for st in stmts_of(fi.node):
                if not (isinstance(st, ast.Assign) and len(st.targets) == 1 and isinstance(st.targets[0], ast.Attribute) and st.targets[0].attr == '_live'
                        and isinstance(st.value, ast.Constant) and st.value.value is True):
                    continue
                n += 1
                ctx.touch(fi)
                obj = unparse(st.targets[0].value)
                want = '%s._cost[0] is not None' % obj
                local = {}
                for s2 in stmts_of(fi.node):
                    if s2.lineno < st.lineno and isinstance(s2, ast.Assign) and len(s2.targets) == 1 and isinstance(s2.targets[0], ast.Name):
                        local[s2.targets[0].id] = s2.value

                def conjuncts(e, depth=0):
                    if isinstance(e, ast.BoolOp) and isinstance(e.op, ast.And):
                        return [c for v in e.values for c in conjuncts(v, depth)]
                    if isinstance(e, ast.Compare) and len(e.ops) == 1 and isinstance(e.ops[0], ast.Is) and isinstance(e.comparators[0], ast.Constant) and e.comparators[0].value is True:
                        return conjuncts(e.left, depth)
                    if isinstance(e, ast.Name) and e.id in local and depth < 4:
                        return conjuncts(local[e.id], depth + 1)
                    return [e]
                have = [' '.join(unparse(c).split()) for t_, tr, _ in guards_of(st) if tr for c in conjuncts(t_)]
                ok_ = want in have or ('%s._cost[0] is None' % obj) in [' '.join(unparse(t_).split()) for t_, tr, _ in guards_of(st) if not tr]
                ctx.check(ok_, '%s#%s._live=True' % (fi.qualname, obj), 'marked live only when it has a decorated objective (%s)' % want,
                          '%s forces %s._live = True without knowing that the solver has a decorated objective (%s): a member that never ran but already meets a limit of 0 is stepped with the objective None, '
                          'and Solve raises TypeError instead of returning' % (fi.qualname, obj, want), fi, st)
    if n == 0:        # the hack is gone: nothing outside the decorators marks a solver live
        for k_ in range(2):
            ctx.ok('no-forced-live#%d' % k_, 'no function outside the _decorate_objective family stores <solver>._live = True', ctx.func(AS + '.Step'), ctx.func(AS + '.Step').node)


@rule('C05.o', min_instances=5)
def the_compared_count_is_the_number_of_calls(ctx):
    """Terminated compares `evaluations` with the evaluation limit: the property getters read the solver's own counter cell and log (shared with C04.c) - a getter that answers with the length of the evaluation monitor counts the records of a monitor that was attached with data in it (SetEvaluationLimits(evaluations=25, new=True) then allows 25 + the old records)"""
    from .c04 import getters_read_counter_and_log
    getters_read_counter_and_log(ctx)


@rule('C05.p', min_instances=5)
def a_monitor_swap_does_not_move_the_generation_count(ctx):
    """the generation limit bounds the total: installing a generation monitor - also the very monitor already in use, also mid-run on a solver that logs lazily (Powell) - leaves `generations` at the number of completed iterations (protocol simulation shared with C04.l)"""
    from .c04 import monitor_swap_keeps_the_generation_count
    monitor_swap_keeps_the_generation_count(ctx)


@rule('C05.q', min_instances=1)
def a_time_limit_of_zero_is_a_limit(ctx):
    """TimeLimits(seconds): the limit the predicate compares the elapsed time with is the caller's own `seconds` (its total_seconds() / abs()); it is replaced by "no limit" (inf) only behind a test that the value IS None. A default decided by truthiness (`if not seconds`) turns the legal limits 0, 0.0 and timedelta(0) into "never": the solver iterates on although `elapsed >= 0` holds from the start"""
    f = ctx.func('mystic.termination:TimeLimits')
    p0 = f.args()[0]
    n = 0
    for st in stmts_of(f.node):
        if not isinstance(st, ast.Assign):
            continue
        tg = st.targets[0]
        base = tg.value if isinstance(tg, ast.Subscript) else tg
        if not (isinstance(base, ast.Name) and base.id == 'delta'):
            continue
        consts = [x for x in ast.walk(st.value) if isinstance(x, ast.Name) and x.id == 'inf'] + \
                 [x for x in ast.walk(st.value) if isinstance(x, ast.Call) and unparse(x).replace('"', "'") == "float('inf')"]
        if not consts:
            continue
        n += 1
        gs = guards_of(st)

        def is_none_test(t_, tr):
            t_ = t_
            while isinstance(t_, ast.UnaryOp) and isinstance(t_.op, ast.Not):
                t_, tr = t_.operand, not tr
            return isinstance(t_, ast.Compare) and len(t_.ops) == 1 and isinstance(t_.comparators[0], ast.Constant) and t_.comparators[0].value is None and \
                ((isinstance(t_.ops[0], ast.Is) and tr) or (isinstance(t_.ops[0], ast.IsNot) and not tr))

        def truthiness(t_):
            while isinstance(t_, ast.UnaryOp) and isinstance(t_.op, ast.Not):
                t_ = t_.operand
            if isinstance(t_, ast.BoolOp):
                return any(truthiness(v) for v in t_.values)
            return (isinstance(t_, ast.Name) and t_.id == p0) or (isinstance(t_, ast.Subscript) and isinstance(t_.value, ast.Name) and t_.value.id == 'delta')
        ctx.check(any(is_none_test(t_, tr) for t_, tr, _ in gs) and not any(truthiness(t_) for t_, tr, _ in gs), 'TimeLimits#no-limit', '"no limit" only where the value is None',
                  'TimeLimits replaces the limit by inf under the test(s) %s: a limit of 0 (or 0.0, timedelta(0)) is falsy and becomes "never", so the solver keeps iterating although elapsed >= 0 holds'
                  % [' '.join(unparse(t_).split()) for t_, tr, _ in gs], f, st)
    ctx.need(n >= 1, 'TimeLimits: the "no limit" default is not found')
