"""E7 (counter lattice): abstract simulation of the generation bookkeeping.

State = (L, E): L = number of records in the step monitor, E = None when the
energy history is synchronised with the step monitor, else the length of the
decoupled energy history.  ``generations`` is read off the class's own property
getter (``max(0, len(X)-1)`` with X the step monitor or the energy history).
The transition relation is extracted from the source of ``_Step`` / ``Finalize``:
a call ``self._stepmon(...)`` is L+1, ``self.energy_history = None`` is E:=None,
``self.energy_history = self.energy_history + [v]`` is E:=len+1; branch tests on
``len(self._stepmon)``, ``self.generations``, ``self.energy_history != None``
are decided by the state, every other test is explored both ways.
"""
import ast

from ..srcmodel import AnalysisError, unparse, walk_no_nested
from ..paths import enumerate_paths
from .common import self_call, is_self_attr, selfname_of, calls_where


def generations_source(model, cls):
    """'stepmon' | 'energy_history' : what the class's generations getter measures"""
    pr = model.lookup_prop(cls, 'generations')
    if not pr or pr[0] is None:
        raise AnalysisError('no generations property on %s' % cls.name)
    g = pr[0]
    rets = [n for n in walk_no_nested(g.node) if isinstance(n, ast.Return)]
    if len(rets) != 1:
        raise AnalysisError('generations getter of %s has %d returns' % (cls.name, len(rets)))
    txt = ''.join(unparse(rets[0].value).split())
    sn = selfname_of(g)
    if txt == 'max(0,len(%s._stepmon)-1)' % sn:
        return 'stepmon', g
    if txt == 'max(0,len(%s.energy_history)-1)' % sn:
        return 'energy_history', g
    return txt, g


def gens(state, source):
    L, E = state
    n = L if (source == 'stepmon' or E is None) else E
    return max(0, n - 1)


def _relevant(sn):
    def rel(n):
        if isinstance(n, ast.Call) and (self_call(n, '_stepmon', sn)):
            return True
        if isinstance(n, ast.Attribute) and n.attr in ('energy_history', '_energy_history', '_stepmon', 'generations', '_live'):
            return True
        if isinstance(n, ast.Call) and isinstance(n.func, ast.Name) and n.func.id == 'callback':
            return True
        return False
    return rel


def _cond_truth(test, state, source, sn, live):
    """truth of a branch test under the abstract state, or None if unconstrained.
    Reading the *property* ``energy_history`` never yields None (its getter falls back to the
    step monitor's list - checked by C04.c), so ``self.energy_history != None`` is always true;
    only the stored attribute ``_energy_history`` tells whether the history is decoupled."""
    if isinstance(test, ast.BoolOp):
        vals = [_cond_truth(v, state, source, sn, live) for v in test.values]
        if isinstance(test.op, ast.And):
            if any(v is False for v in vals):
                return False
            return True if all(v is True for v in vals) else None
        if any(v is True for v in vals):
            return True
        return False if all(v is False for v in vals) else None
    if isinstance(test, ast.UnaryOp) and isinstance(test.op, ast.Not):
        v = _cond_truth(test.operand, state, source, sn, live)
        return None if v is None else (not v)
    txt = ''.join(unparse(test).split())
    L, E = state
    if txt == 'len(%s._stepmon)' % sn:
        return L > 0
    if txt == '%s.generations' % sn:
        return gens(state, source) > 0
    if txt in ('%s.energy_history!=None' % sn, '%s.energy_historyisnotNone' % sn):
        return True
    if txt in ('%s.energy_history==None' % sn, '%s.energy_historyisNone' % sn):
        return False
    if txt in ('%s._energy_history!=None' % sn, '%s._energy_historyisnotNone' % sn):
        return E is not None
    if txt in ('%s._energy_history==None' % sn, '%s._energy_historyisNone' % sn):
        return E is None
    if txt == '%s._live' % sn:
        return live
    for bad in ('_stepmon', 'generations', 'energy_history'):
        if bad in txt:
            raise AnalysisError('unrecognised bookkeeping test `%s`' % unparse(test))
    return None


def run_path(path, state, source, sn, live=True):
    """returns (new_state, n_stepmon_calls, n_callbacks, events) or None if the path is infeasible from state"""
    L, E = state
    nrec = ncb = 0
    log = []
    for e in path.events:
        if e[0] == 'cond':
            tv = _cond_truth(e[1], (L, E), source, sn, live)
            if tv is not None and tv != e[2]:
                return None
        elif e[0] in ('stmt', 'partial'):
            st = e[1]
            # order inside one statement: value first
            recs = calls_where(st, lambda c: self_call(c, '_stepmon', sn), include_lambda=False)
            for c in recs:
                L += 1
                nrec += 1
                log.append(('record', c))
            cbs = calls_where(st, lambda c: isinstance(c.func, ast.Name) and c.func.id == 'callback', include_lambda=False)
            ncb += len(cbs)
            for c in cbs:
                log.append(('callback', c))
            if isinstance(st, ast.Assign) and len(st.targets) == 1 and \
                    is_self_attr(st.targets[0], None, sn) and st.targets[0].attr in ('energy_history', '_energy_history'):
                v = st.value
                if isinstance(v, ast.Constant) and v.value is None:
                    E = None
                elif isinstance(v, ast.BinOp) and isinstance(v.op, ast.Add) and is_self_attr(v.left, 'energy_history', sn) \
                        and isinstance(v.right, ast.List):
                    cur = L if E is None else E
                    E = cur + len(v.right.elts)
                else:
                    raise AnalysisError('unrecognised energy-history update `%s`' % unparse(st))
                log.append(('history', st))
    return (L, E), nrec, ncb, log


class StepModel(object):
    def __init__(self, model, cls):
        self.model = model
        self.cls = cls
        self.source, self.getter = generations_source(model, cls)
        if self.source not in ('stepmon', 'energy_history'):
            raise AnalysisError('generations getter of %s returns `%s`' % (cls.name, self.source))
        self.step = model.lookup_method(cls, '_Step')
        self.fin = model.lookup_method(cls, 'Finalize')
        if self.step is None or self.fin is None:
            raise AnalysisError('no _Step/Finalize on %s' % cls.name)
        self.sn = selfname_of(self.step)
        self.step_paths = [p for p in enumerate_paths(self.step.node, relevant=_relevant(self.sn)) if p.exit != 'raise']
        self.fin_paths = [p for p in enumerate_paths(self.fin.node, relevant=_relevant(selfname_of(self.fin))) if p.exit != 'raise']

    def explore(self, max_L=6):
        """BFS over abstract states; returns list of transitions
        (op, before, after, delta_gens, nrec, ncb, path, log)"""
        start = (0, None)
        seen = {start}
        todo = [start]
        trans = []
        while todo:
            s = todo.pop(0)
            for op, paths, lives, sn in (('_Step', self.step_paths, (True,), self.sn),
                                         ('Finalize', self.fin_paths, (True, False), selfname_of(self.fin))):
                for live in lives:
                    for p in paths:
                        r = run_path(p, s, self.source, sn, live)
                        if r is None:
                            continue
                        s2, nrec, ncb, log = r
                        trans.append((op, s, s2, gens(s2, self.source) - gens(s, self.source), nrec, ncb, p, log, live))
                        if s2 not in seen and s2[0] <= max_L:
                            seen.add(s2)
                            todo.append(s2)
        return trans, seen
