"""E7 (counter lattice): abstract simulation of the generation bookkeeping.

State = (L, E): L = number of records in the step monitor, E = None when the
energy history is synchronised with the step monitor, else the length of the
decoupled energy history.  ``generations`` is read off the class's own property
getter (``max(0, len(X)-1)`` with X the step monitor or the energy history).
The transition relation is extracted from the source of ``_Step`` / ``Finalize``:
a call ``self._stepmon(...)`` is L+1, ``self.energy_history = None`` is E:=None,
``self.energy_history = self.energy_history + [v]`` is E:=len+1; branch tests on
``len(self._stepmon)``, ``self.generations``, ``self.energy_history != None``
are decided by the state, every other test is explored both ways.
"""
import ast

from ..srcmodel import AnalysisError, unparse, walk_no_nested
from ..paths import enumerate_paths
from .common import self_call, is_self_attr, selfname_of, calls_where


def generations_source(model, cls):
    """'stepmon' | 'energy_history' : what the class's generations getter measures"""
    pr = model.lookup_prop(cls, 'generations')
    if not pr or pr[0] is None:
        raise AnalysisError('no generations property on %s' % cls.name)
    g = pr[0]
    from .common import return_terms
    from .. import terms as T
    sn = selfname_of(g)
    rts = return_terms(g.node)
    if not rts:
        raise AnalysisError('generations getter of %s has no return' % cls.name)
    kinds = set()
    for p, term, b, conds in rts:
        k = T.show(term)
        if term[0] == 'call' and T.show(term[1]) == 'max' and len(term[2]) == 2 and T.num(0) in term[2]:
            other = [a for a in term[2] if a != T.num(0)][0]
            for log, name in ((('attr', ('name', sn), '_stepmon'), 'stepmon'), (('attr', ('name', sn), 'energy_history'), 'energy_history')):
                if other == T.simp(T.padd(('call', ('name', 'len'), (log,), ()), T.num(-1))):
                    k = name
        kinds.add(k)
    if len(kinds) != 1:
        return ' / '.join(sorted(kinds)), g
    return kinds.pop(), g


def gens(state, source):
    L, E = state
    n = L if (source == 'stepmon' or E is None) else E
    return max(0, n - 1)


def _relevant(sn, cond_names=()):
    def rel(n):
        if isinstance(n, ast.Call) and (self_call(n, '_stepmon', sn)):
            return True
        if isinstance(n, ast.Attribute) and n.attr in ('energy_history', '_energy_history', '_stepmon', 'generations', '_live'):
            return True
        if isinstance(n, ast.Assign) and len(n.targets) == 1 and isinstance(n.targets[0], ast.Name) and n.targets[0].id in cond_names:
            return True
        if isinstance(n, ast.Call) and isinstance(n.func, ast.Name) and n.func.id == 'callback':
            return True
        return False
    return rel


def _cond_truth(test, state, source, sn, live, builder=None):
    """truth of a branch test under the abstract state, or None if unconstrained.  The test is evaluated as a canonical
    term with the plain locals substituted (`unlogged = self._live and self._energy_history is not None; if unlogged:`).
    Reading the *property* ``energy_history`` never yields None (its getter falls back to the step monitor's list -
    checked by C04.c), so ``self.energy_history != None`` is always true; only the stored attribute
    ``_energy_history`` tells whether the history is decoupled."""
    from .. import terms as T
    tt = T.simp(builder.t(test)) if builder is not None else T.term(test)
    return _term_truth(tt, state, source, sn, live)


def _term_truth(tt, state, source, sn, live):
    from .. import terms as T
    S = ('name', sn)
    L, E = state
    k = tt[0] if isinstance(tt, tuple) and tt else None
    if k in ('and', 'or'):
        vals = [_term_truth(v, state, source, sn, live) for v in tt[1:]]
        if k == 'and':
            if any(v is False for v in vals):
                return False
            return True if all(v is True for v in vals) else None
        if any(v is True for v in vals):
            return True
        return False if all(v is False for v in vals) else None
    if k == 'not':
        v = _term_truth(tt[1], state, source, sn, live)
        return None if v is None else (not v)
    if tt == ('call', ('name', 'len'), (('attr', S, '_stepmon'),), ()):
        return L > 0
    if tt == ('attr', S, 'generations'):
        return gens(state, source) > 0
    if tt == ('attr', S, '_live'):
        return live
    if k == 'cmp' and tt[1] in ('is', 'isnot', '==', '!=') and ('const', None) in (tt[2], tt[3]):
        other = tt[3] if tt[2] == ('const', None) else tt[2]
        positive = tt[1] in ('is', '==')
        if other == ('attr', S, 'energy_history'):
            return not positive          # the property never returns None
        if other == ('attr', S, '_energy_history'):
            return (E is None) == positive
    shown = T.show(tt)
    for bad in ('_stepmon', 'generations', 'energy_history'):
        if bad in shown:
            raise AnalysisError('unrecognised bookkeeping test `%s`' % shown[:80])
    return None


def run_path(path, state, source, sn, live=True):
    """returns (new_state, n_stepmon_calls, n_callbacks, events) or None if the path is infeasible from state"""
    from .. import terms as T
    L, E = state
    nrec = ncb = 0
    log = []
    bld = T.Builder()
    for e in path.events:
        if e[0] == 'cond':
            tv = _cond_truth(e[1], (L, E), source, sn, live, bld)
            if tv is not None and tv != e[2]:
                return None
        elif e[0] in ('stmt', 'partial'):
            st = e[1]
            # order inside one statement: value first
            recs = calls_where(st, lambda c: self_call(c, '_stepmon', sn), include_lambda=False)
            for c in recs:
                L += 1
                nrec += 1
                log.append(('record', c))
            cbs = calls_where(st, lambda c: isinstance(c.func, ast.Name) and c.func.id == 'callback', include_lambda=False)
            ncb += len(cbs)
            for c in cbs:
                log.append(('callback', c))
            if isinstance(st, ast.Assign) and len(st.targets) == 1 and \
                    is_self_attr(st.targets[0], None, sn) and st.targets[0].attr in ('energy_history', '_energy_history'):
                v = st.value
                if isinstance(v, ast.Constant) and v.value is None:
                    E = None
                elif isinstance(v, ast.BinOp) and isinstance(v.op, ast.Add) and is_self_attr(v.left, 'energy_history', sn) \
                        and isinstance(v.right, ast.List):
                    cur = L if E is None else E
                    E = cur + len(v.right.elts)
                else:
                    raise AnalysisError('unrecognised energy-history update `%s`' % unparse(st))
                log.append(('history', st))
            elif isinstance(st, ast.Assign) and len(st.targets) == 1 and isinstance(st.targets[0], ast.Name):
                bld.exec_stmt(st)      # plain locals used by later tests
    return (L, E), nrec, ncb, log


class StepModel(object):
    def __init__(self, model, cls):
        self.model = model
        self.cls = cls
        self.source, self.getter = generations_source(model, cls)
        if self.source not in ('stepmon', 'energy_history'):
            raise AnalysisError('generations getter of %s returns `%s`' % (cls.name, self.source))
        self.step = model.lookup_method(cls, '_Step')
        self.fin = model.lookup_method(cls, 'Finalize')
        if self.step is None or self.fin is None:
            raise AnalysisError('no _Step/Finalize on %s' % cls.name)
        self.sn = selfname_of(self.step)
        def cond_names(fnode):
            out = set()
            for n in walk_no_nested(fnode):
                if isinstance(n, (ast.If, ast.While, ast.IfExp)):
                    out |= set(x.id for x in ast.walk(n.test) if isinstance(x, ast.Name))
            return out
        self.step_paths = [p for p in enumerate_paths(self.step.node, relevant=_relevant(self.sn, cond_names(self.step.node))) if p.exit != 'raise']
        self.fin_paths = [p for p in enumerate_paths(self.fin.node, relevant=_relevant(selfname_of(self.fin), cond_names(self.fin.node))) if p.exit != 'raise']

    def explore(self, max_L=6):
        """BFS over abstract states; returns list of transitions
        (op, before, after, delta_gens, nrec, ncb, path, log)"""
        start = (0, None)
        seen = {start}
        todo = [start]
        trans = []
        while todo:
            s = todo.pop(0)
            for op, paths, lives, sn in (('_Step', self.step_paths, (True,), self.sn),
                                         ('Finalize', self.fin_paths, (True, False), selfname_of(self.fin))):
                for live in lives:
                    for p in paths:
                        r = run_path(p, s, self.source, sn, live)
                        if r is None:
                            continue
                        s2, nrec, ncb, log = r
                        trans.append((op, s, s2, gens(s2, self.source) - gens(s, self.source), nrec, ncb, p, log, live))
                        if s2 not in seen and s2[0] <= max_L:
                            seen.add(s2)
                            todo.append(s2)
        return trans, seen


# ---------------------------------------------------------------------------------------------------------------------
# reconfiguration between steps: SetGenerationMonitor(monitor) with an initially empty Monitor and new=False

def _is_super_call(c, mname):
    """super(...).<mname>(...) / <Base>.<mname>(self, ...)"""
    if not (isinstance(c, ast.Call) and isinstance(c.func, ast.Attribute) and c.func.attr == mname):
        return False
    v = c.func.value
    if isinstance(v, ast.Call) and isinstance(v.func, ast.Name) and v.func.id == 'super':
        return True
    return isinstance(v, ast.Name) and v.id[:1].isupper()


def monitor_swap(model, cls, state, source, mname='SetGenerationMonitor', _from=None, _depth=0):
    """all bookkeeping states reachable by self.<mname>(monitor) from `state`, for `monitor` an initially empty Monitor
    instance and new=False.  Returns [((L, E), path descriptions)].
    Transitions read from the source: `self._stepmon = <new>` empties the log seen by the solver (L := 0) and a later
    `.prepend(...)` restores the old records (what is prepended is decided by C04.g); `self._stepmon(...)` is L+1;
    stores to (_)energy_history as in _Step; a super call continues in the next class of the MRO."""
    from .. import terms as T
    if _depth > 3:
        raise AnalysisError('%s: super chain deeper than 3' % mname)
    mro = model.mro(cls)
    if _from is not None:
        mro = mro[mro.index(_from) + 1:]
    owner = next((k for k in mro if mname in k.methods), None)
    if owner is None:
        raise AnalysisError('no %s on %s' % (mname, cls.name))
    m = owner.methods[mname]
    sn = selfname_of(m)
    params = [a.arg for a in m.node.args.args]
    monp = params[1] if len(params) > 1 else 'monitor'
    newp = params[2] if len(params) > 2 else 'new'

    def rel(n):
        if isinstance(n, ast.Call) and (self_call(n, '_stepmon', sn) or _is_super_call(n, mname) or (isinstance(n.func, ast.Attribute) and n.func.attr == 'prepend')):
            return True
        if isinstance(n, ast.Attribute) and n.attr in ('energy_history', '_energy_history', '_stepmon') and isinstance(n.ctx, ast.Store):
            return True
        return isinstance(n, ast.Assign) and len(n.targets) == 1 and isinstance(n.targets[0], ast.Name)
    paths = [p for p in enumerate_paths(m.node, relevant=rel, unroll=(0, 1)) if p.exit != 'raise']
    out = []

    def truth(tt, st):
        k = tt[0] if isinstance(tt, tuple) and tt else None
        if k in ('and', 'or'):
            vals = [truth(v, st) for v in tt[1:]]
            if k == 'and':
                return False if any(v is False for v in vals) else (True if all(v is True for v in vals) else None)
            return True if any(v is True for v in vals) else (False if all(v is False for v in vals) else None)
        if k == 'not':
            v = truth(tt[1], st)
            return None if v is None else (not v)
        if tt == ('name', newp):
            return False
        if k == 'cmp' and tt[1] in ('is', '==', 'isnot', '!=') and ('name', monp) in tt[2:] and ('const', None) in tt[2:]:
            return tt[1] in ('isnot', '!=')      # a monitor instance is given
        if k == 'call' and T.show(tt[1]) == 'isinstance' and len(tt[2]) == 2 and tt[2][0] == ('name', monp):
            kinds = T.show(tt[2][1])
            return 'Monitor' in kinds.replace('(', ' ').replace(')', ' ').replace(',', ' ').split()
        try:
            return _term_truth(tt, st, source, sn, True)
        except AnalysisError:
            return None        # tests on which monitor object this is: both ways

    def run(events, i, L, E, Lold, bld, trail):
        while i < len(events):
            e = events[i]
            i += 1
            if e[0] == 'cond':
                tv = truth(T.simp(bld.t(e[1])), (L, E))
                if tv is not None and tv != e[2]:
                    return
            elif e[0] in ('stmt', 'partial'):
                st = e[1]
                sup = calls_where(st, lambda c: _is_super_call(c, mname), include_lambda=False)
                if sup:
                    for (s2, tr2) in monitor_swap(model, cls, (L, E), source, mname, _from=owner, _depth=_depth + 1):
                        run(events, i, s2[0], s2[1], Lold, bld.copy(), trail + ['super -> %s' % (s2,)])
                    return
                for c in calls_where(st, lambda c: self_call(c, '_stepmon', sn), include_lambda=False):
                    L += 1
                if calls_where(st, lambda c: isinstance(c.func, ast.Attribute) and c.func.attr == 'prepend', include_lambda=False) and Lold is not None:
                    L += Lold
                    Lold = None
                if isinstance(st, ast.Assign) and len(st.targets) >= 1 and any(is_self_attr(tg, '_stepmon', sn) for tg in st.targets):
                    Lold = L
                    L = 0
                    continue
                if isinstance(st, ast.Assign) and len(st.targets) == 1 and is_self_attr(st.targets[0], None, sn) and \
                        st.targets[0].attr in ('energy_history', '_energy_history'):
                    v = st.value
                    if isinstance(v, ast.Constant) and v.value is None:
                        E = None
                    elif isinstance(v, ast.BinOp) and isinstance(v.op, ast.Add) and is_self_attr(v.left, 'energy_history', sn) and isinstance(v.right, ast.List):
                        E = (L if E is None else E) + len(v.right.elts)
                    else:
                        raise AnalysisError('unrecognised energy-history update `%s`' % unparse(st))
                elif isinstance(st, ast.Assign) and len(st.targets) == 1 and isinstance(st.targets[0], ast.Name):
                    bld.exec_stmt(st)
        out.append(((L, E), trail))
    for p in paths:
        run(p.events, 0, state[0], state[1], None, T.Builder(), ['%s.%s: %s' % (owner.name, mname, p.describe(5))])
    return out
