"""C02 - strict ranges: the objective is never evaluated outside the box.

Decided: the gate in wrap_bounds (the target is called only when the gate
predicate is false, and the predicate is true for every ordering that puts a
coordinate outside [min,max]); the gate is installed directly around the
counting wrapper whenever strict ranges are on, in all four decorators; every
method that changes a captured range setting invalidates the objective; Step,
Solve and every _Step re-bootstrap before the first evaluation; members are
clipped on (re)decoration; random initial points use one index for both ends;
SetStrictRanges' stores and (tight, clip) table; bounds constraint wiring.
NOT decided: that the reported best lies in the box (runtime consequence of inf
energies never winning a <), behaviour of impose_bounds/symbolic bounds on vectors.
"""
import ast

from ..core import rule
from ..srcmodel import AnalysisError, walk_no_nested, attr_chain, unparse, norm_stmt
from ..paths import enumerate_paths
from .. import terms as T
from .. import ordabs
from .common import *
from . import decorate as D
from . import invalidate

AS = 'mystic.abstract_solver:AbstractSolver'


@rule('C02.a', min_instances=4)
def the_gate(ctx):
    """wrap_bounds: the target is reachable only through the false branch of a predicate that is true for every outside ordering; the true branch returns inf"""
    outer = ctx.func('mystic.tools:wrap_bounds')
    f = ctx.func('mystic.tools:wrap_bounds.function_wrapper')
    tgt = outer.args()[0]
    x = f.args()[0]
    paths = enumerate_paths(f.node)
    ctx.stats['paths_enumerated'] += len(paths)
    X, MIN, MAX = ('name', x), ('name', 'min'), ('name', 'max')
    n_called = 0
    for p in paths:
        calls_t = []
        b = T.Builder()
        conds = []
        ret = None
        for e in p.events:
            if e[0] == 'cond':
                conds.append((T.simp(b.t(e[1])), e[2], e[1]))
            elif e[0] == 'stmt':
                for c in calls_where(e[1], lambda c: isinstance(c.func, ast.Name) and c.func.id == tgt):
                    calls_t.append((c, list(conds)))
                if isinstance(e[1], ast.Return) and e[1].value is not None:
                    ret = T.simp(b.t(e[1].value))
                elif isinstance(e[1], ast.Assign) and isinstance(e[1].targets[0], ast.Name) and e[1].targets[0].id == x:
                    ctx.bad('wrap_bounds.function_wrapper#x', 'the gate wrapper rewrites its argument before testing/forwarding it', f, e[1])
        if calls_t:
            n_called += 1
            c, cs = calls_t[0]
            arg_ok = len(c.args) == 1 and isinstance(c.args[0], ast.Name) and c.args[0].id == x
            ctx.check(arg_ok, 'wrap_bounds.function_wrapper#forward', 'target receives the tested x',
                      'the gated target is called with %s, not with the vector that was tested' % unparse(c), f, c)
            gate = [(tt, tr, nd) for tt, tr, nd in cs if tr is False and (T.show(MIN) in T.show(tt) or T.show(MAX) in T.show(tt))]
            if not gate:
                ctx.bad('wrap_bounds.function_wrapper#gate', 'the target is reachable without passing the bounds test: %s' % p.describe(6), f, c)
                continue
            tt = gate[0][0]
            rows, okall = [], True
            for rank in ordabs.weak_orderings([X, MIN, MAX]):
                if rank[MIN] > rank[MAX]:
                    continue
                outside = rank[X] < rank[MIN] or rank[X] > rank[MAX]
                try:
                    v = ordabs.evaluate(tt, rank)
                except ordabs.Unknown as ex:
                    raise AnalysisError('cannot order-evaluate the gate predicate %s' % ex)
                ctx.stats['orderings_enumerated'] += 1
                rows.append((tuple(sorted(rank.items(), key=lambda kv: repr(kv[0]))), v))
                if outside and not v:
                    okall = False
            ctx.check(okall, 'wrap_bounds.function_wrapper#gate', 'gate %s is true for all %d orderings with x outside [min,max]' % (T.show(tt), len(rows)),
                      'the gate predicate %s is false for an ordering with the coordinate outside [min,max]' % T.show(tt), f, gate[0][2])
        else:
            # gate fired: must return inf
            if p.exit == 'return':
                ctx.check(ret == ('name', 'inf') or ret == ('const', 'inf'), 'wrap_bounds.function_wrapper#inf', 'gate true -> returns inf without calling the target',
                          'when the gate fires the wrapper returns %s' % (T.show(ret) if ret else None), f, p.exit_node)
    ctx.need(n_called >= 1, 'no path of the gate wrapper calls the target')
    # which bounds the gate closes over: along every path of wrap_bounds that defines the gated wrapper, the closure
    # variables the gate compares with are the caller's own min / max (asarray is transparent), or an all -inf / +inf
    # default on a path that has established that this bound is None; the un-gated wrapper is defined only where both are None
    pmin, pmax = outer.args()[1], outer.args()[2]
    gated_defs = [d for d in walk_no_nested(outer.node, include_lambda=False) if isinstance(d, ast.FunctionDef) and d is not outer.node
                  and any(isinstance(n, ast.Call) and isinstance(n.func, ast.Name) and n.func.id == tgt for n in ast.walk(d))]
    ctx.need(gated_defs, 'wrap_bounds: wrapper definitions not found')
    opaths = enumerate_paths(outer.node, relevant=lambda n: True)
    ctx.stats['paths_enumerated'] += len(opaths)
    n_g = n_u = 0
    for p in opaths:
        defs = [e[1] for e in p.events if e[0] == 'stmt' and e[1] in gated_defs]
        if not defs:
            continue
        d = defs[-1]
        cut = [e for e in p.events]
        k = max(i_ for i_, e in enumerate(cut) if e[0] == 'stmt' and e[1] is d)
        b, conds = symbolic_run(_Prefix(cut[:k]))
        lits = set((c, tr) for c, tr, _ in conds)
        is_gate = d is f.node
        none_min = ('cmp', 'is', ('name', pmin), ('const', None))
        none_max = ('cmp', 'is', ('name', pmax), ('const', None))

        # constant propagation of flags (`bounds = True/False`): drop paths whose tests contradict the known value
        if any(c[0] == 'const' and isinstance(c[1], bool) and c[1] != tr for c, tr in lits):
            continue

        def decided(atom, lits=lits):
            """True / False / None: what the path literals entail about `param is None` (truth table over their atoms)"""
            import itertools
            from .. import pathcond as PC

            def norm(t_):
                if isinstance(t_, tuple) and t_ and t_[0] == 'cmp' and t_[1] == 'isnot':
                    return ('not', ('cmp', 'is') + t_[2:])
                if isinstance(t_, tuple) and t_ and t_[0] in ('and', 'or', 'not'):
                    return (t_[0],) + tuple(norm(x) for x in t_[1:])
                return t_
            fs = [norm(c) if tr else ('not', norm(c)) for c, tr in lits if not (c[0] == 'const')]
            atoms = [atom]
            for f_ in fs:
                for a in PC.leaves(f_):
                    if a not in atoms:
                        atoms.append(a)
            if len(atoms) > 12:
                return None
            seen = set()
            for bits in itertools.product((False, True), repeat=len(atoms)):
                val = dict(zip(atoms, bits))
                if all(PC.ev(f_, val) for f_ in fs):
                    seen.add(val[atom])
            return seen.pop() if len(seen) == 1 else None
        if not is_gate:
            n_u += 1
            ctx.check(decided(none_min) is True and decided(none_max) is True, 'wrap_bounds#unbounded',
                      'the pass-through wrapper is defined only where min is None and max is None',
                      'the un-gated wrapper is selected on a path that has not established that both bounds are None: %s' % p.describe(6), outer, d)
            continue
        n_g += 1
        for pname, atom, sign in ((pmin, none_min, -1), (pmax, none_max, 1)):
            v = T.simp(b.env.get(pname, ('name', pname)))
            if v == ('name', pname):
                ctx.check(decided(atom) is False, 'wrap_bounds#closure-' + pname, 'the gate compares with the caller\'s own %s' % pname,
                          'the gate closes over %s on a path where it may be None: %s' % (pname, p.describe(6)), outer, d)
                continue
            inf_t = ('name', 'inf')
            want = inf_t if sign > 0 else T.simp(T.pneg(inf_t))
            leaves = [x for x in T.subterms(v) if isinstance(x, tuple) and x and x[0] == 'name' and x[1] in (pmin, pmax)]
            is_default = v[0] == 'listcomp' and len(v[1]) == 1 and v[1][0] == want
            ctx.check(is_default and decided(atom) is True, 'wrap_bounds#closure-' + pname,
                      'a missing %s defaults to all %sinf (only where %s is None)' % (pname, '-' if sign < 0 else '+', pname),
                      'the gate compares with %s = %s instead of the caller\'s %s (a finite bound can be lost): %s' % (
                          pname, T.show(v)[:70], pname, p.describe(5)), outer, d, statement='gate closes over %s = %s' % (pname, T.show(v)[:60]))
    ctx.need(n_g >= 3 and n_u >= 1, 'wrap_bounds: expected >= 3 paths defining the gate and 1 defining the pass-through, found %d / %d' % (n_g, n_u))


class _Prefix(object):
    def __init__(self, events):
        self.events = events


@rule('C02.b', min_instances=4)
def gate_installed(ctx):
    """with strict ranges on, wrap_bounds(., _strictMin, _strictMax) sits directly around the counting wrapper (no x-changing wrapper between gate and raw cost)"""
    for key, anchor in D.DECORATORS.items():
        f = ctx.func(anchor)
        for r in D.analyse(ctx, f):
            if not r['strict']:
                continue
            ch = r['chain']
            sn = r['self']
            names = [c[0] for c in ch]
            label = '%s._decorate_objective[strict,reducer=%s]' % (f.cls.name, r['reducer'])
            wb = [c for c in ch if c[0] == 'wrap_bounds']
            good = len(wb) == 1 and names.index('wrap_bounds') + 1 == names.index('wrap_function') if 'wrap_function' in names and wb else False
            good = good and len(wb[0][1]) == 3 and wb[0][1][1] == ('attr', ('name', sn), '_strictMin') and wb[0][1][2] == ('attr', ('name', sn), '_strictMax')
            ctx.check(good, label, 'gate directly around the counter: ' + D.render(ch),
                      'with strict ranges on, the bounds gate is missing, has its arguments crossed, or a wrapper that can change x lies between it and the raw cost: ' + D.render(ch),
                      f, r['path'].exit_node)


@rule('C02.c', min_instances=7)
def reinstallation_after_change(ctx):
    """every method that changes a setting captured by the decorated objective invalidates it (self._live=False via _update_objective/Finalize) on every path"""
    total = 0
    for key, anchor in CONCRETE_SOLVERS.items():
        cls = ctx.cls(anchor)
        want = {'_useStrictRange', '_strictMin', '_strictMax'}
        n, decoin = invalidate.check_class(ctx, key, cls, only_attrs=want | {'_strictbounds'}, label_prefix=key + ':')
        total += n
        ctx.need(want <= decoin, 'DecoIn(%s) = %s lacks %s' % (cls.name, sorted(decoin), sorted(want - decoin)))
    # Finalize / _update_objective themselves
    base = ctx.cls(AS)
    for name in ('Finalize', '_update_objective'):
        for m in ctx.model.overriders(base, name):
            ctx.touch(m)
            ctx.check(invalidate.clears_live_everywhere(ctx, m), '%s.%s' % (ctx.model.enclosing_class(m).name, name),
                      'clears _live on every normal path', '%s.%s can return with the objective still marked live' % (ctx.model.enclosing_class(m).name, name), m, m.node)


@rule('C02.d', min_instances=7)
def step_redecorates(ctx):
    """_bootstrap_objective returns the stored objective only while _live; Step, Solve and every _Step call it before the first evaluation"""
    f = ctx.func(AS + '._bootstrap_objective')
    sn = selfname_of(f)
    rets = [n for n in walk_no_nested(f.node) if isinstance(n, ast.Return)]
    ctx.need(len(rets) >= 2, '_bootstrap_objective: expected an early and a final return')
    early = [r for r in rets if guards_of(r, stop=f.node)]
    final = [r for r in rets if not guards_of(r, stop=f.node)]
    ctx.need(early and final, '_bootstrap_objective: returns not recognised')
    for r in early:
        g = guards_of(r, stop=f.node)[0]
        tt = t(g[0])
        conj = tt[1:] if tt[0] == 'and' else (tt,)
        ctx.check(g[1] is True and ('attr', ('name', sn), '_live') in conj, 'AbstractSolver._bootstrap_objective#early',
                  'the stored objective is reused only if self._live', 'the stored objective is returned without requiring self._live', f, r)
    fr = final[-1]
    ctx.check(isinstance(fr.value, ast.Call) and self_call(fr.value, '_decorate_objective', sn), 'AbstractSolver._bootstrap_objective#final',
              'otherwise the objective is re-decorated', 'the fall-through no longer returns self._decorate_objective(...)', f, fr)
    base = ctx.cls(AS)
    for name in ('Step', 'Solve'):
        m = ctx.func(AS + '.' + name)
        sn = selfname_of(m)
        boots = calls_where(m.node, lambda c: self_call(c, '_bootstrap_objective', sn))
        runs = calls_where(m.node, lambda c: self_call(c, '_Step', sn) or self_call(c, '_Solve', sn))
        good = boots and runs and not guards_of(enclosing_stmt(boots[0]), stop=m.node) and boots[0].lineno < runs[0].lineno
        ctx.check(bool(good), 'AbstractSolver.%s#bootstrap' % name, 'bootstraps unconditionally before stepping',
                  '%s no longer (re)builds the objective before stepping' % name, m, boots[0] if boots else m.node)
    for key, anchor in CONCRETE_SOLVERS.items():
        cls = ctx.cls(anchor)
        m = ctx.touch(ctx.model.lookup_method(cls, '_Step'))
        sn = selfname_of(m)
        boots = [s for s in m.node.body if isinstance(s, ast.Assign) and isinstance(s.value, ast.Call) and self_call(s.value, '_bootstrap_objective', sn)]
        evals = calls_where(m.node, lambda c: (isinstance(c.func, ast.Name) and c.func.id == 'cost') or
                            any(isinstance(a, ast.Name) and a.id == 'cost' for a in c.args), include_lambda=False)
        evals = [c for c in evals if not self_call(c, '_bootstrap_objective', sn)]
        ctx.need(evals, 'no evaluation in %s._Step' % cls.name)
        good = len(boots) == 1 and isinstance(boots[0].targets[0], ast.Name) and boots[0].targets[0].id == 'cost' and \
            all(boots[0].lineno < c.lineno for c in evals)
        ctx.check(bool(good), '%s._Step#bootstrap' % cls.name, 'cost = self._bootstrap_objective(...) precedes all %d evaluations' % len(evals),
                  'an evaluation in _Step can use an objective that was not re-bootstrapped', m, boots[0] if boots else evals[0])


@rule('C02.e', min_instances=7)
def members_clipped_on_decoration(ctx):
    """under strict ranges every member is clipped when the objective is (re)decorated; the clip helpers use (min,max) in order"""
    for key in ('base', 'DE', 'DE2'):
        f = ctx.func(D.DECORATORS[key])
        sn = selfname_of(f)
        loops = [n for n in walk_no_nested(f.node) if isinstance(n, ast.For)]
        found = None
        for lp in loops:
            if not any(g[1] and ''.join(unparse(g[0]).split()) == '%s._useStrictRange' % sn for g in guards_of(lp, stop=f.node)):
                continue
            it = ''.join(unparse(lp.iter).split())
            for st in lp.body:
                if isinstance(st, ast.Assign) and isinstance(st.value, ast.Call) and self_call(st.value, '_clipGuessWithinRangeBoundary', sn):
                    found = (lp, st, it)
        ctx.need(found is not None or True, '')
        if found is None:
            ctx.bad('%s._decorate_objective#clip' % f.cls.name, 'under strict ranges the members are no longer clipped into the box when the objective is decorated', f, f.node)
            continue
        lp, st, it = found
        i = lp.target.id if isinstance(lp.target, ast.Name) else None
        tg = ''.join(unparse(st.targets[0]).split())
        a0 = ''.join(unparse(st.value.args[0]).split()) if st.value.args else ''
        good = it in ('range(%s.nPop)' % sn, 'range(len(%s.population))' % sn) and tg in ('%s.population[%s][:]' % (sn, i), '%s.population[%s]' % (sn, i)) \
            and a0 == '%s.population[%s]' % (sn, i)
        ctx.check(good, '%s._decorate_objective#clip' % f.cls.name, 'all members: population[i] = clip(population[i]) for i in %s' % it,
                  'not every member is clipped: loop over %s stores %s from %s' % (it, tg, a0), f, st)
    f = ctx.func(D.DECORATORS['NM'])
    sn = selfname_of(f)
    under = [n for n in walk_no_nested(f.node) if isinstance(n, ast.If) and ''.join(unparse(n.test).split()) == '%s._useStrictRange' % sn]
    ctx.need(under, 'NM decorator: no strict-range branch')
    inner = [n for n in under[0].body if isinstance(n, ast.If)]
    ctx.need(inner, 'NM decorator: generation dispatch not found')
    reb = calls_where(ast.Module(body=inner[0].body, type_ignores=[]), lambda c: self_call(c, '_setSimplexWithinRangeBoundary', sn))
    clp = [s for s in inner[0].orelse if isinstance(s, ast.Assign) and isinstance(s.value, ast.Call) and self_call(s.value, '_clipGuessWithinRangeBoundary', sn)
           and ''.join(unparse(s.targets[0]).split()) == '%s.population[0]' % sn]
    ctx.check(bool(reb) and bool(clp), 'NelderMeadSimplexSolver._decorate_objective#clip', 'simplex rebuilt inside the box (generations>0) or vertex 0 clipped',
              'Nelder-Mead no longer pulls its simplex/initial vertex into the box on decoration', f, inner[0])
    # helper: _clipGuessWithinRangeBoundary
    g = ctx.func(AS + '._clipGuessWithinRangeBoundary')
    sn = selfname_of(g)
    b = T.Builder()
    S = ('name', sn)
    bounds_ok = clip_ok = ret_ok = rnd_ok = False
    x0 = g.args()[1]
    for st in g.node.body:
        if isinstance(st, ast.Assign) and isinstance(st.targets[0], ast.Name):
            v = T.simp(b.t(st.value))
            if st.targets[0].id == 'bounds':
                bounds_ok = v == ('tuple', ('attr', S, '_strictMin'), ('attr', S, '_strictMax'))
            if v[0] == 'call' and T.show(v[1]).endswith('.clip'):
                clip_ok = v[2] == (('star', ('tuple', ('attr', S, '_strictMin'), ('attr', S, '_strictMax'))),) or \
                    v[2] == (('attr', S, '_strictMin'), ('attr', S, '_strictMax'))
                clipped_name = st.targets[0].id
            b.exec_stmt(st) if st.targets[0].id != x0 else None
        if isinstance(st, ast.If) and isinstance(st.test, ast.Name) and st.test.id == 'at':
            r = [s for s in st.body if isinstance(s, ast.Return)]
            ret_ok = bool(r) and isinstance(r[0].value, ast.Name) and clip_ok and r[0].value.id == clipped_name
    ctx.check(bounds_ok or clip_ok, '_clipGuessWithinRangeBoundary#bounds', 'clips with (_strictMin, _strictMax) in that order',
              'the clip helper no longer clips with (_strictMin, _strictMax)', g, g.node)
    ctx.check(clip_ok and ret_ok, '_clipGuessWithinRangeBoundary#at', 'at=True returns the clipped array',
              'with at=True the helper does not return the clipped array', g, g.node)
    rnd = [s for s in g.node.body if isinstance(s, ast.Assign) and isinstance(s.targets[0], ast.Subscript) and 'uniform' in unparse(s.value)]
    if rnd:
        v = ''.join(unparse(rnd[0].value).split())
        tg = ''.join(unparse(rnd[0].targets[0]).split())
        ctx.check(v == 'random.uniform(%s._strictMin,%s._strictMax)[x_]' % (sn, sn) and tg == '%s[x_]' % x0, '_clipGuessWithinRangeBoundary#random',
                  'out-of-box coordinates are redrawn uniformly inside (min,max)', 'the random branch redraws %s = %s' % (tg, v), g, rnd[0])
    # helper: _setSimplexWithinRangeBoundary crops val<lo -> lo, val>hi -> hi
    h = ctx.func('mystic.scipy_optimize:NelderMeadSimplexSolver._setSimplexWithinRangeBoundary')
    sn = selfname_of(h)
    lo = [s for s in h.node.body if isinstance(s, ast.Assign) and isinstance(s.targets[0], ast.Name) and s.targets[0].id == 'lo']
    hi = [s for s in h.node.body if isinstance(s, ast.Assign) and isinstance(s.targets[0], ast.Name) and s.targets[0].id == 'hi']
    ctx.need(lo and hi, 'simplex helper: lo/hi not found')
    ctx.check(is_self_attr(lo[0].value, '_strictMin', sn) and is_self_attr(hi[0].value, '_strictMax', sn), '_setSimplexWithinRangeBoundary#lohi',
              'lo = _strictMin, hi = _strictMax', 'lo/hi are bound to %s / %s' % (unparse(lo[0].value), unparse(hi[0].value)), h, lo[0])
    crops = [s for s in h.node.body if isinstance(s, ast.Assign) and isinstance(s.targets[0], ast.Subscript)
             and isinstance(s.targets[0].value, ast.Name) and s.targets[0].value.id == 'val' and isinstance(s.targets[0].slice, ast.Compare)]
    seen = set()
    for s in crops:
        m = t(s.targets[0].slice)
        v = t(s.value)
        if m == T.mk_cmp('<', ('name', 'val'), ('name', 'lo')):
            seen.add('lo')
            ctx.check(v == ('sub', ('name', 'lo'), m), '_setSimplexWithinRangeBoundary#crop-lo', 'val<lo -> lo', 'val<lo is replaced by %s' % T.show(v), h, s)
        elif m == T.mk_cmp('>', ('name', 'val'), ('name', 'hi')):
            seen.add('hi')
            ctx.check(v == ('sub', ('name', 'hi'), m), '_setSimplexWithinRangeBoundary#crop-hi', 'val>hi -> hi', 'val>hi is replaced by %s' % T.show(v), h, s)
    ctx.check(seen == {'lo', 'hi'}, '_setSimplexWithinRangeBoundary#crop', 'both ends cropped', 'the simplex is no longer cropped at both ends (%s)' % sorted(seen), h, h.node)


@rule('C02.f', min_instances=3)
def random_points_inside_limits(ctx):
    """SetRandomInitialPoints draws population[i][j] = uniform(min[j], max[j]); SetInitialPoints brackets x0 and then pins member 0"""
    f = ctx.func(AS + '.SetRandomInitialPoints')
    sn = selfname_of(f)
    st = [s for s in stmts_of(f.node) if isinstance(s, ast.Assign) and 'uniform' in unparse(s.value)]
    ctx.need(st, 'no uniform draw in SetRandomInitialPoints')
    s = st[0]
    tg = t(s.targets[0])
    v = t(s.value)
    good = tg[0] == 'sub' and tg[1][0] == 'sub' and tg[1][1] == ('attr', ('name', sn), 'population') and v[0] == 'call' and len(v[2]) == 2 and \
        v[2][0] == ('sub', ('name', 'min'), tg[2]) and v[2][1] == ('sub', ('name', 'max'), tg[2])
    ctx.check(good, 'SetRandomInitialPoints#draw', 'population[i][j] = uniform(min[j], max[j])', 'initial points are drawn as %s = %s' % (T.show(tg), T.show(v)), f, s)
    loops = [n for n in walk_no_nested(f.node) if isinstance(n, ast.For) and s in list(walk_no_nested(n))]
    its = sorted(''.join(unparse(l.iter).split()) for l in loops)
    ctx.check(its == sorted(['range(len(%s.population))' % sn, 'range(%s.nDim)' % sn]), 'SetRandomInitialPoints#loops', 'all members x all dimensions',
              'the draw loops over %s' % its, f, loops[0] if loops else s)
    g = ctx.func(AS + '.SetInitialPoints')
    sn = selfname_of(g)
    b = T.Builder()
    call = pin = None
    for s in g.node.body:
        if isinstance(s, ast.Assign) and isinstance(s.targets[0], ast.Name) and s.targets[0].id in ('min', 'max'):
            b.exec_stmt(s)
        if isinstance(s, ast.Expr) and isinstance(s.value, ast.Call) and self_call(s.value, 'SetRandomInitialPoints', sn):
            call = (s, [T.simp(b.t(a)) for a in s.value.args])
        if isinstance(s, ast.Assign) and ''.join(unparse(s.targets[0]).split()) in ('%s.population[0][:]' % sn, '%s.population[0]' % sn):
            pin = s
    ctx.need(call is not None, 'SetInitialPoints no longer calls SetRandomInitialPoints')
    x0, rad = ('name', 'x0'), ('name', 'radius')
    lo = T.simp(T.pmul(x0, T.padd(T.num(1), T.pneg(rad))))
    hi = T.simp(T.pmul(x0, T.padd(T.num(1), rad)))
    ctx.stats['terms_compared'] += 2
    good = call[1] == [lo, hi] and pin is not None and pin.lineno > call[0].lineno and 'x0' in unparse(pin.value)
    ctx.check(good, 'SetInitialPoints', 'brackets x0*(1-r), x0*(1+r) then pins member 0 to x0',
              'SetInitialPoints draws within %s and pins %s' % ([T.show(a) for a in call[1]], norm_stmt(pin) if pin else None), g, call[0])


@rule('C02.g', min_instances=9)
def bounds_as_constraint(ctx):
    """SetStrictRanges stores (True, min, max) uncrossed and rejects min>max; (tight,clip) table; _boundsconstraints/boundsconstrain pass (min,max) in order; every _Step couples and_(constraints, bounds, onfail=bounds)"""
    f = ctx.func(AS + '.SetStrictRanges')
    sn = selfname_of(f)
    top = f.node.body
    stores = {}
    for s in top:
        if isinstance(s, ast.Assign) and is_self_attr(s.targets[0], None, sn):
            stores[s.targets[0].attr] = s
    ctx.need({'_useStrictRange', '_strictMin', '_strictMax', '_strictbounds'} <= set(stores), 'SetStrictRanges: success-path stores not found')
    ctx.check(const_value(stores['_useStrictRange'].value) is True and unparse(stores['_strictMin'].value) == 'min' and unparse(stores['_strictMax'].value) == 'max',
              'SetStrictRanges#stores', '_useStrictRange=True, _strictMin=min, _strictMax=max',
              'the success path stores %s' % {k: unparse(v.value) for k, v in stores.items()}, f, stores['_strictMin'])
    rej = [s for s in top if isinstance(s, ast.If) and any(isinstance(x, ast.Raise) for x in s.body) and 'min' in unparse(s.test) and 'max' in unparse(s.test) and 'len' not in unparse(s.test)]
    ok_rej = False
    if rej:
        tt = t(rej[0].test)
        ok_rej = any(isinstance(s_, tuple) and s_ and s_[0] == 'cmp' and s_ == T.mk_cmp('>', ('name', 'min'), ('name', 'max')) for s_ in T.subterms(tt)) \
            and rej[0].lineno < stores['_strictMin'].lineno
    ctx.check(ok_rej, 'SetStrictRanges#reject', 'min > max is rejected before the stores', 'a box with min > max is no longer rejected before being stored', f, rej[0] if rej else f.node)
    # decision table (tight, clip)
    chain = [s for s in top if isinstance(s, ast.If) and ''.join(unparse(s.test).split()) == 'clipisNone']
    ctx.need(chain, 'SetStrictRanges: (tight, clip) table not found')
    c0 = chain[0]
    a0 = c0.body[0] if c0.body and isinstance(c0.body[0], ast.Assign) else None
    row1 = a0 is not None and ''.join(unparse(a0.value).split()) == 'dict(symbolic=True)iftightelsedict()'
    c1 = c0.orelse[0] if len(c0.orelse) == 1 and isinstance(c0.orelse[0], ast.If) else None
    row2 = c1 is not None and "repr(tight)=='False'" == ''.join(unparse(c1.test).split()) and any(isinstance(x, ast.Raise) for x in c1.body)
    a2 = c1.orelse[0] if c1 is not None and c1.orelse and isinstance(c1.orelse[0], ast.Assign) else None
    row3 = a2 is not None and ''.join(unparse(a2.value).split()) == 'dict(symbolic=False,clip=clip)'
    ctx.check(row1 and row2 and row3, 'SetStrictRanges#table', 'clip=None: symbolic iff tight; clip given & tight False: ValueError; else symbolic=False, clip=clip',
              '(tight, clip) table changed: rows %s' % [row1, row2, row3], f, c0)
    g = ctx.func(AS + '._boundsconstraints')
    sn = selfname_of(g)
    b = T.Builder()
    bc = None
    for s in g.node.body:
        if isinstance(s, ast.Assign) and isinstance(s.targets[0], ast.Name):
            v = T.simp(b.t(s.value))
            if v[0] == 'call' and T.show(v[1]) in ('bcon', 'boundsconstrain'):
                bc = (s, v)
            if s.targets[0].id in ('min', 'max'):
                b.exec_stmt(s)
    ctx.need(bc is not None, '_boundsconstraints no longer builds the constraint with boundsconstrain')
    S = ('name', sn)
    ctx.check(bc[1][2][:2] == (('attr', S, '_strictMin'), ('attr', S, '_strictMax')) and dict(bc[1][3]).get('clip') == ('name', 'clip')
              and dict(bc[1][3]).get('symbolic') == ('name', 'symbolic'), '_boundsconstraints#args',
              'boundsconstrain(_strictMin, _strictMax, symbolic=symbolic, clip=clip)', '_boundsconstraints calls %s' % T.show(bc[1]), g, bc[0])
    ident = [s for s in g.node.body if isinstance(s, ast.If) and any(isinstance(x, ast.Return) and isinstance(x.value, ast.Lambda) for x in s.body)]
    ok_id = bool(ident) and ''.join(unparse(ident[0].test).split()) == 'not%s._useStrictRangeorignore' % sn
    ctx.check(ok_id, '_boundsconstraints#identity', 'identity only when ranges are off or no keyword was given', 'identity bounds constraint returned under `%s`' % (unparse(ident[0].test) if ident else None), g, ident[0] if ident else g.node)
    h = ctx.func('mystic.constraints:boundsconstrain')
    ns = [s for s in walk_no_nested(h.node) if isinstance(s, ast.If) and ''.join(unparse(s.test).split()) == 'notsymbolic']
    ctx.need(ns, 'boundsconstrain: non-symbolic branch not found')
    txt = ''.join(unparse(ast.Module(body=ns[0].body, type_ignores=[])).split())
    ctx.check('enumerate(zip(min,max))' in txt and 'impose_bounds(cons,clip=clip)' in txt, 'boundsconstrain#nonsymbolic',
              'pairs zip(min,max) per index and forwards clip', 'non-symbolic bounds are built as %s' % txt[:120], h, ns[0])
    sb = calls_where(h.node, lambda c: callee_text(c).endswith('symbolic_bounds'))
    ctx.check(bool(sb) and [unparse(a) for a in sb[0].args[:2]] == ['min', 'max'], 'boundsconstrain#symbolic', 'symbolic_bounds(min, max)',
              'symbolic bounds built from %s' % (unparse(sb[0]) if sb else None), h, sb[0] if sb else h.node)
    # coupling in every _Step and in the nesting decorators
    sites = [(k, ctx.touch(ctx.model.lookup_method(ctx.cls(v), '_Step'))) for k, v in CONCRETE_SOLVERS.items()] + \
            [('base-deco', ctx.func(D.DECORATORS['base'])), ('NM-deco', ctx.func(D.DECORATORS['NM']))]
    for key, m in sites:
        D.check_coupling(ctx, key, m)
