"""C02 - strict ranges: the objective is never evaluated outside the box.

Decided: the gate in wrap_bounds (the target is called only when the gate
predicate is false, and the predicate is true for every ordering that puts a
coordinate outside [min,max]); the gate is installed directly around the
counting wrapper whenever strict ranges are on, in all four decorators; every
method that changes a captured range setting invalidates the objective; Step,
Solve and every _Step re-bootstrap before the first evaluation; members are
clipped on (re)decoration; random initial points use one index for both ends;
SetStrictRanges' stores and (tight, clip) table; bounds constraint wiring.
Round 3: Nelder-Mead publishes its simplex only with row 0 replaced by its
constrained image after the last reordering (path-based).
Round 4: tools.unpair hands the caller's bounds on without a numeric cast (None
stays None).
Round 5 (hunt): the gate of wrap_bounds also fires for a NaN coordinate (order
abstraction with an unordered value; repair 33d3ebf); out-of-box coordinates
are re-drawn only to finite values (repair 39e0e9c).
Round 6: the best slot leaves every _Step holding the and_(constraints, bounds)
image, also on Powell's one-off generation-1 sweep (path rule shared with
C03.b).
NOT decided: that the reported best lies in the box (runtime consequence of inf
energies never winning a <), behaviour of impose_bounds/symbolic bounds on vectors.
"""
import ast

from ..core import rule
from ..srcmodel import AnalysisError, walk_no_nested, attr_chain, unparse, norm_stmt
from ..paths import enumerate_paths
from .. import terms as T
from .. import siblings as SB
from .. import ordabs
from .common import *
from . import decorate as D
from . import invalidate

AS = 'mystic.abstract_solver:AbstractSolver'


@rule('C02.a', min_instances=4)
def the_gate(ctx):
    """wrap_bounds (roles from the data flow, not from names): in the gated wrapper the target is reachable only through the false branch of a predicate over (x, lower, upper) that is true for every ordering with a coordinate outside [lower, upper], the true branch returns inf and the target receives the tested x; lower / upper - whatever the closure variables are called - hold the caller's own min / max (asarray is transparent) or an all -inf / +inf default only where that bound is None; the un-gated wrapper is defined only where both bounds are None"""
    outer = ctx.func('mystic.tools:wrap_bounds')
    tgt = outer.args()[0]
    pmin, pmax = outer.args()[1], outer.args()[2]
    defs = [d for d in walk_no_nested(outer.node, include_lambda=False) if isinstance(d, ast.FunctionDef) and d is not outer.node
            and any(isinstance(n, ast.Call) and isinstance(n.func, ast.Name) and n.func.id == tgt for n in ast.walk(d))]
    ctx.need(defs, 'wrap_bounds: no nested wrapper calls the target')
    info = {}
    for d in defs:
        x = d.args.args[0].arg if d.args.args else None
        ctx.need(x is not None, 'wrap_bounds: wrapper without a parameter')
        X = ('name', x)
        paths = enumerate_paths(d)
        ctx.stats['paths_enumerated'] += len(paths)
        gates, plain_calls, inf_rets, fwd_bad, rewrites = [], 0, [], None, None
        for p in paths:
            b = T.Builder()
            conds = []
            called = None
            ret = None
            for e in p.events:
                if e[0] == 'cond':
                    conds.append((T.simp(b.t(e[1])), e[2], e[1]))
                elif e[0] == 'stmt':
                    st = e[1]
                    for c in calls_where(st, lambda c: isinstance(c.func, ast.Name) and c.func.id == tgt):
                        called = (c, list(conds), T.simp(b.t(c.args[0])) if len(c.args) == 1 else None)
                    if isinstance(st, ast.Return) and st.value is not None:
                        ret = T.simp(b.t(st.value))
                    elif isinstance(st, ast.Assign) and len(st.targets) == 1 and isinstance(st.targets[0], ast.Name):
                        if st.targets[0].id == x:
                            rewrites = st
                        b.exec_stmt(st)
            if called:
                c, cs, arg = called
                if arg != X:
                    fwd_bad = c
                g = [(tt, nd) for tt, tr, nd in cs if tr is False and any(isinstance(q, tuple) and q and q[0] == 'cmp' and X in (q[2], q[3]) for q in T.subterms(tt))]
                if g:
                    gates.append((g[0][0], g[0][1], c, p))
                else:
                    plain_calls += 1
                    gates.append((None, None, c, p))
            elif p.exit == 'return':
                inf_rets.append((ret, p))
        info[d] = dict(x=x, gates=gates, inf_rets=inf_rets, fwd_bad=fwd_bad, rewrites=rewrites, gated=any(g[0] is not None for g in gates))
    gated = [d for d in defs if info[d]['gated']]
    plain = [d for d in defs if not info[d]['gated']]
    ctx.need(gated, 'wrap_bounds: no wrapper tests its argument against the bounds')
    roles = {}
    for d in gated:
        I = info[d]
        X = ('name', I['x'])
        label = 'wrap_bounds.%s' % d.name
        if I['rewrites'] is not None:
            ctx.bad(label + '#x', 'the gate wrapper rewrites its argument before testing/forwarding it', outer, I['rewrites'])
        ctx.check(I['fwd_bad'] is None, label + '#forward', 'target receives the tested x', 'the gated target is called with something else than the vector that was tested', outer, I['fwd_bad'] or d)
        for tt, nd, c, p in I['gates']:
            if tt is None:
                ctx.bad(label + '#gate', 'the target is reachable without passing the bounds test: %s' % p.describe(6), outer, c)
                continue
            others = []
            for q in T.subterms(tt):
                if isinstance(q, tuple) and q and q[0] == 'cmp' and X in (q[2], q[3]):
                    o = q[3] if q[2] == X else q[2]
                    if o not in others:
                        others.append(o)
            if len(others) == 1:
                ctx.bad(label + '#gate', 'the gate %s compares x with one bound only: a coordinate beyond the other bound reaches the target' % T.show(tt)[:80], outer, nd)
                continue
            ctx.need(len(others) == 2 and all(o[0] == 'name' for o in others), 'wrap_bounds: the gate %s does not compare x with two closure variables' % T.show(tt)[:80])
            roles.setdefault(d, set()).update(o[1] for o in others)
            info[d].setdefault('gate_terms', []).append((tt, nd, others))
        for ret, p in I['inf_rets']:
            ctx.check(ret == ('name', 'inf') or ret == ('const', 'inf'), label + '#inf', 'gate true -> returns inf without calling the target',
                      'when the gate fires the wrapper returns %s' % (T.show(ret) if ret else None), outer, p.exit_node)
    # what the closure variables hold: paths of wrap_bounds up to the definition of each wrapper
    opaths = enumerate_paths(outer.node, relevant=lambda n: True)
    ctx.stats['paths_enumerated'] += len(opaths)
    none_min = ('cmp', 'is', ('name', pmin), ('const', None))
    none_max = ('cmp', 'is', ('name', pmax), ('const', None))
    inf_t = ('name', 'inf')
    role_of = {}        # closure name -> 'lower' | 'upper'
    n_g = n_u = 0
    for p in opaths:
        reached = [e[1] for e in p.events if e[0] == 'stmt' and e[1] in defs]
        if not reached:
            continue
        # the wrapper this path hands out: the one it returns (by name), i.e. the last definition executed
        d = reached[-1]
        k = max(i_ for i_, e in enumerate(p.events) if e[0] == 'stmt' and e[1] is d)
        b, conds = symbolic_run(_Prefix(p.events[:k]))
        lits = [(c, tr) for c, tr, _ in conds]
        if any(c[0] == 'const' and isinstance(c[1], bool) and c[1] != tr for c, tr in lits):
            continue          # a flag (`bounds = False`) contradicts the branch taken: infeasible
        if d in plain:
            n_u += 1
            ctx.check(decided(none_min, lits) is True and decided(none_max, lits) is True, 'wrap_bounds#unbounded',
                      'the pass-through wrapper is defined only where min is None and max is None',
                      'the un-gated wrapper is selected on a path that has not established that both bounds are None: %s' % p.describe(6), outer, d)
            continue
        n_g += 1
        for name in sorted(roles.get(d, ())):
            v = T.simp(b.env.get(name, ('name', name)))
            verdict = None
            for pname, atom, sign, role in ((pmin, none_min, -1, 'lower'), (pmax, none_max, 1, 'upper')):
                want = inf_t if sign > 0 else T.simp(T.pneg(inf_t))
                if v == ('name', pname) and decided(atom, lits) is False:
                    verdict = role
                elif v[0] == 'listcomp' and len(v[1]) == 1 and v[1][0] == want and decided(atom, lits) is True:
                    verdict = role
            if verdict is None:
                ctx.bad('wrap_bounds#closure-' + name, 'the gate compares with %s = %s, which is neither the caller\'s own bound nor the infinite default for a missing '
                        'bound (a finite bound can be lost): %s' % (name, T.show(v)[:70], p.describe(5)), outer, d, statement='gate closes over %s = %s' % (name, T.show(v)[:60]))
                continue
            if role_of.setdefault(name, verdict) != verdict:
                ctx.bad('wrap_bounds#closure-' + name, '%s holds the lower bound on one path and the upper bound on another' % name, outer, d)
            else:
                ctx.ok('wrap_bounds#closure-' + name, '%s = the caller\'s %s bound (or its infinite default where it is None)' % (name, verdict), outer, d)
    ctx.need(n_g >= 1, 'wrap_bounds: no path defines the gated wrapper')
    if plain:
        ctx.need(n_u >= 1, 'wrap_bounds: the pass-through wrapper is never reached')
    # the gate predicate over (x, lower, upper)
    for d in gated:
        X = ('name', info[d]['x'])
        for tt, nd, others in info[d].get('gate_terms', []):
            lo = [o for o in others if role_of.get(o[1]) == 'lower']
            hi = [o for o in others if role_of.get(o[1]) == 'upper']
            if len(lo) != 1 or len(hi) != 1:
                continue       # already reported above
            LO, HI = lo[0], hi[0]
            rows, okall = 0, True
            for rank in ordabs.weak_orderings([X, LO, HI]):
                if rank[LO] > rank[HI]:
                    continue
                outside = rank[X] < rank[LO] or rank[X] > rank[HI]
                try:
                    v = ordabs.evaluate(tt, rank)
                except ordabs.Unknown as ex:
                    raise AnalysisError('cannot order-evaluate the gate predicate %s' % ex)
                ctx.stats['orderings_enumerated'] += 1
                rows += 1
                if outside and not v:
                    okall = False
            ctx.check(okall, 'wrap_bounds.%s#gate' % d.name, 'gate %s is true for all %d orderings with x outside [lower, upper]' % (T.show(tt)[:60], rows),
                      'the gate predicate %s is false for an ordering with the coordinate outside [lower, upper]' % T.show(tt), outer, nd)
            # a NaN coordinate is not inside any interval: the gate has to fire for it too (a predicate written as "below or above"
            # is false for NaN, one written as "not (inside)" is true)
            nan_ok = True
            for rank in ordabs.weak_orderings([LO, HI]):
                if rank[LO] > rank[HI]:
                    continue
                rank = dict(rank)
                rank[X] = ordabs.NAN
                ctx.stats['orderings_enumerated'] += 1
                if not ordabs.evaluate(tt, rank):
                    nan_ok = False
            ctx.check(nan_ok, 'wrap_bounds.%s#gate-nan' % d.name, 'the gate also fires for a NaN coordinate',
                      'the gate predicate %s is false for a NaN coordinate (both comparisons are false): a candidate that a constraint or an infinite strict range turned into NaN is handed to the user\'s cost '
                      'although NaN lies in no interval' % T.show(tt), outer, nd)


class _Prefix(object):
    def __init__(self, events):
        self.events = events


@rule('C02.b', min_instances=4)
def gate_installed(ctx):
    """with strict ranges on, wrap_bounds(., _strictMin, _strictMax) sits directly around the counting wrapper (no x-changing wrapper between gate and raw cost)"""
    for key, anchor in D.DECORATORS.items():
        f = ctx.func(anchor)
        for r in D.analyse(ctx, f):
            if not r['strict']:
                continue
            ch = r['chain']
            sn = r['self']
            names = [c[0] for c in ch]
            label = '%s._decorate_objective[strict,reducer=%s]' % (f.cls.name, r['reducer'])
            wb = [c for c in ch if c[0] == 'wrap_bounds']
            good = len(wb) == 1 and names.index('wrap_bounds') + 1 == names.index('wrap_function') if 'wrap_function' in names and wb else False
            good = good and len(wb[0][1]) == 3 and wb[0][1][1] == ('attr', ('name', sn), '_strictMin') and wb[0][1][2] == ('attr', ('name', sn), '_strictMax')
            ctx.check(good, label, 'gate directly around the counter: ' + D.render(ch),
                      'with strict ranges on, the bounds gate is missing, has its arguments crossed, or a wrapper that can change x lies between it and the raw cost: ' + D.render(ch),
                      f, r['path'].exit_node)


@rule('C02.c', min_instances=7)
def reinstallation_after_change(ctx):
    """every method that changes a setting captured by the decorated objective invalidates it (self._live=False via _update_objective/Finalize) on every path"""
    total = 0
    for key, anchor in CONCRETE_SOLVERS.items():
        cls = ctx.cls(anchor)
        want = {'_useStrictRange', '_strictMin', '_strictMax'}
        n, decoin = invalidate.check_class(ctx, key, cls, only_attrs=want | {'_strictbounds'}, label_prefix=key + ':')
        total += n
        ctx.need(want <= decoin, 'DecoIn(%s) = %s lacks %s' % (cls.name, sorted(decoin), sorted(want - decoin)))
    # Finalize / _update_objective themselves
    base = ctx.cls(AS)
    for name in ('Finalize', '_update_objective'):
        for m in ctx.model.overriders(base, name):
            ctx.touch(m)
            ctx.check(invalidate.clears_live_everywhere(ctx, m), '%s.%s' % (ctx.model.enclosing_class(m).name, name),
                      'clears _live on every normal path', '%s.%s can return with the objective still marked live' % (ctx.model.enclosing_class(m).name, name), m, m.node)


@rule('C02.d', min_instances=7)
def step_redecorates(ctx):
    """_bootstrap_objective returns the stored objective only while _live; Step, Solve and every _Step call it before the first evaluation"""
    f = ctx.func(AS + '._bootstrap_objective')
    sn = selfname_of(f)
    # per return path (locals substituted): either the stored objective self._cost[0], and then the path has established
    # self._live, or a fresh self._decorate_objective(...)
    rts = return_terms(f.node)
    ctx.need(len(rts) >= 2, '_bootstrap_objective: expected a path that reuses and a path that re-decorates')
    ctx.stats['paths_enumerated'] += len(rts)
    live = ('attr', ('name', sn), '_live')
    n_reuse = n_new = 0
    for p, term, b, conds in rts:
        is_new = term[0] == 'call' and term[1] == ('attr', ('name', sn), '_decorate_objective')
        if is_new:
            n_new += 1
            continue
        n_reuse += 1
        knows_live = any(tr and (c == live or (c[0] == 'and' and live in c[1:])) for c, tr, _ in conds)
        ctx.check(knows_live, 'AbstractSolver._bootstrap_objective#early', 'the stored objective is reused only if self._live',
                  'the stored objective (%s) is returned on a path that has not established self._live: %s' % (T.show(term)[:50], p.describe(5)), f, p.exit_node)
    ctx.check(n_new >= 1, 'AbstractSolver._bootstrap_objective#final', 'otherwise the objective is re-decorated',
              'no path of _bootstrap_objective returns a fresh self._decorate_objective(...)', f, f.node)
    base = ctx.cls(AS)
    for name in ('Step', 'Solve'):
        m = ctx.func(AS + '.' + name)
        sn = selfname_of(m)
        boots = calls_where(m.node, lambda c: self_call(c, '_bootstrap_objective', sn))
        runs = calls_where(m.node, lambda c: self_call(c, '_Step', sn) or self_call(c, '_Solve', sn))
        good = boots and runs and not guards_of(enclosing_stmt(boots[0]), stop=m.node) and boots[0].lineno < runs[0].lineno
        ctx.check(bool(good), 'AbstractSolver.%s#bootstrap' % name, 'bootstraps unconditionally before stepping',
                  '%s no longer (re)builds the objective before stepping' % name, m, boots[0] if boots else m.node)
    for key, anchor in CONCRETE_SOLVERS.items():
        cls = ctx.cls(anchor)
        m = ctx.touch(ctx.model.lookup_method(cls, '_Step'))
        sn = selfname_of(m)
        boots = [s for s in m.node.body if isinstance(s, ast.Assign) and isinstance(s.value, ast.Call) and self_call(s.value, '_bootstrap_objective', sn)]
        evals = calls_where(m.node, lambda c: (isinstance(c.func, ast.Name) and c.func.id == 'cost') or
                            any(isinstance(a, ast.Name) and a.id == 'cost' for a in c.args), include_lambda=False)
        evals = [c for c in evals if not self_call(c, '_bootstrap_objective', sn)]
        ctx.need(evals, 'no evaluation in %s._Step' % cls.name)
        good = len(boots) == 1 and isinstance(boots[0].targets[0], ast.Name) and boots[0].targets[0].id == 'cost' and \
            all(boots[0].lineno < c.lineno for c in evals)
        ctx.check(bool(good), '%s._Step#bootstrap' % cls.name, 'cost = self._bootstrap_objective(...) precedes all %d evaluations' % len(evals),
                  'an evaluation in _Step can use an objective that was not re-bootstrapped', m, boots[0] if boots else evals[0])


@rule('C02.e', min_instances=6)
def members_clipped_on_decoration(ctx):
    """under strict ranges every member is clipped when the objective is (re)decorated; the clip helpers use (min,max) in order"""
    for key in ('base', 'DE', 'DE2'):
        f = ctx.func(D.DECORATORS[key])
        sn = selfname_of(f)
        loops = [n for n in walk_no_nested(f.node) if isinstance(n, ast.For)]
        found = None
        for lp in loops:
            if not any(g[1] and ''.join(unparse(g[0]).split()) == '%s._useStrictRange' % sn for g in guards_of(lp, stop=f.node)):
                continue
            it = ''.join(unparse(lp.iter).split())
            for st in lp.body:
                if isinstance(st, ast.Assign) and isinstance(st.value, ast.Call) and self_call(st.value, '_clipGuessWithinRangeBoundary', sn):
                    found = (lp, st, it)
        ctx.need(found is not None or True, '')
        if found is None:
            ctx.bad('%s._decorate_objective#clip' % f.cls.name, 'under strict ranges the members are no longer clipped into the box when the objective is decorated', f, f.node)
            continue
        lp, st, it = found
        i = lp.target.id if isinstance(lp.target, ast.Name) else None
        tg = ''.join(unparse(st.targets[0]).split())
        a0 = ''.join(unparse(st.value.args[0]).split()) if st.value.args else ''
        good = it in ('range(%s.nPop)' % sn, 'range(len(%s.population))' % sn) and tg in ('%s.population[%s][:]' % (sn, i), '%s.population[%s]' % (sn, i)) \
            and a0 == '%s.population[%s]' % (sn, i)
        ctx.check(good, '%s._decorate_objective#clip' % f.cls.name, 'all members: population[i] = clip(population[i]) for i in %s' % it,
                  'not every member is clipped: loop over %s stores %s from %s' % (it, tg, a0), f, st)
    f = ctx.func(D.DECORATORS['NM'])
    sn = selfname_of(f)
    under = [n for n in walk_no_nested(f.node) if isinstance(n, ast.If) and ''.join(unparse(n.test).split()) == '%s._useStrictRange' % sn]
    ctx.need(under, 'NM decorator: no strict-range branch')
    inner = [n for n in under[0].body if isinstance(n, ast.If)]
    ctx.need(inner, 'NM decorator: generation dispatch not found')
    reb = calls_where(ast.Module(body=inner[0].body, type_ignores=[]), lambda c: self_call(c, '_setSimplexWithinRangeBoundary', sn))
    clp = [s for s in inner[0].orelse if isinstance(s, ast.Assign) and isinstance(s.value, ast.Call) and self_call(s.value, '_clipGuessWithinRangeBoundary', sn)
           and ''.join(unparse(s.targets[0]).split()) == '%s.population[0]' % sn]
    ctx.check(bool(reb) and bool(clp), 'NelderMeadSimplexSolver._decorate_objective#clip', 'simplex rebuilt inside the box (generations>0) or vertex 0 clipped',
              'Nelder-Mead no longer pulls its simplex/initial vertex into the box on decoration', f, inner[0])
    # helpers (behavioural summaries against reference transcriptions: renamed locals, temporaries and regrouping are absorbed)
    from .c02_refs import REFS
    for a, what in ((AS + '._clipGuessWithinRangeBoundary', 'clip(x0, _strictMin, _strictMax); at=False redraws the out-of-box coordinates uniformly inside (min, max)'),
                    ('mystic.scipy_optimize:NelderMeadSimplexSolver._setSimplexWithinRangeBoundary', 'simplex built around x0 and cropped: val<lo -> lo, val>hi -> hi with lo=_strictMin, hi=_strictMax')):
        g = ctx.func(a)
        got, want = SB.agree(g.node, REFS[a], strict_casts=True)
        ctx.stats['terms_compared'] += len(got)
        ctx.check(got == want, g.qualname.split('.')[-1], what, '%s differs from its confirmed behaviour: %s' % (g.qualname, SB.diff(got, want)), g, g.node)


@rule('C02.f', min_instances=2)
def random_points_inside_limits(ctx):
    """SetRandomInitialPoints draws population[i][j] = uniform(min[j], max[j]) for every member and dimension (None -> defaults); SetInitialPoints brackets x0*(1-r), x0*(1+r) (zeros -> -/+radius), draws inside and then pins member 0 to x0"""
    from .c02_refs import REFS
    for a, what in ((AS + '.SetRandomInitialPoints', 'population[i][j] = uniform(min[j], max[j]), all members x all dimensions'),
                    (AS + '.SetInitialPoints', 'brackets x0*(1-r), x0*(1+r), draws inside, pins member 0 to x0')):
        g = ctx.func(a)
        got, want = SB.agree(g.node, REFS[a], strict_casts=True)
        ctx.stats['terms_compared'] += len(got)
        ctx.check(got == want, g.qualname.split('.')[-1], what, '%s differs from its confirmed behaviour: %s' % (g.qualname, SB.diff(got, want)), g, g.node)


@rule('C02.g', min_instances=9)
def bounds_as_constraint(ctx):
    """SetStrictRanges stores (True, min, max) uncrossed and rejects min>max; (tight,clip) table; _boundsconstraints/boundsconstrain pass (min,max) in order; every _Step couples and_(constraints, bounds, onfail=bounds)"""
    f = ctx.func(AS + '.SetStrictRanges')
    sn = selfname_of(f)
    S = ('name', sn)
    pmin, pmax = f.args()[1], f.args()[2]
    bcalls = calls_where(f.node, lambda c: self_call(c, '_boundsconstraints', sn), include_lambda=False)
    ctx.need(bcalls, 'SetStrictRanges no longer builds the bounds constraint with self._boundsconstraints')

    def rel(n):
        if isinstance(n, (ast.Return, ast.Raise)):
            return True
        if isinstance(n, (ast.Assign, ast.AugAssign)):
            return True
        return False
    paths = [p for p in enumerate_paths(f.node, relevant=rel, unroll=(0, 1)) if p.exit != 'raise']
    ctx.stats['paths_enumerated'] += len(paths)
    n_on = n_tab = 0
    # the two keyword settings stay symbolic (their extraction from kwds is not what the table is about)
    role = {}
    kwp = f.node.args.kwarg.arg if f.node.args.kwarg else 'kwds'
    for s_ in f.node.body:
        if isinstance(s_, ast.Assign) and len(s_.targets) == 1 and isinstance(s_.targets[0], ast.Name):
            for key in ('tight', 'clip'):
                if t(s_.value) == T.term(ast.parse("%s[%r] if %r in %s else None" % (kwp, key, key, kwp), mode='eval').body) or \
                        t(s_.value) == T.term(ast.parse("%s.get(%r)" % (kwp, key), mode='eval').body) or \
                        t(s_.value) == T.term(ast.parse("%s.get(%r, None)" % (kwp, key), mode='eval').body):
                    role[key] = (s_.targets[0].id, s_)
    ctx.need(sorted(role) == ['clip', 'tight'], 'SetStrictRanges: tight / clip are no longer read from the keywords')
    tname, cname = role['tight'][0], role['clip'][0]
    kwstmts = [role['tight'][1], role['clip'][1]]
    clipnone = ('cmp', 'is', ('name', cname), ('const', None))
    for p in paths:
        b, conds = symbolic_run(_Prefix([e for e in p.events if not (e[0] == 'stmt' and e[1] in kwstmts)]))
        lits = [(c, tr) for c, tr, _ in conds]
        # constant flags contradicting the branch: infeasible
        if any(c[0] == 'const' and isinstance(c[1], bool) and c[1] != tr for c, tr in lits):
            continue
        use = b.env.get('%s._useStrictRange' % sn)
        if use == ('const', True):
            n_on += 1
            smin, smax = T.simp(b.env.get('%s._strictMin' % sn, ('const', None))), T.simp(b.env.get('%s._strictMax' % sn, ('const', None)))
            okmin = smin in (('name', pmin), ('attr', S, '_defaultMin'))
            okmax = smax in (('name', pmax), ('attr', S, '_defaultMax'))
            ctx.check(okmin and okmax, 'SetStrictRanges#stores', '_useStrictRange=True, _strictMin=min, _strictMax=max (defaults where None)',
                      'a path that switches the ranges on stores _strictMin=%s, _strictMax=%s' % (T.show(smin)[:40], T.show(smax)[:40]), f, p.exit_node)
            rejected = any(tr is False and any(x == ('cmp', '<', smax, smin) for x in T.subterms(c)) for c, tr in lits)
            ctx.check(rejected, 'SetStrictRanges#reject', 'min > max is rejected before the stores', 'a box with min > max is no longer rejected before being stored: %s' % p.describe(6), f, p.exit_node)
        # (tight, clip) decision table: what is handed to _boundsconstraints on this path
        a = None
        for e in p.events:
            if e[0] == 'stmt':
                for c_ in calls_where(e[1], lambda c: self_call(c, '_boundsconstraints', sn), include_lambda=False):
                    kk = [k.value for k in c_.keywords if k.arg is None]
                    if kk:
                        a = T.simp(b.t(kk[0]))
        if a is None:
            continue
        tight, clip = ('name', tname), ('name', cname)
        for cl, leaf in T.cases(T.simp(a)):
            n_tab += 1
            know = dict(lits)
            know.update(dict(cl))
            cn = know.get(clipnone)
            kw = dict(leaf[3]) if leaf[0] == 'call' and T.show(leaf[1]) == 'dict' else ({} if leaf == ('dict',) else None)
            if cn is True:
                tt = know.get(tight)
                want = {'symbolic': ('const', True)} if tt is True else ({} if tt is False else None)
            elif cn is False:
                want = {'symbolic': ('const', False), 'clip': clip}
            else:
                want = None
            ctx.check(kw is not None and want is not None and kw == want, 'SetStrictRanges#table',
                      'clip=None: symbolic iff tight; clip given: symbolic=False, clip=clip',
                      'the (tight, clip) table hands %s to _boundsconstraints under %s' % (T.show(leaf)[:60], [(T.show(c)[:40], tr) for c, tr in list(cl)[:3]]), f, bcalls[0])
    ctx.need(n_on >= 1 and n_tab >= 3, 'SetStrictRanges: success path / decision table not recognised (%d / %d)' % (n_on, n_tab))
    # clip given while tight is False is refused
    refusals = [n for n in walk_no_nested(f.node) if isinstance(n, ast.If) and any(isinstance(x, ast.Raise) for x in n.body) and tname in [x.id for x in ast.walk(n.test) if isinstance(x, ast.Name)]]
    ctx.check(bool(refusals), 'SetStrictRanges#table-refusal', 'clip with tight=False raises', 'clip given with tight=False is no longer refused', f, refusals[0] if refusals else f.node)
    g = ctx.func(AS + '._boundsconstraints')
    sn = selfname_of(g)
    S = ('name', sn)
    rts = return_terms(g.node)
    ctx.need(rts, '_boundsconstraints: no return')
    ctx.stats['paths_enumerated'] += len(rts)
    n_bc = n_id = 0
    for p, term, b, conds in rts:
        if term[0] == 'lambda':
            n_id += 1
            is_identity = len(term[1]) == 1 and term[3] == ('name', term[1][0])
            # the branch that hands out the identity: ranges off, or no keyword given (symbolic still None after the defaults)
            last = [(c, tr) for c, tr, _ in conds if tr][-1:] if conds else []
            parts = []
            for c, tr in last:
                parts = list(c[1:]) if c[0] == 'or' else [c]
            off = ('not', ('attr', S, '_useStrictRange')) in parts
            nokw = any(q[0] == 'cmp' and q[1] == 'is' and q[3] == ('const', None) for q in parts)
            ctx.check(is_identity and off and nokw and len(parts) == 2, '_boundsconstraints#identity', 'identity only when ranges are off or no keyword was given',
                      'identity bounds constraint returned under `%s`' % (T.show(last[0][0])[:80] if last else None), g, p.exit_node)
        else:
            n_bc += 1
            good = term[0] == 'call' and T.show(term[1]) in ('bcon', 'boundsconstrain') and term[2][:2] == (('attr', S, '_strictMin'), ('attr', S, '_strictMax')) \
                and 'clip' in dict(term[3]) and 'symbolic' in dict(term[3])
            ctx.check(good, '_boundsconstraints#args', 'boundsconstrain(_strictMin, _strictMax, symbolic=symbolic, clip=clip)', '_boundsconstraints returns %s' % T.show(term)[:120], g, p.exit_node)
    ctx.need(n_bc >= 1 and n_id >= 1, '_boundsconstraints: expected an identity path and a boundsconstrain path (found %d / %d)' % (n_id, n_bc))
    h = ctx.func('mystic.constraints:boundsconstrain')
    ns = [s for s in walk_no_nested(h.node) if isinstance(s, ast.If) and ''.join(unparse(s.test).split()) == 'notsymbolic']
    ctx.need(ns, 'boundsconstrain: non-symbolic branch not found')
    txt = ''.join(unparse(ast.Module(body=ns[0].body, type_ignores=[])).split())
    ctx.check('enumerate(zip(min,max))' in txt and 'impose_bounds(cons,clip=clip)' in txt, 'boundsconstrain#nonsymbolic',
              'pairs zip(min,max) per index and forwards clip', 'non-symbolic bounds are built as %s' % txt[:120], h, ns[0])
    sb = calls_where(h.node, lambda c: callee_text(c).endswith('symbolic_bounds'))
    ctx.check(bool(sb) and [unparse(a) for a in sb[0].args[:2]] == ['min', 'max'], 'boundsconstrain#symbolic', 'symbolic_bounds(min, max)',
              'symbolic bounds built from %s' % (unparse(sb[0]) if sb else None), h, sb[0] if sb else h.node)
    # coupling in every _Step and in the nesting decorators
    sites = [(k, ctx.touch(ctx.model.lookup_method(ctx.cls(v), '_Step'))) for k, v in CONCRETE_SOLVERS.items()] + \
            [('base-deco', ctx.func(D.DECORATORS['base'])), ('NM-deco', ctx.func(D.DECORATORS['NM']))]
    for key, m in sites:
        D.check_coupling(ctx, key, m)


@rule('C02.h', min_instances=1)
def simplex_best_vertex_is_published_constrained(ctx):
    """Nelder-Mead, every path after generation 0 (roles from the data flow): the array published as self.population has had its row 0 replaced by constraints(row 0) AFTER the last statement that rebinds or reorders the array - the accepted vertex is kept raw while its energy is that of its constrained image, so once the sort brings it to the front the reported best would lie outside the box / off the constraint"""
    f = ctx.func('mystic.scipy_optimize:NelderMeadSimplexSolver._Step')
    sn = selfname_of(f)
    pubs = [s for s in stmts_of(f.node) if isinstance(s, ast.Assign) and any(is_self_attr(tg, 'population', sn) for tg in s.targets) and isinstance(s.value, ast.Name)]
    ctx.need(pubs, 'NelderMeadSimplexSolver._Step no longer publishes a local array as self.population')
    simv = pubs[-1].value.id
    cons = set()
    for s in stmts_of(f.node):
        if isinstance(s, ast.Assign) and len(s.targets) == 1 and isinstance(s.targets[0], ast.Name) and \
                any(isinstance(x, ast.Attribute) and x.attr == '_constraints' for x in ast.walk(s.value)):
            cons.add(s.targets[0].id)
    ctx.need(cons, 'no local holds the (coupled) constraints in NelderMeadSimplexSolver._Step')

    def touches(st):
        for n in ast.walk(st):
            if isinstance(n, ast.Name) and n.id == simv and isinstance(n.ctx, ast.Store):
                return 'rebind'
            if isinstance(n, ast.Subscript) and isinstance(n.ctx, ast.Store):
                base = n
                while isinstance(base, ast.Subscript):
                    base = base.value
                if isinstance(base, ast.Name) and base.id == simv:
                    return 'store'
        return None

    def is_row0_constrained(st):
        if not (isinstance(st, ast.Assign) and len(st.targets) == 1):
            return False
        tg = T.term(st.targets[0])
        row0 = ('sub', ('name', simv), T.num(0))
        if tg != row0:
            return False
        v = T.term(st.value)
        return any(isinstance(x, tuple) and x and x[0] == 'call' and x[1][0] == 'name' and x[1][1] in cons and x[2] == (row0,) for x in T.subterms(v))

    def rel(n):
        return isinstance(n, (ast.Assign, ast.AugAssign)) and (touches(n) is not None or n in pubs)
    paths = [p for p in enumerate_paths(f.node, relevant=rel, unroll=(0, 1)) if p.exit != 'raise']
    ctx.stats['paths_enumerated'] += len(paths)
    S = ('name', sn)
    n_later = 0
    bad = None
    for p in paths:
        gen0 = None
        clean = False
        infeasible = False
        for e in p.events:
            if infeasible:
                break
            if e[0] == 'cond':
                c = T.simp(T.term(e[1]))
                tr = e[2]
                while c[0] == 'not':
                    c, tr = c[1], not tr
                if c == ('call', ('name', 'len'), (('attr', S, '_stepmon'),), ()):
                    if gen0 is None:
                        gen0 = not tr
                    elif gen0 != (not tr):
                        infeasible = True      # the log cannot be empty and non-empty within one step (no record is made before)
            elif e[0] == 'stmt':
                st = e[1]
                if st in pubs:
                    if gen0 is False and not infeasible:
                        n_later += 1
                        if not clean:
                            bad = p
                    continue
                if is_row0_constrained(st):
                    clean = True
                elif touches(st):
                    clean = False
    ctx.need(n_later >= 1, 'NelderMeadSimplexSolver._Step: no path after generation 0 publishes the simplex')
    ctx.check(bad is None, 'NelderMeadSimplexSolver._Step#best-vertex', '%s[0] = constraints(%s[0]) is the last change of the array before it is published (%d paths)' % (simv, simv, n_later),
              'the simplex is published with a row 0 that is not known to be its constrained image: the array is rebound / reordered after the last %s[0] = constraints(%s[0]) on path %s'
              % (simv, simv, bad.describe(6) if bad else ''), f, pubs[-1])


@rule('C02.i', min_instances=1)
def wrappers_hand_the_bounds_on_unchanged(ctx):
    """the one-line interfaces split bounds=[(lo, hi), ...] with tools.unpair before SetStrictRanges: unpair transposes and returns plain lists WITHOUT a numeric cast, so an open side written as None reaches SetStrictRanges as None (and gets its default) - cast to float it becomes nan, which passes the min > max check and the gate, and the cost is called with nan coordinates"""
    f = ctx.func('mystic.tools:unpair')
    ref = 'def unpair(pairs):\n    from numpy import asarray\n    pairsT = asarray(pairs).transpose()\n    return [i.tolist() for i in pairsT]\n'
    from .. import siblings as SB
    got, want = SB.agree(f.node, ref, strict_casts=True)
    ctx.stats['terms_compared'] += len(got)
    ctx.check(got == want, 'tools.unpair', 'asarray(pairs).transpose() -> lists, no dtype', 'unpair differs from its confirmed behaviour: %s' % SB.diff(got, want)[:300], f, f.node)


RAW_COST_REGISTRATION = ('SetObjective', '_bootstrap_objective', 'Solve', 'Step', '_Step', '_Solve')


@rule('C02.j', min_instances=3)
def only_the_decorated_objective_evaluates_the_cost(ctx):
    """who may call the raw cost: wherever package code reads a solver's raw cost (<solver>._cost[1]) it only tests it or hands it back to the registration / run interface (SetObjective, _bootstrap_objective, Solve, Step), which wrap it in the bounds gate again; calling it, or handing it to anything else (a finite-difference gradient), evaluates the user's cost outside the gate - outside the strict ranges, uncounted and unlogged"""
    n = 0
    for mname, m in sorted(ctx.model.modules.items()):
        if mname.startswith('mystic.tests') or mname.startswith('mystic.models'):
            continue
        for q, fi in sorted(m.funcs.items()):
            local = {}
            for st in stmts_of(fi.node):
                if isinstance(st, ast.Assign) and len(st.targets) == 1 and isinstance(st.targets[0], ast.Name) and ''.join(unparse(st.value).split()).endswith('._cost[1]'):
                    local[st.targets[0].id] = st

            def is_raw(e):
                return (isinstance(e, ast.Subscript) and ''.join(unparse(e).split()).endswith('._cost[1]')) or (isinstance(e, ast.Name) and e.id in local)
            for c in [x for x in ast.walk(fi.node) if isinstance(x, ast.Call)]:
                uses = []
                if is_raw(c.func):
                    uses.append('called directly')
                for a in list(c.args) + [k.value for k in c.keywords]:
                    if is_raw(a):
                        callee = c.func.attr if isinstance(c.func, ast.Attribute) else (c.func.id if isinstance(c.func, ast.Name) else '?')
                        if callee not in RAW_COST_REGISTRATION:
                            uses.append('handed to %s()' % callee)
                        else:
                            n += 1
                            ctx.touch(fi)
                            ctx.ok('%s#raw-cost->%s' % (fi.qualname, callee), 'the raw cost is handed back to the registration / run interface', fi, c)
                for u in uses:
                    n += 1
                    ctx.touch(fi)
                    ctx.bad('%s#raw-cost' % fi.qualname, '%s evaluates the user\'s raw cost outside the decorated objective (%s): with strict ranges the cost is called outside the box, and the call is neither counted nor logged'
                            % (fi.qualname, u), fi, enclosing_stmt(c) or fi.node, statement='raw cost %s' % u)
    ctx.need(n >= 3, 'expected >= 3 uses of <solver>._cost[1] as a value, found %d' % n)


@rule('C02.k', min_instances=6)
def the_best_slot_leaves_every_step_inside_the_box(ctx):
    """with the ranges in force from the first iteration a finite reported energy goes with a reported solution inside the box: under strict ranges the constraints every solver applies are and_(constraints, bounds, onfail=bounds) (C02.g), and the best slot must leave every _Step holding that image - on every path, also the one-off generation-1 sweep of Powell (path rule shared with C03.b)"""
    from .c03 import reported_point_is_constrained_image
    reported_point_is_constrained_image(ctx)
