"""reference transcriptions (confirmed by reading on the pinned tree) for C10.b: how compound conditions evaluate and report their members"""
REFS = {
    'mystic.termination:When.__call__':
        "def __call__(self, solver, info=False):\n    if info == 'not':\n        met = self(solver, 'self')\n        return tuple((f for f in self if not any((f is g for g in met))))\n    stop = [(f, f(solver, info)) for f in self]\n    _all = all((met for f, met in stop))\n    if not info:\n        return _all\n    if info == 'self':\n        return tuple((f for f, met in stop)) if _all else ()\n    return '; '.join(set('; '.join((met for f, met in stop)).split('; '))) if _all else ''\n",
    'mystic.termination:Or.__call__':
        "def __call__(self, solver, info=False):\n    if info == 'not':\n        met = self(solver, 'self')\n        return tuple((f for f in self if not any((f is g for g in met))))\n    stop = [(f, f(solver, info)) for f in self]\n    _any = any((met for f, met in stop))\n    if not info:\n        return _any\n    stop = [(f, met) for f, met in stop if met]\n    if info == 'self':\n        return tuple((f for f, met in stop))\n    return '; '.join(set('; '.join((met for f, met in stop)).split('; ')))\n",
}
