"""reference transcriptions (confirmed by reading on the pinned tree) for C10.b: how compound conditions evaluate and report their members"""
REFS = {
    'mystic.termination:When.__call__':
        "def __call__(self, solver, info=False):\n    if info == 'not':\n        return tuple(set([f for f in self if f not in self(solver, 'self')]))\n    stop = {}\n    for f in self:\n        stop.update({f: f(solver, info)})\n    _all = all(stop.values())\n    if not info:\n        return _all\n    if info == 'self':\n        return tuple(set(stop.keys())) if _all else ()\n    return '; '.join(set('; '.join(stop.values()).split('; '))) if _all else ''\n",
    'mystic.termination:Or.__call__':
        "def __call__(self, solver, info=False):\n    if info == 'not':\n        return tuple(set([f for f in self if f not in self(solver, 'self')]))\n    stop = {}\n    for f in self:\n        stop.update({f: f(solver, info)})\n    _any = any(stop.values())\n    if not info:\n        return _any\n    for cond, met in tuple(stop.items()):\n        if not met:\n            stop.pop(cond)\n    if info == 'self':\n        return tuple(set(stop.keys()))\n    return '; '.join(set('; '.join(stop.values()).split('; ')))\n",
}
