"""C06 - a checkpointed solver resumes exactly as if it had never been interrupted.

Decided: all iteration state lives on the instance (no global/nonlocal/class/
function-attribute state in solver classes, no pickling filters); whole-object
save and whole-dict restore; every concrete solver class is importable from
mystic.solvers (LoadSolver instantiates the recorded type from there); a
checkpoint is taken only at a quiescent point (no store to iteration state after
the last save on any path of _Step/Finalize/Step/_Solve); custom __reduce__
implementations preserve every attribute; __deepcopy__ copies the decorated cost
together with the cells it closes over; the restart file is registered.
Round 3: sticky run settings are stored from the settings dict only after the
caller's keywords were merged into it; the forced dump at a stop always reaches
SaveSolver (truth-table feasibility under force=True and a registered file) and
Step requests it after logging STOP.
Round 4: __load_state does nothing but the transplant; class-level containers
mutated through self are state outside the instance; a local standing for a
stored setting counts as that setting in the sticky-settings rule.
Round 5 (hunt): a solver restored from the periodic dump of its last generation
is finalized by the next Step (shared with C04.o).
Round 6: a re-decorated objective keeps counting from the stored count; the
best point is stored as a copy, never a view of a member; Solve / Step
overrides hand the caller's keywords on unchanged.
NOT decided: bit-equality of continued trajectories, RNG state (premise), bytes.
"""
import ast

from ..core import rule
from ..srcmodel import AnalysisError, walk_no_nested, attr_chain, unparse, norm_stmt
from ..paths import enumerate_paths
from ..callgraph import attr_writes
from .. import terms as T
from .common import *
from . import decorate as D

AS = 'mystic.abstract_solver:AbstractSolver'
FILTERS = ('__slots__', '__getstate__', '__setstate__', '__reduce__', '__reduce_ex__', '__getnewargs__', '__getnewargs_ex__')


def _solver_classes(ctx):
    return ctx.model.subclasses(ctx.cls(AS))


@rule('C06.a', min_instances=10)
def state_lives_on_the_instance(ctx):
    """solver classes keep no state in globals, class attributes or function attributes and define no pickling filter"""
    for k in _solver_classes(ctx):
        bad = []
        for name in FILTERS:
            if name in k.methods or name in k.class_attrs:
                bad.append((k.node, 'defines %s, which can filter the pickled state' % name))
        for mname, m in k.methods.items():
            ctx.touch(m)
            sn = selfname_of(m)
            for n in [x for x in ast.walk(m.node)]:
                if isinstance(n, (ast.Global, ast.Nonlocal)):
                    bad.append((n, '%s declares %s %s' % (mname, type(n).__name__.lower(), ','.join(n.names))))
                if isinstance(n, ast.Attribute) and isinstance(n.ctx, ast.Store):
                    root = n.value
                    txt = ''.join(unparse(root).split())
                    if txt in ('%s.__class__' % sn, 'type(%s)' % sn, 'cls') or (isinstance(root, ast.Name) and root.id == k.name):
                        bad.append((n, '%s stores to the class attribute %s' % (mname, unparse(n))))
                    if isinstance(root, ast.Attribute) and is_self_attr(root, None, sn) and root.attr in k.methods:
                        bad.append((n, '%s stores state on the function object %s' % (mname, unparse(root))))
        for kk, a, m, node in shared_class_containers(ctx.model, [k]):
            bad.append((node, '%s mutates the class-level container %s.%s, which every instance shares' % (m.qualname, kk.name, a)))
        if bad:
            for node, msg in bad:
                ctx.bad(k.name, 'solver state outside the instance dict would not travel with the checkpoint: ' + msg, k.methods.get('__init__') or next(iter(k.methods.values()), None), node)
        else:
            ctx.ok(k.name, '%d methods: no global/nonlocal/class/function-attribute state, no pickling filter' % len(k.methods),
                   next(iter(k.methods.values()), None), k.node)


@rule('C06.b', min_instances=5)
def whole_object_save_and_restore(ctx):
    """SaveSolver dumps self in one dill.dump; __load_state updates the whole __dict__; LoadSolver instantiates the recorded type, and every concrete solver is importable from mystic.solvers"""
    f = ctx.func(AS + '.SaveSolver')
    sn = selfname_of(f)
    dumps = calls_where(f.node, lambda c: callee_text(c).endswith('dump'))
    good = len(dumps) == 1 and callee_text(dumps[0]) in ('dill.dump',) and dumps[0].args and isinstance(dumps[0].args[0], ast.Name) and dumps[0].args[0].id == sn
    ctx.check(good, 'AbstractSolver.SaveSolver', 'dill.dump(self, f) once', 'SaveSolver no longer pickles the whole solver object in one dill.dump(self, ...)', f, dumps[0] if dumps else f.node)
    g = ctx.func(AS + '.__load_state')
    sn = selfname_of(g)
    src_p = g.args()[1]
    bld = T.Builder()
    ups = []
    for st in stmts_of(g.node):
        for c in calls_where(st, lambda c: isinstance(c.func, ast.Attribute) and c.func.attr == 'update', include_lambda=False):
            ups.append((c, T.simp(bld.t(c.func.value)), [T.simp(bld.t(a)) for a in c.args]))
        if isinstance(st, ast.Assign) and all(isinstance(tg, ast.Name) for tg in st.targets):
            bld.exec_stmt(st)
    good = len(ups) == 1 and ups[0][1] == ('attr', ('name', sn), '__dict__') and ups[0][2][:1] == [('attr', ('name', src_p), '__dict__')]
    ctx.check(good, 'AbstractSolver.__load_state', 'self.__dict__.update(solver.__dict__, **kwds)',
              '__load_state no longer transplants the whole instance dict', g, ups[0][0] if ups else g.node)
    # the transplant is ALL __load_state does to the solver: any further store (resetting _live, counters, monitors) makes the
    # restored solver differ from the one that was saved - e.g. a cleared _live re-decorates the objective at the next step,
    # which rebuilds a bounded simplex / consumes random numbers while re-clipping
    extra = [(a, node) for a, kind, node in attr_writes(g.node, sn) if a != '__dict__']
    ctx.check(not extra, 'AbstractSolver.__load_state#only-transplant', 'no attribute of the solver is written besides the __dict__ update',
              '__load_state also writes %s after transplanting the saved state: the restored solver is not the solver that was saved' % sorted(set(a for a, n_ in extra)),
              g, extra[0][1] if extra else g.node)
    # LoadSolver (and the private helpers it calls): a fresh instance of the recorded type, imported from mystic.solvers, then the transplant
    h = ctx.func('mystic.solvers:LoadSolver')
    scope = [h]
    for tgt, node in ctx.cg.callees(h):
        if hasattr(tgt, 'anchor') and tgt.module is h.module and tgt not in scope:
            scope.append(ctx.touch(tgt))
    text = ' '.join(unparse(x.node) for x in scope)
    recorded = '._type' in text and 'from mystic.solvers import %s' in text
    transplant = any(calls_where(x.node, lambda c: isinstance(c.func, ast.Attribute) and c.func.attr == '_AbstractSolver__load_state', include_lambda=False) for x in scope)
    ctx.check(recorded and transplant, 'LoadSolver', 'instantiates the recorded _type from mystic.solvers, then transplants the state',
              'LoadSolver no longer rebuilds an instance of the recorded type from mystic.solvers', h, h.node)
    # exhaustiveness: every class with a concrete _Step is bound in mystic.solvers
    solvers_mod = ctx.model.module('mystic.solvers')
    for k in _solver_classes(ctx):
        step = k.methods.get('_Step')
        if step is None:
            continue
        concrete = not any(isinstance(n, ast.Raise) and 'NotImplementedError' in unparse(n) for n in step.node.body)
        if not concrete:
            continue
        # an abstract ensemble _Step is concrete code but the class is abstract (its _InitialPoints raises)
        ip = ctx.model.lookup_method(k, '_InitialPoints')
        if ip is not None and any(isinstance(n, ast.Raise) for n in ip.node.body):
            continue
        r = ctx.model.resolve_global(solvers_mod, k.name)
        ctx.check(bool(r) and r[0] == 'class' and r[1] is k, 'mystic.solvers#' + k.name, 'importable from mystic.solvers',
                  'solver class %s cannot be imported from mystic.solvers, so LoadSolver cannot restore it' % k.name, step, k.node)


def _iteration_state(ctx):
    state = set()
    for key, anchor in CONCRETE_SOLVERS.items():
        cls = ctx.cls(anchor)
        m = ctx.model.lookup_method(cls, '_Step')
        for a, kind, node in attr_writes(m.node, selfname_of(m)):
            state.add(a)
    state |= {'population', 'popEnergy', '_bestSolution', '_bestEnergy', 'bestSolution', 'bestEnergy', 'trialSolution', 'genealogy',
              '_direc', '_energy_history', 'energy_history', '_solution_history', 'solution_history', '_stepmon', '_evalmon', '_fcalls',
              '_allSolvers', '_bestSolver'}
    state.add('_live')      # whether the decorated objective is current: a dump taken before it is cleared restores a solver that skips the re-decoration the original performs
    # sticky run settings written by _process_inputs are configuration, not iteration state
    return state


def _is_save_call(c, sn):
    if not isinstance(c, ast.Call) or not isinstance(c.func, ast.Attribute):
        return False
    return isinstance(c.func.value, ast.Name) and c.func.value.id == sn and c.func.attr in ('_AbstractSolver__save_state', '__save_state', 'SaveSolver')


_MSW = {}


def _method_state_writes(ctx, base, name, state, depth=2):
    """iteration state written by self.<name>() in any solver class (all overrides), following self-calls `depth` levels"""
    key = (name, depth)
    if key in _MSW and _MSW[key][0] is ctx.model:
        return _MSW[key][1]
    out = set()
    for m in ctx.model.overriders(base, name):
        sn = selfname_of(m)
        for a, kind, node in attr_writes(m.node, sn):
            if a in state or a.split('__')[-1] in ('internals',):
                out.add(a)
        if calls_where(m.node, lambda c: self_call(c, '_stepmon', sn), include_lambda=False):
            out.add('_stepmon')
        if depth > 0:
            for c in calls_where(m.node, lambda c: isinstance(c.func, ast.Attribute) and isinstance(c.func.value, ast.Name) and c.func.value.id == sn, include_lambda=False):
                if c.func.attr not in (name, '_stepmon') and not _is_save_call(c, sn):
                    out |= _method_state_writes(ctx, base, c.func.attr, state, depth - 1)
    _MSW[key] = (ctx.model, out)
    return out


@rule('C06.c', min_instances=7)
def checkpoint_only_at_quiescent_point(ctx):
    """on every path of _Step/Finalize/Step/_Solve no store to iteration state follows the last checkpoint call"""
    state = _iteration_state(ctx)
    base = ctx.cls(AS)
    targets = []
    for name in ('_Step', 'Finalize', 'Step', '_Solve'):
        for m in ctx.model.overriders(base, name):
            if any(isinstance(n, ast.Raise) and 'NotImplementedError' in unparse(n) for n in m.node.body):
                continue
            targets.append(m)
    n_with_save = 0
    for m in targets:
        ctx.touch(m)
        sn = selfname_of(m)
        if not calls_where(m.node, lambda c: _is_save_call(c, sn), include_lambda=False):
            continue
        n_with_save += 1
        mangled = {}
        k = ctx.model.enclosing_class(m)

        def rel(n, sn=sn):
            if isinstance(n, ast.Call) and (_is_save_call(n, sn) or self_call(n, '_stepmon', sn)):
                return True
            if isinstance(n, ast.Attribute) and isinstance(n.ctx, ast.Store):
                return True
            if isinstance(n, ast.Subscript) and isinstance(n.ctx, ast.Store):
                return True
            return False
        paths = [p for p in enumerate_paths(m.node, relevant=rel, unroll=(0, 1)) if p.exit != 'raise']
        ctx.stats['paths_enumerated'] += len(paths)
        bad = None
        for p in paths:
            last_save = -1
            for i, e in enumerate(p.events):
                if e[0] == 'stmt' and calls_where(e[1], lambda c: _is_save_call(c, sn), include_lambda=False):
                    last_save = i
            if last_save < 0:
                continue
            for e in p.events[last_save + 1:]:
                if e[0] != 'stmt':
                    continue
                st = e[1]
                w = [(a, kind) for a, kind, node in attr_writes(ast.Module(body=[st], type_ignores=[]), sn)
                     if (a in state or a.split('__')[-1] in ('internals',))]
                if calls_where(st, lambda c: self_call(c, '_stepmon', sn), include_lambda=False):
                    w.append(('_stepmon', 'record'))
                # methods called on self after the last checkpoint count with everything they (or any override) write
                for c in calls_where(st, lambda c: isinstance(c.func, ast.Attribute) and isinstance(c.func.value, ast.Name) and c.func.value.id == sn
                                     and not _is_save_call(c, sn) and c.func.attr != '_stepmon', include_lambda=False):
                    for a in sorted(_method_state_writes(ctx, base, c.func.attr, state)):
                        w.append((a, 'via self.%s()' % c.func.attr))
                if w:
                    bad = (st, w, p)
                    break
            if bad:
                break
        construct = '%s.%s' % (k.name, m.name)
        if bad:
            st, w, p = bad
            ctx.bad(construct, 'iteration state %s is written after the last checkpoint of the step: the newest dump misses it and cannot be resumed '
                    '(path %s)' % (sorted(set(a for a, _ in w)), p.describe(6)), m, st)
        else:
            ctx.ok(construct, '%d paths: nothing of the iteration state is written after the last checkpoint call' % len(paths), m, m.node)
    ctx.need(n_with_save >= 7, 'expected >= 7 methods with a checkpoint call, found %d' % n_with_save)


def _all_bound_attrs(ctx, cls):
    out = {}
    for k in ctx.model.mro(cls):
        for name, m in k.methods.items():
            sn = selfname_of(m)
            for a, kind, node in attr_writes(m.node, sn):
                if kind == 'bind':
                    out.setdefault(a, (k, m, node))
    return out


def _init_param_flow(ctx, cls, passed=None):
    """attr -> set of __init__ parameter names (of cls.__init__) it is computed from, following super().__init__ calls"""
    init = ctx.model.lookup_method(cls, '__init__')
    flow = {}
    if init is None:
        return flow, None
    sn = selfname_of(init)
    params = init.args()[1:]
    k = ctx.model.enclosing_class(init)
    for st in stmts_of(init.node):
        if isinstance(st, ast.Assign) and len(st.targets) == 1 and is_self_attr(st.targets[0], None, sn):
            names = set(n.id for n in ast.walk(st.value) if isinstance(n, ast.Name)) & set(params)
            flow[st.targets[0].attr] = names
        if isinstance(st, ast.Expr) and isinstance(st.value, ast.Call) and isinstance(st.value.func, ast.Attribute) and st.value.func.attr == '__init__':
            c = st.value
            mro = ctx.model.mro(cls)
            nxt = mro[mro.index(k) + 1] if k in mro and mro.index(k) + 1 < len(mro) else None
            if nxt is not None:
                sub, sinit = _init_param_flow(ctx, nxt)
                if sinit is not None:
                    sparams = sinit.args()[1:]
                    for a, ps in sub.items():
                        mapped = set()
                        for pn in ps:
                            if pn in sparams and sparams.index(pn) < len(c.args):
                                mapped |= set(n.id for n in ast.walk(c.args[sparams.index(pn)]) if isinstance(n, ast.Name)) & set(params)
                        flow.setdefault(a, mapped)
    return flow, init


TRANSIENT = {'_file': 'file handle, re-opened by __init__ and by every write'}


@rule('C06.d', min_instances=2)
def custom_pickling_keeps_every_attribute(ctx):
    """classes with __reduce__: every attribute is in the reduced state, or round-trips through the __init__ arguments, or is a declared transient"""
    n = 0
    for k in ctx.model.all_classes():
        if not k.module.name.startswith('mystic.monitors'):
            continue
        red = k.methods.get('__reduce__')
        if red is None:
            continue
        n += 1
        ctx.touch(red)
        sn = selfname_of(red)
        b = T.Builder()
        ret = None
        for st in red.node.body:
            if isinstance(st, ast.Return):
                ret = st
            else:
                b.exec_stmt(st)
        ctx.need(ret is not None and isinstance(ret.value, ast.Tuple) and len(ret.value.elts) == 3, '%s.__reduce__: unexpected return' % k.name)
        args_t = T.simp(b.t(ret.value.elts[1]))
        state_t = T.simp(b.t(ret.value.elts[2]))
        ctx.need(args_t[0] == 'tuple' and state_t[0] == 'call' and T.show(state_t[1]) == 'dict', '%s.__reduce__: args/state not recognised' % k.name)
        state_keys = set(kw for kw, _ in state_t[3])
        for kw, v in state_t[3]:
            ctx.check(v == ('attr', ('name', sn), kw), '%s.__reduce__#state[%s]' % (k.name, kw), 'state[%s] = self.%s' % (kw, kw),
                      'reduced state stores %s under the key %s' % (T.show(v), kw), red, ret)
        flow, init = _init_param_flow(ctx, k)
        ctx.need(init is not None, 'no __init__ for %s' % k.name)
        params = init.args()[1:]
        arg_reads = {}
        for i, a in enumerate(args_t[1:]):
            if i < len(params):
                arg_reads[params[i]] = a
        roundtrip = set()
        for a, ps in flow.items():
            if not ps:
                continue
            # every parameter feeding attribute a must be supplied from an attribute fed by the same parameter
            okp = True
            for pn in ps:
                src = arg_reads.get(pn)
                if not (src is not None and src[0] == 'attr' and src[1] == ('name', sn) and pn in flow.get(src[2], set())):
                    okp = False
            if okp:
                roundtrip.add(a)
        allattrs = _all_bound_attrs(ctx, k)
        sm = k.methods.get('__setstate__')
        if sm is not None:
            ctx.touch(sm)
            ups = calls_where(sm.node, lambda c: ''.join(unparse(c.func).split()).endswith('.__dict__.update'))
            ctx.check(len(ups) == 1, '%s.__setstate__' % k.name, 'restores the whole state dict', '__setstate__ no longer restores the whole state dict', sm, sm.node)
        for a in sorted(allattrs):
            construct = '%s.__reduce__#%s' % (k.name, a)
            if a in state_keys:
                ctx.ok(construct, 'in the reduced state', red, ret)
            elif a in roundtrip:
                ctx.ok(construct, 'round-trips through the __init__ arguments', red, ret)
            elif a in TRANSIENT:
                ctx.ok(construct, 'transient: ' + TRANSIENT[a], red, ret)
            else:
                ctx.bad(construct, 'attribute %s (assigned in %s.%s) is neither in the reduced state nor re-established by __init__(*args): '
                        'it is lost when the monitor is pickled' % (a, allattrs[a][0].name, allattrs[a][1].name), red, ret,
                        statement='%s dropped by %s.__reduce__' % (a, k.name))
    ctx.need(n >= 2, 'expected 2 monitor classes with __reduce__, found %d' % n)


@rule('C06.e', min_instances=2)
def copies_keep_shared_cells_shared(ctx):
    """__deepcopy__ copies the decorated cost in one operation with the counter cell and the monitor it closes over, and sets every key on every path"""
    f = ctx.func(AS + '.__deepcopy__')
    sn = selfname_of(f)
    # what the decorated cost closes over: target and monitor argument of wrap_function in the base decorator
    captured = {'_cost'}
    for key, anchor in D.DECORATORS.items():
        d = ctx.func(anchor)
        dsn = selfname_of(d)
        for st in stmts_of(d.node):
            if isinstance(st, ast.Assign) and isinstance(st.value, ast.Call) and callee_text(st.value) == 'wrap_function':
                for tg in store_targets(st):
                    if is_self_attr(tg, None, dsn):
                        captured.add(tg.attr)
        for r in D.analyse(ctx, d):
            for c in r['chain']:
                if c[0] == 'wrap_function' and len(c[1]) > 2 and c[1][2][0] == 'attr':
                    captured.add(c[1][2][2])
    # the group copied together: a tuple of names later replaced by one copy call over a dict filtered by it
    group = None
    gvar = None
    for st in f.node.body:
        if isinstance(st, ast.Assign) and isinstance(st.targets[0], ast.Name) and isinstance(st.value, ast.Tuple) and \
                all(isinstance(e, ast.Constant) and isinstance(e.value, str) for e in st.value.elts):
            if group is None:
                group = set(e.value for e in st.value.elts)
                gvar = st.targets[0].id
    together = False
    if group is not None:
        for st in f.node.body:
            # one copy call over the instance dict filtered by the group (whatever local receives it, dict(...) or {k: v ...})
            if isinstance(st, ast.Assign) and isinstance(st.targets[0], ast.Name) and isinstance(st.value, ast.Call) \
                    and callee_text(st.value) in ('dill.copy', 'copy.deepcopy') and st.value.args and \
                    any(isinstance(c_, ast.Compare) and isinstance(c_.ops[0], ast.In) and isinstance(c_.comparators[0], ast.Name) and c_.comparators[0].id == gvar
                        for c_ in ast.walk(st.value.args[0])) and '__dict__' in unparse(st.value.args[0]):
                together = True
    # NOTE: marking the copy not-live instead is NOT accepted: re-decorating a solver that has already run is not
    # neutral (Nelder-Mead rebuilds its simplex, DE re-clips members with random draws under strict ranges)
    good = together and group is not None and captured <= group
    relive = [st for st in stmts_of(f.node) if isinstance(st, ast.Assign) and ''.join(unparse(st.targets[0]).split()).endswith('._live')]
    ctx.check(not relive, 'AbstractSolver.__deepcopy__#live', 'the copy keeps the live flag of the original',
              'the copy protocol rewrites _live: the copy then re-decorates its objective, which rebuilds/re-clips a running solver\'s members', f, relive[0] if relive else f.node)
    ctx.check(good, 'AbstractSolver.__deepcopy__#shared', 'the decorated cost is copied together with %s' % sorted(captured),
              'the decorated cost is copied apart from the objects it closes over %s: the copy counts and logs through private duplicates'
              % sorted(captured - (group or set())), f, f.node)
    loops = [n for n in f.node.body if isinstance(n, ast.For) and '__dict__' in unparse(n.iter)]
    ctx.need(loops, '__deepcopy__: no loop over __dict__')
    from ..paths import enumerate_block
    missing = None
    paths = enumerate_block(loops[0].body)
    for p in paths:
        if p.exit == 'raise':
            continue
        sets = [e for e in p.events if e[0] in ('stmt', 'partial') and e[0] == 'stmt' and calls_where(e[1], lambda c: callee_text(c) == 'setattr')]
        if not sets:
            missing = p
    ctx.check(missing is None, 'AbstractSolver.__deepcopy__#every-key', 'every key of __dict__ is set on the copy on all %d paths' % len(paths),
              'a path of the copy loop sets no attribute: %s' % (missing.describe(5) if missing else ''), f, loops[0])


@rule('C06.f', min_instances=3)
def restart_file_registered(ctx):
    """SaveSolver records the file name in _state before dumping; LoadSolver records it after loading"""
    f = ctx.func(AS + '.SaveSolver')
    sn = selfname_of(f)
    sets = [s for s in f.node.body if isinstance(s, ast.Assign) and is_self_attr(s.targets[0], '_state', sn) and unparse(s.value) == 'filename']
    dumps = calls_where(f.node, lambda c: callee_text(c) == 'dill.dump')
    ctx.check(bool(sets) and bool(dumps) and sets[0].lineno < dumps[0].lineno, 'AbstractSolver.SaveSolver#_state', 'self._state = filename before the dump',
              'the restart file name is not registered in the solver before it is pickled', f, sets[0] if sets else f.node)
    h = ctx.func('mystic.solvers:LoadSolver')
    # nothing but the file registration is written on the restored solver after the state transplant
    loads_ = [s for s in h.node.body if isinstance(s, ast.Expr) and '__load_state' in unparse(s)]
    if loads_:
        late = []
        for st in h.node.body:
            if st.lineno <= loads_[0].lineno:
                continue
            for n_ in ast.walk(st):
                if isinstance(n_, ast.Attribute) and isinstance(n_.ctx, (ast.Store, ast.Del)) and n_.attr != '_state':
                    late.append(st)
                if isinstance(n_, ast.Call) and isinstance(n_.func, ast.Attribute) and n_.func.attr.startswith(('Set', '_Set', 'Finalize', '_update')):
                    late.append(st)
        ctx.check(not late, 'LoadSolver#no-late-writes', 'after the transplant only _state is registered (and the load is logged)',
                  'LoadSolver modifies the restored solver after transplanting its state: %s' % (norm_stmt(late[0]) if late else ''), h, late[0] if late else h.node)
    # the object the state was transplanted into (whatever the local is called) gets ._state = <the file it was read from>
    loads = [s for s in h.node.body if isinstance(s, ast.Expr) and isinstance(s.value, ast.Call) and isinstance(s.value.func, ast.Attribute)
             and s.value.func.attr.endswith('__load_state')]
    recv = unparse(loads[0].value.func.value) if loads else None
    fname = h.args()[0] if h.args() else 'filename'
    sets = [s for s in h.node.body if isinstance(s, ast.Assign) and isinstance(s.targets[0], ast.Attribute) and s.targets[0].attr == '_state'
            and unparse(s.targets[0].value) == recv and isinstance(s.value, ast.Name) and s.value.id == fname]
    ctx.check(bool(sets) and bool(loads) and sets[0].lineno > loads[0].lineno, 'LoadSolver#_state', '<restored>._state = filename after the state transplant',
              'LoadSolver does not register the restart file on the restored solver', h, sets[0] if sets else h.node)


def _settings_local(f):
    """the local that holds the settings dict: assigned from super()._process_inputs(kwds) and returned"""
    for s in stmts_of(f.node):
        if isinstance(s, ast.Assign) and len(s.targets) == 1 and isinstance(s.targets[0], ast.Name) and isinstance(s.value, ast.Call) \
                and isinstance(s.value.func, ast.Attribute) and s.value.func.attr == '_process_inputs':
            return s.targets[0].id, s
    return None, None


@rule('C06.g', min_instances=5)
def sticky_settings_are_stored_merged(ctx):
    """run settings given to Solve/Step travel with the checkpoint: in every solver's _process_inputs the attribute a setting is kept in (self.xtol, self.imax, self.radius, self.adaptive, self.strategy) is stored from the settings dict only after the caller's keywords were merged into it, on every path, and every setting seeded from an attribute is stored back"""
    n = 0
    for anchor in ('mystic.scipy_optimize:NelderMeadSimplexSolver._process_inputs', 'mystic.scipy_optimize:PowellDirectionalSolver._process_inputs',
                   'mystic.differential_evolution:DifferentialEvolutionSolver._process_inputs', 'mystic.differential_evolution:DifferentialEvolutionSolver2._process_inputs'):
        f = ctx.func(anchor)
        sn = selfname_of(f)
        params = [a.arg for a in f.node.args.args]
        ctx.need(len(params) >= 2, '%s signature changed' % f.qualname)
        kw = params[1]
        sv, first = _settings_local(f)
        ctx.need(sv, '%s: no local holds the inherited settings' % f.qualname)

        def writes_settings(st):
            for c in ast.walk(st):
                if isinstance(c, ast.Call) and isinstance(c.func, ast.Attribute) and isinstance(c.func.value, ast.Name) and c.func.value.id == sv \
                        and c.func.attr in ('update', 'setdefault', '__setitem__'):
                    return True
                if isinstance(c, ast.Subscript) and isinstance(c.ctx, ast.Store) and isinstance(c.value, ast.Name) and c.value.id == sv:
                    return True
            return False

        def reads_kwds(st):
            return any(isinstance(x, ast.Name) and x.id == kw and isinstance(x.ctx, ast.Load) for x in ast.walk(st))

        def keys_seeded(st):
            """{key: attribute} for settings.update({'k': self.a, ...}) / settings['k'] = self.a (value traced through plain locals)"""
            out = {}
            for c in ast.walk(st):
                if isinstance(c, ast.Dict):
                    for k, v in zip(c.keys, c.values):
                        if isinstance(k, ast.Constant) and isinstance(k.value, str):
                            out[k.value] = v
            if isinstance(st, ast.Assign) and len(st.targets) == 1 and isinstance(st.targets[0], ast.Subscript) and isinstance(st.targets[0].slice, ast.Constant):
                out[st.targets[0].slice.value] = st.value
            return out

        def keys_read(expr):
            return [x.slice.value for x in ast.walk(expr) if isinstance(x, ast.Subscript) and isinstance(x.value, ast.Name) and x.value.id == sv
                    and isinstance(x.ctx, ast.Load) and isinstance(x.slice, ast.Constant) and isinstance(x.slice.value, str)]

        def rel(node):
            if isinstance(node, ast.For):
                return writes_settings(node)
            if isinstance(node, (ast.Assign, ast.Expr, ast.AugAssign)):
                if writes_settings(node):
                    return True
                if isinstance(node, ast.Assign) and any(isinstance(tg, ast.Attribute) and isinstance(tg.value, ast.Name) and tg.value.id == sn for tg in node.targets):
                    return True
            return isinstance(node, ast.Return)
        paths = [p for p in enumerate_paths(f.node, relevant=rel, unroll=(1,)) if p.exit == 'return']
        ctx.need(paths, '%s: no path returns' % f.qualname)
        ctx.stats['paths_enumerated'] += len(paths)
        seeded_all = {}
        # locals standing for a stored setting (strategy = getattr(strategy_module, self.strategy, default)) are resolved, so a
        # key seeded from such a local counts as seeded from the attribute
        lb = T.Builder()
        for st0 in f.node.body:
            if isinstance(st0, ast.Assign) and len(st0.targets) == 1 and isinstance(st0.targets[0], ast.Name):
                lb.exec_stmt(st0)

        def from_attribute(v):
            tv = T.simp(lb.t(v))
            return any(isinstance(x, tuple) and len(x) == 3 and x[0] == 'attr' and x[1] == ('name', sn) for x in T.subterms(tv))
        for p in paths:
            state = {}          # key -> 'seeded' | 'merged'
            kept = set()        # keys whose merged value was stored on the instance
            loop_merge = set()
            for e in p.events:
                if e[0] == 'iter' and isinstance(e[1], ast.For) and writes_settings(e[1]) and reads_kwds(e[1]):
                    for k in state:
                        state[k] = 'merged'
                    continue
                if e[0] != 'stmt':
                    continue
                st = e[1]
                if writes_settings(st):
                    if reads_kwds(st):
                        for k in state:
                            state[k] = 'merged'
                    else:
                        for k, v in keys_seeded(st).items():
                            state[k] = 'seeded'
                            seeded_all.setdefault(k, v)
                    continue
                if isinstance(st, ast.Assign):
                    for tg in st.targets:
                        if isinstance(tg, ast.Attribute) and isinstance(tg.value, ast.Name) and tg.value.id == sn:
                            for k in keys_read(st.value):
                                n += 1
                                kept.add(k)
                                ctx.check(state.get(k) != 'seeded', '%s#%s' % (f.qualname, tg.attr),
                                          'self.%s is stored from settings[%r] after the caller\'s keywords were merged' % (tg.attr, k),
                                          'self.%s is stored from settings[%r] before the caller\'s keywords are merged into it (path %s): a value given to Solve is used for this run but not kept, so a restored solver continues with the old one'
                                          % (tg.attr, k, p.describe(4)), f, st)
            for k in state:
                if state[k] == 'seeded':
                    ctx.bad('%s#%s' % (f.qualname, k), 'the settings returned on path %s never receive the caller\'s %r' % (p.describe(4), k), f, first)
                elif k not in kept and k in seeded_all and from_attribute(seeded_all[k]):
                    # seeded from an attribute of the solver, merged, but never stored back
                    ctx.bad('%s#%s' % (f.qualname, k), 'settings[%r] is seeded from the solver and merged with the caller\'s keywords but never stored back (path %s): not kept across a checkpoint'
                            % (k, p.describe(4)), f, first)
    ctx.need(n >= 5, 'expected >= 5 sticky stores read from the settings dict, found %d' % n)


@rule('C06.h', min_instances=2)
def forced_dump_is_unconditional(ctx):
    """the dump requested when the solver stops is always taken: in __save_state every path feasible with force=True and a registered file calls self.SaveSolver(); in Step every path that logs the STOP record requests the forced dump afterwards (the periodic dump inside _Step precedes Finalize, so it does not describe the stopped solver)"""
    from .. import pathcond as PC
    import itertools
    f = ctx.func(AS + '.__save_state')
    sn = selfname_of(f)
    params = [a.arg for a in f.node.args.args]
    ctx.need('force' in params, '__save_state has no force parameter')
    S = ('name', sn)
    STATE = ('attr', S, '_state')

    def fixed(atom):
        """the truth value the assumption (force=True, a registered file) gives this atom, or None"""
        if atom == ('name', 'force'):
            return True
        core = atom
        if core[0] == 'call' and T.show(core[1]) == 'bool' and len(core[2]) == 1:
            core = core[2][0]
        if core == STATE:
            return True
        if core[0] == 'cmp' and core[1] in ('is', '==') and core[2] == STATE and core[3] == ('const', None):
            return False
        if core[0] == 'cmp' and core[1] in ('isnot', '!=') and core[2] == STATE and core[3] == ('const', None):
            return True
        return None

    def rel(n):
        return isinstance(n, ast.Call) and self_call(n, 'SaveSolver', sn)
    names = backward_slice(f.node, set(x.id for n in walk_no_nested(f.node) if isinstance(n, (ast.If, ast.While)) for x in ast.walk(n.test) if isinstance(x, ast.Name)))

    def rel2(n):
        if isinstance(n, (ast.Assign, ast.AugAssign)):
            return bool(set(assigned_names(n)) & names)
        return rel(n)
    paths = [p for p in enumerate_paths(f.node, relevant=rel2, unroll=(0, 1)) if p.exit != 'raise']
    ctx.need(paths, '__save_state has no returning path')
    ctx.stats['paths_enumerated'] += len(paths)
    bad = None
    n_forced = 0
    for p in paths:
        b = T.Builder()
        fs = []
        saved = False
        for e in p.events:
            if e[0] == 'cond':
                c = T.simp(b.t(e[1]))
                fs.append(c if e[2] else ('not', c))
            elif e[0] == 'stmt':
                if calls_where(e[1], rel, include_lambda=False):
                    saved = True
                elif isinstance(e[1], (ast.Assign, ast.AugAssign)):
                    b.exec_stmt(e[1])
        atoms = []
        for f_ in fs:
            for a in PC.leaves(f_):
                if a not in atoms:
                    atoms.append(a)
        if len(atoms) > 14:
            raise AnalysisError('__save_state: too many atoms on a path')
        free = [a for a in atoms if fixed(a) is None]
        feasible = False
        for bits in itertools.product((False, True), repeat=len(free)):
            val = dict(zip(free, bits))
            for a in atoms:
                if a not in val:
                    val[a] = fixed(a)
            if all(PC.ev(f_, val) for f_ in fs):
                feasible = True
                break
        if not feasible:
            continue
        n_forced += 1
        if not saved:
            bad = p
    ctx.need(n_forced >= 1, '__save_state: no path is feasible for a forced dump')
    ctx.check(bad is None, 'AbstractSolver.__save_state#forced', 'force=True with a registered file always reaches self.SaveSolver() (%d feasible paths)' % n_forced,
              'a forced dump (force=True, file registered) can return without self.SaveSolver() on path %s: the restart file then holds the state before Finalize, not the stopped solver'
              % (bad.describe(5) if bad else ''), f, f.node)
    # Step: the STOP record is followed by the forced dump
    g = ctx.func(AS + '.Step')
    sg = selfname_of(g)

    def is_stop_log(c):
        return isinstance(c, ast.Call) and isinstance(c.func, ast.Attribute) and c.func.attr == 'info' and 'STOP' in unparse(c)

    def is_forced(c):
        if not (isinstance(c, ast.Call) and isinstance(c.func, ast.Attribute) and c.func.attr in ('_AbstractSolver__save_state', '__save_state')
                and isinstance(c.func.value, ast.Name) and c.func.value.id == sg):
            return False
        v = kwarg(c, 'force', 0)
        return v is not None and const_value(v) is True
    gp = [p for p in enumerate_paths(g.node, relevant=lambda n: is_stop_log(n) or is_forced(n), unroll=(0, 1)) if p.exit != 'raise']
    ctx.stats['paths_enumerated'] += len(gp)
    n_stop, badp = 0, None
    for p in gp:
        seq = []
        for e in p.events:
            if e[0] == 'stmt':
                if calls_where(e[1], is_stop_log, include_lambda=False):
                    seq.append('stop')
                if calls_where(e[1], is_forced, include_lambda=False):
                    seq.append('dump')
        if 'stop' in seq:
            n_stop += 1
            if 'dump' not in seq[seq.index('stop'):]:
                badp = p
    ctx.need(n_stop >= 1, 'Step never logs a STOP record')
    ctx.check(badp is None, 'AbstractSolver.Step#forced-dump', 'every path that logs STOP then calls self.__save_state(force=True) (%d paths)' % n_stop,
              'Step logs the STOP record without requesting the forced dump afterwards (path %s)' % (badp.describe(5) if badp else ''), g, g.node)


@rule('C06.i', min_instances=1)
def a_restored_stopped_solver_is_finalized(ctx):
    """the periodic SetSaveFrequency dump of the LAST generation is written inside _Step, before Step evaluates Terminated() and calls Finalize(): restored from it, the solver is terminated but not finalized - continuing it must still log Powell's pending record and end 'not live', exactly like the uninterrupted run. Step therefore finalizes a solver it finds already terminated on entry (path rule shared with C04.o)"""
    from .c04 import a_solver_found_stopped_is_finalized
    a_solver_found_stopped_is_finalized(ctx)


@rule('C06.j', min_instances=4)
def a_redecorated_objective_keeps_counting_from_the_stored_count(ctx):
    """"each keeps counting its own evaluations": a restored solver re-decorates its objective (second Solve, larger budget); the counter cell then starts at the `start` it is given - the count the solver stored - not at the length of the evaluation monitor, which holds only what was recorded since it was attached (shared with C04.a)"""
    from .c04 import counter_bound_around_raw_cost
    counter_bound_around_raw_cost(ctx)


@rule('C06.k', min_instances=4)
def the_best_point_is_a_copy_not_a_view_of_a_member(ctx):
    """a checkpoint (pickle / deepcopy) does not preserve the fact that two attributes are views of one array: wherever a solver stores its best point from the population or the trial it stores a COPY (x.copy(), copy(x), array(x), or an element-wise store into the existing array) - `self.bestSolution = self.population[i][:]` is a view for an ndarray, the live solver then moves its best point whenever that member moves while the restored one does not, and the two runs diverge"""
    n = 0
    for anchor in ('mystic.differential_evolution:DifferentialEvolutionSolver', 'mystic.differential_evolution:DifferentialEvolutionSolver2',
                   'mystic.scipy_optimize:NelderMeadSimplexSolver', 'mystic.scipy_optimize:PowellDirectionalSolver', AS):
        k = ctx.cls(anchor)
        for name, m in sorted(k.methods.items()):
            sn = selfname_of(m)
            local = {}
            for st in stmts_of(m.node):
                if isinstance(st, ast.Assign) and len(st.targets) == 1 and isinstance(st.targets[0], ast.Name):
                    local[st.targets[0].id] = st.value
                if not (isinstance(st, ast.Assign) and any(isinstance(t_, ast.Attribute) and t_.attr in ('bestSolution', '_bestSolution') and isinstance(t_.value, ast.Name) and t_.value.id == sn for t_ in st.targets)):
                    continue
                n += 1
                ctx.touch(m)

                def views(e, depth=0):
                    """sub-expressions of e that can be a view of self.population / self.trialSolution (may alias)"""
                    if isinstance(e, ast.IfExp):
                        return views(e.body, depth) + views(e.orelse, depth)
                    if isinstance(e, ast.Name) and e.id in local and depth < 3:
                        return views(local[e.id], depth + 1)
                    if isinstance(e, ast.Subscript):
                        root = e
                        while isinstance(root, ast.Subscript):
                            root = root.value
                        if isinstance(root, ast.Attribute) and root.attr in ('population', 'trialSolution') and isinstance(root.value, ast.Name) and root.value.id == sn:
                            return [e]
                        if isinstance(root, ast.Name) and root.id in local and depth < 3:
                            return [e] if views(local[root.id], depth + 1) else []
                    return []
                v = st.value
                found = views(v)
                # `x.copy() if hasattr(x, 'copy') else x[:]` : the slice is only taken of objects without .copy (lists), where it IS a copy
                if isinstance(v, ast.IfExp) and 'hasattr' in unparse(v.test) and "'copy'" in unparse(v.test):
                    found = views(v.body)
                ctx.check(not found, '%s.%s#best@%d' % (k.name, name, n), 'the best point is stored as a copy',
                          '%s.%s stores %s as the best point: for an ndarray that is a view of the member / trial array, so the live solver\'s best point changes whenever that array is written, '
                          'while a restored or deep-copied solver holds two separate arrays - the resumed run diverges from the uninterrupted one' % (k.name, name, unparse(found[0])[:50] if found else ''), m, st)
    ctx.need(n >= 4, 'expected >= 4 stores of the best point in the solver classes, found %d' % n)


@rule('C06.l', min_instances=4)
def resuming_does_not_reset_sticky_settings(ctx):
    """a restored solver resumed with a bare Solve() / Step() continues with the run settings stored in the checkpoint (radius, adaptive, xtol, imax, strategy, ...): no Solve / Step / _Solve / _Step override writes a value for such a key into the caller's keywords before they reach _process_inputs (`kwds.setdefault('adaptive', False)` makes every resumed Solve() overwrite the stored setting with the default)"""
    n = 0
    for anchor in ('mystic.differential_evolution:DifferentialEvolutionSolver', 'mystic.differential_evolution:DifferentialEvolutionSolver2',
                   'mystic.scipy_optimize:NelderMeadSimplexSolver', 'mystic.scipy_optimize:PowellDirectionalSolver', AS):
        k = ctx.cls(anchor)
        for name in ('Solve', 'Step', '_Solve', '_Step'):
            m = k.methods.get(name)
            if m is None:
                continue
            kw = m.node.args.kwarg.arg if m.node.args.kwarg else None
            if kw is None:
                continue
            n += 1
            ctx.touch(m)
            bad = None
            for c in ast.walk(m.node):
                if isinstance(c, ast.Call) and isinstance(c.func, ast.Attribute) and isinstance(c.func.value, ast.Name) and c.func.value.id == kw and c.func.attr in ('setdefault', 'update', '__setitem__'):
                    bad = c
                if isinstance(c, ast.Subscript) and isinstance(c.ctx, ast.Store) and isinstance(c.value, ast.Name) and c.value.id == kw:
                    bad = c
            ctx.check(bad is None, '%s.%s#keywords' % (k.name, name), 'the caller\'s keywords reach _process_inputs as given',
                      '%s.%s writes into the caller\'s keywords (%s): a resumed Solve() / Step() without that keyword then carries the written value, and _process_inputs stores it over the setting the checkpoint holds'
                      % (k.name, name, unparse(bad)[:60] if bad is not None else ''), m, enclosing_stmt(bad) if bad is not None else m.node)
    ctx.need(n >= 4, 'expected >= 4 Solve / Step implementations with keyword settings, found %d' % n)
