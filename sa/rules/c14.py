"""C14 - compiled condition and penalty functions measure exactly the stated violation.

Decided: penalty_parser's orientation table ('<' -> lhs - (rhs) in the inequality
list, '>' -> -(lhs - (rhs)), '=' -> equality lhs - (rhs), '!=' -> equality
(lhs - (rhs)) == 0; strict comparators shift rhs by the tolerance in the
tightening direction); generate_conditions pairs the 'equality' name with the
equality list, returns (inequality, equality), and compiles each condition in a
namespace created per call; generate_penalty picks quadratic_inequality exactly
for conditions named 'inequality' and stacks pf = ptype(condition)(pf) for every
pair (sum of terms by C15.b).  Round 3: the iteration-count closures of the two stacked penalty types agree
with the family reference (shared with C15.a).
Round 4: every recursive call of generate_penalty and every stacked term
receives the caller's settings; both generators read tol / rel under their own
names.
Round 5 (hunt): penalty_parser's renames are whole-name substitutions into
names bound in generate_conditions' namespace (shared with C13.k).
Round 6: the constraints side pairs '!=' partners in both directions (decision
table shared with C13.a).
Review of the repairs: penalty_parser parenthesises the bound before the tolerance is appended (C14.h).
Round 7: the penalty types generate_penalty wraps follow their formulas (C14.i, shared with C15.c).
NOT decided: values of the generated functions.
"""
import ast

from ..core import rule
from ..srcmodel import AnalysisError, walk_no_nested, unparse, norm_stmt, parent
from .. import terms as T
from .common import *
from .symtab import *
from .c13 import _loops, _line_body, _split_literal, _namespace_rule

SY = 'mystic.symbolic'


@rule('C14.a', min_instances=6)
def orientation_table(ctx):
    """penalty_parser: '<' -> inequality lhs-(rhs); '>' -> inequality -(lhs-(rhs)); '=' -> equality lhs-(rhs); '!=' -> equality (lhs-(rhs)) == 0; strict '>' adds / strict '<' subtracts the tolerance on the rhs"""
    f = ctx.func(SY + ':penalty_parser')
    lps = _loops(f)
    ctx.need(len(lps) == 1, 'penalty_parser: per-line loop not found')
    body = _line_body(lps[0])
    table = {}
    for lits, b, effects, p in feasible_paths(body):
        seps = [(_split_literal(tt), tr) for tt, tr in lits if _split_literal(tt) is not None]
        d = dict((k, v) for k, v in seps)
        fam = None
        if d.get('>') is False:
            fam = '>'
        elif d.get('>') is True and d.get('<') is False:
            fam = '<'
        elif d.get('>') is True and d.get('<') is True and d.get('!=') is False:
            fam = '!='
        elif d.get('>') is True and d.get('<') is True and d.get('!=') is True and d.get('=') is False:
            fam = '='
        if fam is None:
            continue
        for e in effects:
            if e[0] == 'call' and T.show(e[1][1]).endswith('.append'):
                lst = T.show(e[1][1]).split('.')[0]
                arg = e[1][2][0]
                table.setdefault(fam, set()).add((lst, concat_consts(arg)))
    want = {'<': {('ineqconstraints', ('*',))}, '>': {('ineqconstraints', ('-(', '*', ')'))}, '=': {('eqconstraints', ('*',))},
            '!=': {('eqconstraints', ('(', '*', ') == 0'))}}
    for fam in ('<', '>', '=', '!='):
        ctx.check(table.get(fam) == want[fam], 'penalty_parser#orientation[%s]' % fam, "%s -> %s wrapped by %s" % (fam, sorted(want[fam])[0][0], sorted(want[fam])[0][1]),
                  "a '%s' line is recorded as %s" % (fam, sorted(table.get(fam, []))), f, lps[0])
    ex = [s for s in stmts_of(lps[0]) if isinstance(s, ast.Assign) and isinstance(s.targets[0], ast.Name) and s.targets[0].id == 'expression']
    ctx.check(bool(ex) and ''.join(unparse(ex[0].value).split()) == "'%(lhs)s-(%(rhs)s)'%eqn", 'penalty_parser#expression', 'expression = lhs - (rhs)',
              'expression template is %s' % (unparse(ex[0].value) if ex else None), f, ex[0] if ex else lps[0])
    eps = [s for s in stmts_of(lps[0]) if isinstance(s, ast.Assign) and isinstance(s.targets[0], ast.Name) and s.targets[0].id == 'eps' and isinstance(s.value, ast.IfExp)]
    ctx.need(eps, 'penalty_parser: eps table not found')
    tb, dflt = eq_table(eps[0].value, 'eps')
    ctx.check({k: v[1] for k, v in tb.items()} == {'>': ' + e_ ', '<': ' - e_ '} and dflt == ('const', ''), 'penalty_parser#eps', "strict '>' raises, strict '<' lowers the rhs by the tolerance",
              'strictness table is %s' % {k: T.show(v) for k, v in tb.items()}, f, eps[0])
    rhs = [s for s in stmts_of(lps[0]) if isinstance(s, ast.AugAssign) and ''.join(unparse(s.target).split()) == "eqn['rhs']"]
    want_r = T.term(ast.parse("eps.replace('e_', '_tol(%s,tol,rel)' % eqn['rhs'])", mode='eval').body)
    ctx.check(bool(rhs) and t(rhs[0].value) == want_r, 'penalty_parser#rhs', 'rhs shifted by the tolerance of the rhs', 'rhs is shifted by %s' % (unparse(rhs[0].value) if rhs else None), f, rhs[0] if rhs else lps[0])
    ret = [s for s in f.node.body if isinstance(s, ast.Return)]
    ctx.check(bool(ret) and t(ret[-1].value) == T.term(ast.parse('(tuple(ineqconstraints), tuple(eqconstraints))', mode='eval').body), 'penalty_parser#return', 'returns (inequalities, equalities)',
              'penalty_parser returns %s' % (unparse(ret[-1].value) if ret else None), f, ret[-1] if ret else f.node)
    # the two parsers agree on the strictness signs
    g = ctx.func(SY + ':constraints_parser')
    eps2 = [s for s in stmts_of(g.node) if isinstance(s, ast.Assign) and isinstance(s.targets[0], ast.Name) and s.targets[0].id == 'eps' and isinstance(s.value, ast.IfExp)]
    ctx.check(bool(eps2) and t(eps2[0].value) == t(eps[0].value), 'parsers#agree', 'constraints_parser and penalty_parser use the same strictness table',
              'the two parsers disagree on the tolerance sign for strict comparators', g, eps2[0] if eps2 else g.node)


@rule('C14.b', min_instances=5)
def names_lists_and_penalty_types(ctx):
    """generate_conditions pairs 'equality' with the equality list and returns (inequality, equality); generate_penalty picks quadratic_inequality exactly for 'inequality' conditions and stacks every pair"""
    f = ctx.func(SY + ':generate_conditions')
    pp = [s for s in f.node.body if isinstance(s, ast.Assign) and isinstance(s.value, ast.Call) and callee_text(s.value) == 'penalty_parser']
    ctx.check(bool(pp) and [e.id for e in getattr(pp[0].targets[0], 'elts', []) if isinstance(e, ast.Name)] == ['ineqconstraints', 'eqconstraints'], 'generate_conditions#unpack',
              'ineq, eq = penalty_parser(...)', 'penalty_parser result unpacked as %s' % (unparse(pp[0].targets[0]) if pp else None), f, pp[0] if pp else f.node)
    lp = [n for n in f.node.body if isinstance(n, ast.For)]
    ctx.need(lp, 'generate_conditions: loop not found')
    ctx.check(''.join(unparse(lp[0].iter).split()) == "zip(['equality','inequality'],[eqconstraints,ineqconstraints])", 'generate_conditions#pairing',
              "'equality' <-> eqconstraints, 'inequality' <-> ineqconstraints", 'names and lists are paired as %s' % unparse(lp[0].iter), f, lp[0])
    ret = [s for s in f.node.body if isinstance(s, ast.Return)]
    ctx.check(bool(ret) and t(ret[-1].value) == T.term(ast.parse("(tuple(results['inequality']), tuple(results['equality']))", mode='eval').body), 'generate_conditions#return',
              'returns (inequality conditions, equality conditions)', 'generate_conditions returns %s' % (unparse(ret[-1].value) if ret else None), f, ret[-1] if ret else f.node)
    tp = [s for s in strs(f.node) if 'def {container}_{name}(x)' in s]
    ctx.check(bool(tp) and "return eval('{equation}')" in tp[0] and "__name__ = '{container}'" in tp[0], 'generate_conditions#template',
              "condition(x) = eval(line); named after its kind", 'condition template changed', f, f.node)
    _namespace_rule(ctx, f, 'generate_conditions')
    g = ctx.func(SY + ':generate_penalty')
    sel = [n for n in walk_no_nested(g.node) if isinstance(n, ast.If) and '__name__' in unparse(n.test) and 'condition' in unparse(n.test)]
    ctx.need(sel, 'generate_penalty: default type selection not found')
    s0 = sel[0]
    a = ''.join(unparse(s0.body[0]).split())
    b = ''.join(unparse(s0.orelse[0]).split()) if s0.orelse else ''
    ctx.check(''.join(unparse(s0.test).split()) == "'inequality'incondition.__name__" and a == 'ptype.append(quadratic_inequality)' and b == 'ptype.append(quadratic_equality)',
              'generate_penalty#default-type', "inequality conditions -> quadratic_inequality, others -> quadratic_equality", 'default penalty type chosen as %s / %s under %s' % (a, b, unparse(s0.test)), g, s0)
    lp = [n for n in g.node.body if isinstance(n, ast.For) and 'zip(ptype' in ''.join(unparse(n.iter).split())]
    src = ''.join(unparse(lp[-1]).split()) if lp else ''
    ctx.check(bool(lp) and ''.join(unparse(lp[-1].iter).split()) == 'zip(ptype,conditions)' and 'apply=penalty(condition,**kwds)' in src and 'pf=apply(pf)' in src,
              'generate_penalty#stacking', 'pf = ptype(condition)(pf) for every pair', 'penalty stacking changed', g, lp[-1] if lp else g.node)
    init = [s for s in g.node.body if isinstance(s, ast.Assign) and isinstance(s.targets[0], ast.Name) and s.targets[0].id == 'pf' and isinstance(s.value, ast.Lambda)]
    ctx.check(bool(init) and ''.join(unparse(init[0].value).split()) == 'lambdax:0.0', 'generate_penalty#base', 'stack starts from the zero function',
              'penalty stack starts from %s' % (unparse(init[0].value) if init else None), g, init[0] if init else g.node)


@rule('C14.c', min_instances=8)
def penalty_zero_exactly_on_the_feasible_side(ctx):
    """the penalty types the generated penalty is stacked from add zero where their condition is satisfied and a positive amount where it is violated (sign analysis shared with C15.d)"""
    from .c15 import zero_feasible_positive_violated
    zero_feasible_positive_violated(ctx)


@rule('C14.d', min_instances=12)
def stacked_terms_share_one_iteration_count(ctx):
    """the generated penalty is the documented sum only if every stacked term uses the same n in k*h**n: the iter/iteration/clear/store closures of the two penalty types generate_penalty stacks (quadratic_equality, quadratic_inequality) agree with the family reference - iter(i) sets the count to i whenever i is not None (0 included), counts up otherwise, and forwards to the nested term (shared with C15.a)"""
    from .c15 import closure_family
    closure_family(ctx, types=('quadratic_equality', 'quadratic_inequality'))


@rule('C14.e', min_instances=5)
def constraint_and_penalty_share_their_settings(ctx):
    """the penalty and the constraint generated from one text agree only if both generators read the strictness tolerances under their own names (locals['tol'] from 'tol', locals['rel'] from 'rel'; shared with C13.e), and the documented k / h of the per-line penalty terms reach every term: each recursive call of generate_penalty (the join branch) forwards **kwds"""
    from .c13 import epsilon_keys
    epsilon_keys(ctx)
    g = ctx.func(SY + ':generate_penalty')
    kw = g.node.args.kwarg.arg if g.node.args.kwarg else None
    ctx.need(kw, 'generate_penalty no longer takes **kwds')
    rec = calls_where(g.node, lambda c: isinstance(c.func, ast.Name) and c.func.id == 'generate_penalty', include_lambda=True)
    rec += [c for n in ast.walk(g.node) if isinstance(n, (ast.GeneratorExp, ast.ListComp)) for c in ast.walk(n)
            if isinstance(c, ast.Call) and isinstance(c.func, ast.Name) and c.func.id == 'generate_penalty' and c not in rec]
    ctx.need(len(rec) >= 2, 'generate_penalty: expected >= 2 recursive calls (join branch), found %d' % len(rec))
    for c in rec:
        fwd = any(k.arg is None and isinstance(k.value, ast.Name) and k.value.id == kw for k in c.keywords)
        ctx.check(fwd, 'generate_penalty#recursion@%d' % rec.index(c), 'recursive call forwards **%s' % kw,
                  'a recursive call of generate_penalty drops **%s: with join= given, the per-line penalties are built with the default k and h instead of the caller\'s' % kw, g, enclosing_stmt(c))
    stack = [c for c in ast.walk(g.node) if isinstance(c, ast.Call) and isinstance(c.func, ast.Name) and c.func.id == 'penalty']
    ctx.check(bool(stack) and all(any(k.arg is None and isinstance(k.value, ast.Name) and k.value.id == kw for k in c.keywords) for c in stack), 'generate_penalty#stack-settings',
              'every stacked term is built as penalty(condition, **%s)' % kw, 'a stacked penalty term is built without the caller\'s settings', g, g.node)


@rule('C14.f', min_instances=3)
def condition_text_only_names_bound_functions(ctx):
    """penalty_parser renames mystic's spread( / mean( / variance( (/ product() into numpy's ptp( / average( / var( (/ prod(); generate_conditions executes the result: each target name is bound there (shared with C13.k)"""
    from .c13 import rewritten_names_are_bound
    rewritten_names_are_bound(ctx, 'mystic.symbolic:penalty_parser', 'mystic.symbolic:generate_conditions', 'penalty_parser')


@rule('C14.g', min_instances=6)
def the_constraints_side_knows_every_forbidden_value(ctx):
    """"applying the generated constraints function drives the penalty of the same text to zero" also for texts that mix '!=' with '>=' / '<=': the inclusive bounds are nudged off a value a '!=' line forbids, and the list of forbidden values pairs each left-hand side with its partners in BOTH directions (x0 != x1 forbids x1 for x0 and x0 for x1); decision table of constraints_parser shared with C13.a"""
    from .c13 import parser_decision_table
    parser_decision_table(ctx)


@rule('C14.h', min_instances=1)
def the_bound_of_a_condition_is_one_operand(ctx):
    """for 'xi < f' / 'xi > f' penalty_parser appends ' - <tolerance>' / ' + <tolerance>' to the TEXT of f and subtracts the sum from xi: f is any expression, so unless its text is parenthesised first the appended term binds only to the last operand of an `or`, `and`, comparison, conditional expression or lambda ('x0 < x1 or 2' at (3, 3): the tolerance went to the 2, the strict relation was measured as satisfied). Before the statement that appends the tolerance, on every path on which a tolerance is appended (eps non-empty), the entry has been replaced by its parenthesised text '(%s)' % <entry> - as constraints_parser does (C13.j)"""
    f = ctx.func('mystic.symbolic:penalty_parser')
    aug = [s for s in stmts_of(f.node) if isinstance(s, ast.AugAssign) and isinstance(s.op, ast.Add) and 'rhs' in unparse(s.target) and '_tol' in unparse(s.value)]
    ctx.need(aug, 'penalty_parser: the statement that appends the tolerance to the bound is not found')
    for a in aug:
        tgt = ''.join(unparse(a.target).split())
        blk = parent(a)
        body = None
        for fld in ('body', 'orelse', 'finalbody'):
            if a in getattr(blk, fld, []):
                body = getattr(blk, fld)
        ctx.need(body is not None, 'penalty_parser: the block of the tolerance statement is not found')
        before = body[:body.index(a)]

        def parenthesises(s):
            return isinstance(s, ast.Assign) and len(s.targets) == 1 and ''.join(unparse(s.targets[0]).split()) == tgt and isinstance(s.value, ast.BinOp) and isinstance(s.value.op, ast.Mod) \
                and isinstance(s.value.left, ast.Constant) and isinstance(s.value.left.value, str) and ''.join(s.value.left.value.split()) == '(%s)' and ''.join(unparse(s.value.right).split()) == tgt
        ok_ = False
        for s in reversed(before):
            if parenthesises(s):
                ok_ = True
                break
            # guarded by the tolerance text itself (nothing is appended when it is empty): if eps: <entry> = '(%s)' % <entry>
            if isinstance(s, ast.If) and not s.orelse and isinstance(s.test, ast.Name) and s.test.id in {n_.id for n_ in ast.walk(a.value) if isinstance(n_, ast.Name)} and any(parenthesises(x) for x in s.body):
                ok_ = True
                break
            if tgt in ''.join(unparse(s).split()) and not isinstance(s, ast.Expr):
                # the entry is (re)written by something else in between: is it created parenthesised?
                if isinstance(s, ast.Assign) and isinstance(s.value, ast.Dict):
                    vals = [v for k, v in zip(s.value.keys, s.value.values) if isinstance(k, ast.Constant) and k.value == 'rhs']
                    ok_ = bool(vals) and isinstance(vals[0], ast.BinOp) and isinstance(vals[0].op, ast.Mod) and isinstance(vals[0].left, ast.Constant) and ''.join(str(vals[0].left.value).split()) == '(%s)'
                break
        ctx.check(ok_, 'penalty_parser#bound-is-one-operand', "the bound is parenthesised before ' +/- _tol(...)' is appended",
                  "penalty_parser appends the tolerance to the bare text of the bound (%s): for a bound that ends in a lower-precedence operand ('x0 < x1 or 2', 'x0 > a if b else c') the tolerance belongs to that operand only and a violated strict inequality is measured as satisfied"
                  % norm_stmt(a)[:80], f, a)


@rule('C14.i', min_instances=9)
def the_penalty_types_it_is_given_follow_their_formulas(ctx):
    """generate_penalty wraps each condition in the penalty type the caller names (ptype=...): what the compiled penalty measures is that type's formula applied to the stated violation - k*h**n*f**2, the barrier forms, the two Lagrange recurrences over the STORED multipliers for iterations 0..n-1. Shared with C15.c: each evaluator of mystic.penalty agrees, path by path, with the reference transcription of its documented formula (a multiplier loop that runs over the records stored so far instead of range(n) multiplies by h once per stored record, not once per iteration)"""
    from .c15 import formulas
    return formulas(ctx)
