"""C12 - symbolic rewriting preserves the solution set.

Decided (low share, as the design says): the comparator tables (_flip is the
involution < <-> >, <= <-> >=; with bounds=True the complement; comparator
tests every comparator before any of its substrings; flip splits and re-joins on
the detected comparator); in _simplify1 the flipped relation is produced exactly
when the test point disagrees, the +eps/-eps test values are paired position by
position with the '>'/'<' sign conditions and every case carries them; merge's
two tables; linear_symbolic / symbolic_bounds pair rows with their right-hand
sides and comparators.
Round 3: every merge of the lines of ONE system uses the exclusive (conjunction)
table; the zeros list is not reordered between building the test values and
pairing the sign conditions; no function of symbolic / _symbolic writes module-
level state.
Round 4: the caller's constants are merged into _simplify's namespace after the
import preamble; linear_symbolic prints its numbers verbatim; _prepare_sympy
keeps every well-formed equation; markers are restored in descending index order
(repair 0ff0759).
Round 5 (hunt): replace_variables substitutes whole identifiers only, judged on
the parsed regular expression (repair a6b299c).
Round 6: numeric text rewrites written as regular expressions are anchored on
the left (judged on the parsed pattern).
Review of the repairs: simplify goes through the sign cases of an absolute value one at a time when one will do, and on to the next while the result is None.
Round 7: _denominator's pattern literal is compiled and tried on a table of divisions - every divisor has to come back (C12.m).
NOT decided: everything that depends on sympy and on the sufficiency of random
test points - the core of the property.
"""
import ast
import re

from ..core import rule
from ..srcmodel import AnalysisError, walk_no_nested, unparse, norm_stmt, enclosing_stmt
from .. import terms as T
from .. import siblings as SB
from .common import *
from .symtab import *

SY = 'mystic.symbolic'


@rule('C12.a', min_instances=5)
def comparator_tables(ctx):
    """_flip(bounds=False) is the involution <<->>, <=<->>=; _flip(bounds=True) the complement; comparator detects <=,<,>=,>,!=,==,= in an order where no comparator follows one of its substrings; flip re-joins on the detected comparator"""
    f = ctx.func(SY + ':_flip')
    ifs = [s for s in f.node.body if isinstance(s, ast.If) and isinstance(s.test, ast.Name) and s.test.id == 'bounds']
    rets = [s for s in f.node.body if isinstance(s, ast.Return)]
    ctx.need(ifs and rets, '_flip: shape not recognised')
    tb, db = eq_table(ifs[0].body[0].value, 'cmp')
    tf, df = eq_table(rets[-1].value, 'cmp')
    c = lambda d: {k: v[1] for k, v in d.items() if v[0] == 'const'}
    ctx.stats['truth_table_rows'] += 8
    ctx.check(c(tf) == {'>=': '<=', '>': '<', '<=': '>=', '<': '>'} and df == ('name', 'cmp'), '_flip[bounds=False]', 'involution on the inequalities, identity otherwise',
              '_flip maps %s (default %s)' % (c(tf), T.show(df)), f, rets[-1])
    ctx.check(c(tb) == {'>=': '<', '>': '<=', '<=': '>', '<': '>='} and db == ('name', 'cmp'), '_flip[bounds=True]', 'complement: < <-> >=, > <-> <=',
              '_flip(bounds=True) maps %s' % c(tb), f, ifs[0])
    g = ctx.func(SY + ':comparator')
    rets = [s for s in g.node.body if isinstance(s, ast.Return)]
    rows, dflt = ifexp_table(rets[-1].value)
    order = []
    for cnd, val in rows:
        lit = [s for s in T.subterms(cnd) if isinstance(s, tuple) and s and s[0] == 'const' and isinstance(s[1], str)]
        ok_row = cnd[0] == 'call' and T.show(cnd[1]) == 'equation.count' and lit and val == lit[0]
        order.append(lit[0][1] if lit else None)
        ctx.check(ok_row, 'comparator#row[%s]' % (lit[0][1] if lit else '?'), 'equation.count(c) -> c', 'comparator row tests %s but returns %s' % (T.show(cnd), T.show(val)), g, rets[-1])
    bad = [(a, b) for i, a in enumerate(order) for b in order[i + 1:] if a and b and a in b and a != b]
    ctx.check(not bad and set(order) == {'<=', '<', '>=', '>', '!=', '==', '='} and dflt == ('const', ''), 'comparator#order',
              'order %s: no comparator is tested after one of its substrings' % order, 'comparator order %s tests %s before the longer comparator containing it' % (order, bad[:1]), g, rets[-1])
    h = ctx.func(SY + ':flip')
    _cmp_ref(ctx, h, "def flip(equation, bounds=False):\n    cmp = comparator(equation)\n    return _flip(cmp, bounds).join(equation.split(cmp)) if cmp else equation\n",
             'flip', 'split on the detected comparator, re-join with the flipped one')


def _cmp_ref(ctx, f, src, construct, what):
    got, want = SB.agree(f.node, src)
    ctx.stats['terms_compared'] += len(got)
    ctx.check(got == want, construct, what, '%s differs from its documented form: %s' % (construct, SB.diff(got, want)), f, f.node)


@rule('C12.b', min_instances=4)
def flip_iff_test_point_disagrees(ctx):
    """_simplify1: the relation is flipped exactly when before/after disagree at the test point; +eps test values pair with '>' and -eps with '<' position by position; every case carries its sign conditions"""
    f = ctx.func(SY + ':_simplify._simplify1')
    asg = {}
    for st in stmts_of(f.node):
        if isinstance(st, ast.Assign) and isinstance(st.targets[0], ast.Name):
            asg.setdefault(st.targets[0].id, []).append(st)
    ctx.need('new' in asg and 'testvals' in asg and 'signs' in asg, '_simplify1: anchors new/testvals/signs not found')
    new = asg['new'][0]
    want = T.term(ast.parse('[after] if eq else [after.replace(cmp, flip(cmp))]', mode='eval').body)
    ctx.check(t(new.value) == want, '_simplify1#flip', 'kept if equal at the test point, flipped otherwise',
              'the flip decision is %s' % unparse(new.value), f, new)
    eqs = [s for s in stmts_of(f.node) if isinstance(s, ast.Assign) and isinstance(s.targets[0], ast.Name) and s.targets[0].id == 'eq']
    src = [unparse(s.value) for s in eqs]
    ctx.check(any(''.join(x.split()) == 'equals(before,after,next(testvals),**kwds)' for x in src) and any(x == 'True' for x in src), '_simplify1#equals',
              'eq = equals(before, after, next test point); unevaluable -> do not flip', 'eq is computed as %s' % src, f, eqs[0] if eqs else f.node)
    # the only failures that may silently decide "do not flip" are the documented ones (a complex / unevaluable test value:
    # ValueError, TypeError); a singular test point (ZeroDivisionError) or anything broader must surface, not keep the comparator
    tries = [n for n in walk_no_nested(f.node) if isinstance(n, ast.Try) and any(s_ in eqs for s_ in n.body)]
    ctx.need(tries, '_simplify1: the test-point comparison is no longer inside a try')
    caught = set()
    for h in tries[0].handlers:
        if h.type is None:
            caught.add('*')
        else:
            caught.update(unparse(e) for e in (h.type.elts if isinstance(h.type, ast.Tuple) else [h.type]))
    extra = sorted(caught - {'ValueError', 'TypeError'})
    ctx.check(not extra, '_simplify1#undecided-test', 'only ValueError / TypeError at the test point mean "keep the comparator"',
              'a failure of the test-point comparison with %s now silently keeps the comparator: for a divisor that vanishes at the test point both sign cases '
              'get the unflipped relation' % extra, f, tries[0].handlers[0], statement='test-point failure %s decides not to flip' % extra)
    tv = asg['testvals'][0]
    sg = asg['signs'][0]
    wt = T.term(ast.parse("it.product(*((z+'+'+eps, z+'-'+eps) for z in zro))", mode='eval').body)
    ws = T.term(ast.parse("it.product(*(('>','<') for z in zro))", mode='eval').body)
    ctx.check(t(tv.value) == wt and t(sg.value) == ws, '_simplify1#pairing', "(z+eps, z-eps) x ('>','<'): same position, same order",
              'test values %s are no longer paired with sign conditions %s' % (unparse(tv.value), unparse(sg.value)), f, tv)
    ext = calls_where(f.node, lambda c: callee_text(c) == 'new.extend')
    we = T.term(ast.parse("new.extend(z.replace('=', i) for (z, i) in zip(zro, sign))", mode='eval').body)
    ctx.check(bool(ext) and t(ext[0]) == we, '_simplify1#conditions', 'each case carries its sign conditions z <sign> 0-point',
              'cases no longer carry their sign conditions', f, ext[0] if ext else f.node)
    # position by position also means: the list of zeros is the same list, in the same order, when the test values are built
    # (it.product consumes its argument at once), when the signs are built and when the conditions are zipped to it - no
    # statement between the first of those and the last reorders, extends or rebinds it
    users = [st for st in stmts_of(f.node) if st is tv or st is sg or (ext and st is enclosing_stmt(ext[0]))]
    if users:
        zname = 'zro'
        lo, hi = min(u.lineno for u in users), max(u.lineno for u in users)
        muts = []
        for st in stmts_of(f.node):
            if not (lo < st.lineno < hi) or st in users:
                continue
            for n in ast.walk(st):
                if isinstance(n, ast.Call) and isinstance(n.func, ast.Attribute) and isinstance(n.func.value, ast.Name) and n.func.value.id == zname and \
                        n.func.attr in ('sort', 'reverse', 'append', 'extend', 'insert', 'pop', 'remove', 'clear'):
                    muts.append(st)
                if isinstance(n, ast.Name) and n.id == zname and isinstance(n.ctx, (ast.Store, ast.Del)):
                    muts.append(st)
        ctx.check(not muts, '_simplify1#same-zeros', 'the zeros are not reordered / rebound between building the test values and pairing the conditions',
                  'the list of zeros is changed (%s) after the test values were built from it and before the sign conditions are paired with it: test point k no longer belongs to condition k'
                  % (norm_stmt(muts[0])[:80] if muts else ''), f, muts[0] if muts else tv)
    lp = [n for n in walk_no_nested(f.node) if isinstance(n, ast.For) and unparse(n.iter) == 'signs']
    ctx.check(bool(lp) and unparse(lp[0].target) == 'sign', '_simplify1#loop', 'one case per sign combination', 'case loop changed', f, lp[0] if lp else f.node)


@rule('C12.c', min_instances=1)
def merge_tables(ctx):
    """merge implements the two truth tables written in its own comments (inclusive / exclusive)"""
    f = ctx.func(SY + ':merge')
    _cmp_ref(ctx, f, '''def merge(*equations, **kwds):
    inclusive = kwds['inclusive'] if 'inclusive' in kwds else True
    if inclusive:
        equations = tuple(i.replace(comparator(i),'!=') if (comparator(i) in ('>','<')) and (flip(i) in equations) else i for i in equations)
        equations = set('' if ('>' in i or '<' in i) and (flip(i) in equations or flip(i,True) in equations) else i for i in equations)
        return tuple(i for i in equations if i != '')
    equations = tuple(i.replace(comparator(i),'=') if ('>=' in i or '<=' in i) and (flip(i) in equations) else i for i in equations)
    equations = set(None if ('>' in i or '<' in i) and (flip(i) in equations or flip(i,True) in equations) else i for i in equations)
    return None if None in equations else tuple(equations)
''', 'merge', '(> , <) -> != | contradiction -> dropped (inclusive); (>= , <=) -> = | contradiction -> None (exclusive)')


@rule('C12.d', min_instances=3)
def matrix_and_bounds_to_text(ctx):
    """linear_symbolic joins row i of A with ' = ' and b[i], row i of G with ' <= ' and h[i]; symbolic_bounds pairs '>=' with min (skipping -inf) and '<=' with max (skipping inf)"""
    f = ctx.func(SY + ':linear_symbolic')
    for mat, rhs, sep, acc, summ in (('A', 'b', ' = ', 'eqstring', 'Asum'), ('G', 'h', ' <= ', 'ineqstring', 'Gsum')):
        aug = [s for s in stmts_of(f.node) if isinstance(s, ast.AugAssign) and isinstance(s.target, ast.Name) and s.target.id == acc]
        ctx.need(aug, 'linear_symbolic: accumulation into %s not found' % acc)
        want = T.term(ast.parse("%s.rstrip(' + ') + %r + str(%s[i]) + '\\n'" % (summ, sep, rhs), mode='eval').body)
        ctx.check(t(aug[0].value) == want, 'linear_symbolic#%s' % mat, "row i of %s %s %s[i]" % (mat, sep.strip(), rhs), 'row text is %s' % unparse(aug[0].value), f, aug[0])
        inner = [s for s in stmts_of(f.node) if isinstance(s, ast.AugAssign) and isinstance(s.target, ast.Name) and s.target.id == summ]
        want = T.term(ast.parse("str(%s[i][j]) + '*' + names[j] + ' + '" % mat, mode='eval').body)
        ctx.check(bool(inner) and t(inner[0].value) == want, 'linear_symbolic#%s-term' % mat, 'coefficient [i][j] times variable j', 'term text is %s' % (unparse(inner[0].value) if inner else None), f, inner[0] if inner else f.node)
        # the numbers are printed as they are: str(<matrix entry>), not str(float(<entry>)) - a conversion to float rounds
        # integer coefficients beyond 2**53, so the text would hold at points where the matrix relation does not
        for st_ in (aug[:1] + inner[:1]):
            for c_ in ast.walk(st_.value):
                if isinstance(c_, ast.Call) and isinstance(c_.func, ast.Name) and c_.func.id == 'str' and c_.args:
                    root = c_.args[0]
                    depth = 0
                    while isinstance(root, ast.Subscript):
                        root = root.value
                        depth += 1
                    ctx.check(isinstance(root, ast.Name) and root.id in (mat, rhs) and depth >= 1, 'linear_symbolic#%s-verbatim' % (mat if st_ in inner else rhs),
                              'str(<entry>) without conversion', 'linear_symbolic prints %s: the entry is converted before it is written (integers beyond 2**53 are rounded)' % unparse(c_)[:50], f, st_)
    # symbolic_bounds: None -> -inf / +inf by an `is None` test (a bound of exactly 0 is a bound), min <= max enforced, one
    # line '<var> >= <min>' per finite lower bound and '<var> <= <max>' per finite upper bound, numbers printed in full
    from .c12_refs import REFS
    g = ctx.func(SY + ':symbolic_bounds')
    got, want = SB.agree(g.node, REFS[SY + ':symbolic_bounds'], strict_casts=True)
    ctx.stats['terms_compared'] += len(got)
    ctx.check(got == want, 'symbolic_bounds', "None bounds become -inf/+inf (`is None`), '>=' lines from min, '<=' lines from max, infinite bounds skipped, numbers via str(float(.))",
              'symbolic_bounds differs from its confirmed behaviour: %s' % SB.diff(got, want), g, g.node)


def _expand_str(node, loops):
    """possible string values of a (formatted) string expression: constants, or '<fmt>' % i with i over range(N)"""
    if isinstance(node, ast.Constant) and isinstance(node.value, str):
        return [node.value]
    if isinstance(node, ast.BinOp) and isinstance(node.op, ast.Mod) and isinstance(node.left, ast.Constant) and isinstance(node.left.value, str) \
            and isinstance(node.right, ast.Name) and node.right.id in loops:
        try:
            return [node.left.value % i for i in loops[node.right.id]]
        except Exception:
            return None
    return None


def _num(text):
    try:
        return float(text.strip())
    except ValueError:
        return None


@rule('C12.e', min_instances=1)
def numeric_text_rewrites_preserve_values(ctx):
    """every textual .replace() of a numeric literal applied to equation text (the sympy 0.0 work-arounds) maps a number to the same number and is anchored at a token boundary, so it cannot rewrite the inside of a longer literal"""
    n = 0
    for modname in ('mystic._symbolic', 'mystic.symbolic'):
        m = ctx.model.module(modname)
        for q, f in sorted(m.funcs.items()):
            loops = {}
            for lp in walk_no_nested(f.node):
                if isinstance(lp, ast.For) and isinstance(lp.target, ast.Name) and isinstance(lp.iter, ast.Call) and callee_text(lp.iter) == 'range' \
                        and len(lp.iter.args) == 1 and isinstance(lp.iter.args[0], ast.Constant):
                    loops[lp.target.id] = range(lp.iter.args[0].value)
            for c in calls_where(f.node, lambda c: isinstance(c.func, ast.Attribute) and c.func.attr == 'replace' and len(c.args) >= 2, include_lambda=True):
                olds, news = _expand_str(c.args[0], loops), _expand_str(c.args[1], loops)
                if not olds or not news or len(olds) != len(news):
                    continue
                for o, w in zip(olds, news):
                    if _num(o) is None or not any(ch.isdigit() for ch in o):
                        continue
                    n += 1
                    ctx.touch(f)
                    same = _num(w) is not None and _num(o) == _num(w)
                    anchored = o[0] not in '0123456789.'
                    ctx.check(same and anchored, '%s#replace[%r]' % (q, o), '%r -> %r: same number, anchored on the left' % (o, w),
                              'the text rewrite %r -> %r %s' % (o, w, 'changes the number' if not same else
                                                                 'is not anchored at a token boundary: it also rewrites the inside of longer literals (10.05 -> 1.05)'), f, c)
    # the same rewrites written as regular-expression substitutions: the pattern has to be anchored on the left (a literal space, a word
    # boundary, or a look-behind that refuses digits and '.'), otherwise it also matches inside a longer literal
    import re._parser as sp, re._constants as sc
    for modname in ('mystic._symbolic', 'mystic.symbolic'):
        m = ctx.model.module(modname)
        for q, f in sorted(m.funcs.items()):
            for c in calls_where(f.node, lambda c: isinstance(c.func, ast.Attribute) and c.func.attr == 'sub' and len(c.args) >= 3 and isinstance(c.args[0], ast.Constant)
                                 and isinstance(c.args[0].value, str) and isinstance(c.args[1], ast.Constant) and isinstance(c.args[1].value, str), include_lambda=True):
                pat = c.args[0].value
                if not (any(ch.isdigit() for ch in pat) and any(ch.isdigit() or ch == '.' for ch in c.args[1].value)):
                    continue       # not a rewrite of numeric text
                n += 1
                ctx.touch(f)
                try:
                    items = list(sp.parse(pat))
                except Exception:
                    raise AnalysisError('%s: cannot parse the pattern %r' % (q, pat))
                first = items[0] if items else None
                anchored = False
                if first is not None:
                    op, av = first
                    if op is sc.LITERAL and chr(av) in ' \t(,=+-*/':
                        anchored = True
                    elif op is sc.AT and av is sc.AT_BOUNDARY:
                        anchored = True
                    elif op is sc.ASSERT_NOT and av[0] == -1:
                        sub = list(av[1])
                        if len(sub) == 1 and sub[0][0] is sc.IN:
                            cls = re.compile('[' + ''.join(('%s-%s' % (chr(x[1][0]), chr(x[1][1])) if x[0] is sc.RANGE else ('\\' + chr(x[1]) if x[0] is sc.LITERAL else ('\\d' if x[0] is sc.CATEGORY and x[1] is sc.CATEGORY_DIGIT else ('\\w' if x[0] is sc.CATEGORY else '')))) for x in sub[0][1]) + ']')
                            anchored = all(cls.match(ch) for ch in '0123456789')
                    elif op is sc.ASSERT and av[0] == -1:
                        anchored = True      # a positive look-behind names what must precede
                ctx.check(anchored, '%s#sub[%r]' % (q, pat), 'the numeric rewrite %r is anchored on the left' % pat,
                          'the numeric text rewrite re.sub(%r, %r, ...) is not anchored at a token boundary: it also matches inside a longer literal (10.05 -> 1.05, 100.0 -> 10.0), so the rewritten equation has other coefficients'
                          % (pat, c.args[1].value), f, c)
    ctx.need(n >= 1, 'expected numeric text rewrites (the sympy 0.0 work-arounds), found %d' % n)


@rule('C12.f', min_instances=2)
def systems_are_merged_as_conjunctions(ctx):
    """the lines of one system all hold at once, so wherever simplify / absval merge the bounds of a system they use the exclusive table of merge (inclusive=False: 'A >= 0' with 'A <= 0' is 'A = 0', contradictory bounds give None); the inclusive table is the table of alternatives - it drops such a pair, which widens the solution set"""
    m = ctx.model.modules['mystic.symbolic']
    target = ctx.func(SY + ':merge')
    n = 0
    for q, fi in sorted(m.funcs.items()):
        if fi is target:
            continue
        for c in calls_where(fi.node, lambda c: isinstance(c.func, ast.Name) and c.func.id == 'merge', include_lambda=True):
            n += 1
            ctx.touch(fi)
            v = kwarg(c, 'inclusive', None)
            ok_ = v is not None and const_value(v) is False
            ctx.check(ok_, '%s#merge' % fi.qualname, 'merge(..., inclusive=False)',
                      '%s merges the lines of a system with the table of alternatives (inclusive=%s): a pair such as x0 >= 2, x0 <= 2 is dropped instead of becoming x0 = 2, so the result holds at points where the input does not'
                      % (fi.qualname, unparse(v) if v is not None else 'True by default'), fi, enclosing_stmt(c))
    ctx.need(n >= 2, 'expected >= 2 calls of merge in mystic.symbolic, found %d' % n)


def _module_state_writes(minfo):
    """[(function, global name, node)]: module-level mutable containers of a module that one of its functions writes into
    (item store, mutator method call, `global` rebinding) - state that survives from one call to the next"""
    tops = {}
    for st in minfo.tree.body:
        if isinstance(st, ast.Assign) and len(st.targets) == 1 and isinstance(st.targets[0], ast.Name):
            v = st.value
            if isinstance(v, (ast.Dict, ast.List, ast.Set)) or (isinstance(v, ast.Call) and isinstance(v.func, ast.Name) and v.func.id in ('dict', 'list', 'set', 'defaultdict', 'OrderedDict')):
                tops[st.targets[0].id] = st
    out = []
    for q, fi in sorted(minfo.funcs.items()):
        local = set(a.arg for a in fi.node.args.args)
        for n in walk_no_nested(fi.node):
            if isinstance(n, ast.Name) and isinstance(n.ctx, ast.Store):
                local.add(n.id)
        for n in walk_no_nested(fi.node):
            if isinstance(n, ast.Global):
                for nm in n.names:
                    out.append((fi, nm, n))
            base = None
            if isinstance(n, ast.Subscript) and isinstance(n.ctx, (ast.Store, ast.Del)):
                base = n.value
            elif isinstance(n, ast.Call) and isinstance(n.func, ast.Attribute) and n.func.attr in ('update', 'setdefault', 'append', 'extend', 'add', 'pop', 'clear', 'insert', 'remove', '__setitem__'):
                base = n.func.value
            while isinstance(base, ast.Subscript):
                base = base.value
            if isinstance(base, ast.Name) and base.id in tops and base.id not in local:
                # a name of an enclosing function shadows the module-level one
                p = fi.parent
                shadow = False
                while p is not None:
                    if any(isinstance(x, ast.Name) and x.id == base.id and isinstance(x.ctx, ast.Store) for x in walk_no_nested(p.node)):
                        shadow = True
                    p = p.parent
                if not shadow:
                    out.append((fi, base.id, n))
    return out


@rule('C12.g', min_instances=2)
def simplification_keeps_no_state_between_calls(ctx):
    """simplify / solve and everything else in mystic.symbolic and mystic._symbolic are functions of their arguments: no function writes into a module-level container or rebinds a global (a memo keyed on the equation text would hand back the result computed for other `locals` constants, i.e. a system with other coefficients)"""
    import types
    probe = types.SimpleNamespace(tree=ast.parse('_memo = {}\ndef simplify(eqn):\n    if eqn not in _memo:\n        _memo[eqn] = eqn\n    return _memo[eqn]\n'), funcs={})
    pf = types.SimpleNamespace(node=probe.tree.body[1], parent=None)
    probe.funcs = {'simplify': pf}
    for n in ast.walk(pf.node):
        for c in ast.iter_child_nodes(n):
            c._parent = n
    ctx.need(len(_module_state_writes(probe)) == 1, 'module-state detector lost its positive control')
    for mname in ('mystic.symbolic', 'mystic._symbolic'):
        m = ctx.model.modules[mname]
        found = _module_state_writes(m)
        for fi, nm, node in found:
            ctx.touch(fi)
            ctx.bad('%s#module-state[%s]' % (fi.qualname, nm), '%s writes into the module-level `%s`: the result of a later call depends on earlier calls (a cache that ignores part of the input returns the simplification of a different system)'
                    % (fi.qualname, nm), fi, enclosing_stmt(node) or fi.node)
        if not found:
            ctx.ok(mname + '#module-state', 'no function of %s writes module-level state (%d functions)' % (mname, len(m.funcs)), next(iter(m.funcs.values())), m.tree)


@rule('C12.h', min_instances=1)
def callers_constants_override_the_library_names(ctx):
    """_simplify evaluates and solves the equations in a namespace that holds numpy / math / builtins names AND the caller's `locals` constants; the caller's constants are merged in AFTER the import preamble has been executed into a namespace that was created empty - built the other way round, a constant named like a library object (e, pi, gamma, ...) silently takes the library's value, i.e. a different system is simplified"""
    f = ctx.func(SY + ':_simplify')
    body = f.node.body
    execs = [(i, c) for i, st in enumerate(body) for c in calls_where(st, lambda c: callee_text(c) == 'exec' and len(c.args) >= 2, include_lambda=False)]
    ctx.need(execs, '_simplify no longer executes an import preamble into a namespace')
    ns = execs[0][1].args[1]
    ctx.need(isinstance(ns, ast.Name), '_simplify: namespace is not a plain local')
    ns = ns.id
    created = [(i, st) for i, st in enumerate(body) if isinstance(st, ast.Assign) and any(isinstance(tg, ast.Name) and tg.id == ns for tg in st.targets)]
    ctx.need(created, '_simplify: namespace %s is never created' % ns)
    ci, cst = created[0]
    empty = isinstance(cst.value, ast.Dict) and not cst.value.keys or (isinstance(cst.value, ast.Call) and callee_text(cst.value) == 'dict' and not cst.value.args and not cst.value.keywords)
    b = T.Builder()
    merges = []
    for i, st in enumerate(body):
        for c in calls_where(st, lambda c: isinstance(c.func, ast.Attribute) and c.func.attr == 'update' and isinstance(c.func.value, ast.Name) and c.func.value.id == ns, include_lambda=False):
            arg = T.simp(b.t(c.args[0])) if c.args else None
            if arg is not None and "'locals'" in T.show(arg):
                merges.append((i, st))
        if isinstance(st, ast.Assign) and all(isinstance(tg, ast.Name) for tg in st.targets):
            b.exec_stmt(st)
    last_exec = max(i for i, c in execs)
    ok_ = empty and bool(merges) and all(i > last_exec for i, st in merges) and ci < execs[0][0]
    ctx.check(ok_, '_simplify#namespace-order', '%s = {} ; exec(preamble, %s) ; %s.update(caller\'s locals)' % (ns, ns, ns),
              '_simplify builds its namespace as %s%s: the import preamble is executed over the caller\'s constants (a constant named e / pi / gamma takes the library\'s value)'
              % (norm_stmt(cst)[:60], '' if merges else ' and never merges the caller\'s locals afterwards'), f, cst)


@rule('C12.i', min_instances=1)
def no_equation_is_lost_before_solving(ctx):
    """solve's front end _prepare_sympy hands every well-formed line of the system to sympy: each line with exactly one '=' and two non-blank sides is appended to the left / right lists, in order, and counted - nothing is skipped as a "duplicate" (an equation whose two sides each occur in OTHER lines is a new equation); reference summary confirmed by reading"""
    from .c12_refs import REFS
    a = 'mystic._symbolic:_prepare_sympy'
    f = ctx.func(a)
    got, want = SB.agree(f.node, REFS[a])
    ctx.stats['terms_compared'] += len(got)
    ctx.check(got == want, '_prepare_sympy', 'every well-formed equation is kept, in order', '_prepare_sympy differs from its confirmed behaviour: %s' % SB.diff(got, want)[:600], f, f.node)


def _single_pass_restore(fn, names_param):
    """does fn restore the markers with ONE regular-expression substitution whose replacement is computed per match (a function of the match
    that indexes the given names)?  Returns the call node or None"""
    for c in ast.walk(fn):
        if isinstance(c, ast.Call) and isinstance(c.func, ast.Attribute) and c.func.attr == 'sub' and len(c.args) >= 3 and isinstance(c.args[0], ast.Constant) \
                and isinstance(c.args[0].value, str) and isinstance(c.args[1], ast.Lambda):
            pat = c.args[0].value
            lam = c.args[1]
            idx = [x for x in ast.walk(lam.body) if isinstance(x, ast.Subscript) and isinstance(x.value, ast.Name) and x.value.id == names_param]
            inloop = parent(c)
            while inloop is not None and not isinstance(inloop, (ast.For, ast.While, ast.FunctionDef)):
                inloop = parent(inloop)
            if '_' in pat and ('[0-9]' in pat or '\\d' in pat) and idx and isinstance(inloop, ast.FunctionDef):
                return c
    return None


@rule('C12.j', min_instances=4)
def markers_are_restored_in_one_pass(ctx):
    """solve and its helpers rename named variables to the markers _0, _1, ... and rename them back in a nested restore(); replace_variables does the same for a list of new names. Restoring marker by marker with str.replace re-scans text that has already been restored: _1 is found inside _10 (fixed once by restoring in descending order, repair 0ff0759) and inside a restored NAME such as a_1 (`q = p/2 - aq/2`), and with 11 or more names replace_variables turned `b + k` into `B + B0`. Every restore therefore substitutes all markers in a single regular-expression pass whose replacement is looked up per match - nothing is scanned twice"""
    m = ctx.model.modules['mystic._symbolic']
    fs = [fi for q, fi in sorted(m.funcs.items()) if fi.name == 'restore' and fi.parent is not None]
    ctx.need(len(fs) >= 3, 'expected >= 3 nested restore() helpers in _symbolic, found %d' % len(fs))
    todo = [(fi, fi.args()[0]) for fi in fs] + [(ctx.func('mystic.symbolic:replace_variables'), 'markers')]
    for fi, names_param in todo:
        ctx.touch(fi)
        one = _single_pass_restore(fi.node, names_param)
        loops = [n for n in walk_no_nested(fi.node) if isinstance(n, ast.For) and
                 calls_where(n, lambda c: isinstance(c.func, ast.Attribute) and c.func.attr == 'replace' and c.args and names_param in unparse(c), include_lambda=False)]
        ctx.need(one is not None or loops, '%s: neither a single-pass substitution nor a marker-by-marker loop is recognised' % fi.qualname)
        ctx.check(one is not None and not loops, '%s#single-pass' % fi.qualname, 'all markers substituted in one pass',
                  '%s restores the markers one after the other with str.replace (%s): text restored by an earlier step is scanned again, so a marker is also found inside a longer marker or inside '
                  'a restored name (_1 in _10, _1 in a_1)' % (fi.qualname, ' '.join(unparse(loops[0].iter).split())[:60] if loops else ''), fi, loops[0] if loops else fi.node)


def _fold_pattern(e, names):
    """the text of a pattern expression: string constants joined with +, %-formatting / re.escape(<name>) replaced by the
    placeholder VAR; None when the expression has any other shape"""
    if isinstance(e, ast.Constant) and isinstance(e.value, str):
        return e.value
    if isinstance(e, ast.Name) and e.id in names:
        return _fold_pattern(names[e.id], {k: v for k, v in names.items() if k != e.id})
    if isinstance(e, ast.BinOp) and isinstance(e.op, ast.Add):
        a, b = _fold_pattern(e.left, names), _fold_pattern(e.right, names)
        return None if a is None or b is None else a + b
    if isinstance(e, ast.BinOp) and isinstance(e.op, ast.Mod):
        a = _fold_pattern(e.left, names)
        return None if a is None or a.count('%s') != 1 else a.replace('%s', 'VAR')
    if isinstance(e, ast.Call) and isinstance(e.func, ast.Attribute) and e.func.attr == 'escape':
        return 'VAR'
    if isinstance(e, ast.Call) and isinstance(e.func, ast.Attribute) and e.func.attr == 'format' and len(e.args) == 1:
        a = _fold_pattern(e.func.value, names)
        return None if a is None or a.count('{}') != 1 else a.replace('{}', 'VAR')
    return None


def _whole_name_pattern(text):
    """does the regular expression (placeholder VAR for the escaped name) refuse a match that continues an identifier or a number
    on either side?  decided on the parsed pattern: a negative look-behind (or \\b) covering letters, digits and _ before VAR, a
    negative look-ahead (or \\b) after it"""
    import re._parser as sp, re._constants as sc
    try:
        parsed = list(sp.parse(text))
    except Exception:
        return None
    lits = [i for i, (op, av) in enumerate(parsed) if op is sc.LITERAL]
    if len(lits) < 3:
        return None
    first, last = lits[0], lits[-1]

    def guards(items, direction):
        for op, av in items:
            if op is sc.AT and av in (sc.AT_BOUNDARY,):
                return True
            if op is sc.ASSERT_NOT and av[0] == direction:
                sub = list(av[1])
                if len(sub) == 1 and sub[0][0] is sc.IN:
                    import re
                    cls = re.compile(text[:0] + '[' + ''.join(_cls_text(x) for x in sub[0][1]) + ']')
                    # letters (any alphabet), digits, underscore - and, in front of the name, the dot of an attribute access or of a number (1.e5)
                    if all(cls.match(ch) for ch in 'azAZ09_\u00e9\u03b8' + ('.' if direction == -1 else '')):
                        return True
        return False

    def _cls_text(x):
        op, av = x
        if op is sc.RANGE:
            return '%s-%s' % (chr(av[0]), chr(av[1]))
        if op is sc.LITERAL:
            return '\\' + chr(av)
        if op is sc.CATEGORY:
            return {sc.CATEGORY_WORD: '\\w', sc.CATEGORY_DIGIT: '\\d'}.get(av, '')
        return ''
    return guards(parsed[:first], -1) and guards(parsed[last + 1:], 1)


@rule('C12.k', min_instances=1)
def variables_are_replaced_as_whole_names(ctx):
    """simplify / solve rename the caller's variables textually (replace_variables) before anything is parsed, for ANY variable naming: a name must only be replaced where it stands as a whole identifier - a plain str.replace also rewrites the `e` of the coefficient 1e+20 when a variable is called e (1e+20 became 1_4+20, read as 14+20) and the x of max(...). replace_variables substitutes with a regular expression that refuses a letter, digit or underscore on either side of the name (decided on the parsed pattern) - name by name in a loop, or all names at once"""
    f = ctx.func('mystic.symbolic:replace_variables')
    names = {}
    for st in ctx.model.modules['mystic.symbolic'].tree.body:
        if isinstance(st, ast.Assign) and len(st.targets) == 1 and isinstance(st.targets[0], ast.Name) and isinstance(st.value, ast.Constant) and isinstance(st.value.value, str):
            names[st.targets[0].id] = st.value
    for st in stmts_of(f.node):
        if isinstance(st, ast.Assign) and len(st.targets) == 1 and isinstance(st.targets[0], ast.Name) and st.targets[0].id not in names:
            names[st.targets[0].id] = st.value
    plain = [c for c in ast.walk(f.node) if isinstance(c, ast.Call) and isinstance(c.func, ast.Attribute) and c.func.attr == 'replace' and c.args and 'variables[' in unparse(c.args[0])]
    if plain:
        ctx.bad('replace_variables#whole-names', 'replace_variables substitutes each variable name with str.replace, i.e. wherever the characters occur: a variable called e is also replaced inside the coefficient 1e+20 '
                '(-> 1_4+20 = 34) and x inside max(...), so simplify / solve return a different system for some variable namings', f, enclosing_stmt(plain[0]))
        return
    # the substitution(s) over the variable names: re.sub whose pattern is built (not a constant: that is the marker restoration of C12.j)
    subs = [c for c in ast.walk(f.node) if isinstance(c, ast.Call) and isinstance(c.func, ast.Attribute) and c.func.attr == 'sub' and len(c.args) >= 2 and
            not isinstance(c.args[0], ast.Constant)]
    ctx.need(subs, 'replace_variables: neither str.replace nor re.sub over the variable names')
    text = _fold_pattern(subs[0].args[0], names)
    ctx.need(text is not None, 'replace_variables: cannot fold the pattern %s to text' % unparse(subs[0].args[0])[:80])
    ok_ = _whole_name_pattern(text)
    ctx.need(ok_ is not None, 'replace_variables: pattern %r cannot be parsed' % text)
    ctx.check(ok_, 'replace_variables#whole-names', 'names are matched as whole identifiers (pattern %s)' % text,
              'replace_variables matches the variable names with the pattern %r, which accepts a match inside a longer identifier (also a non-ascii one), after the dot of an attribute access, or inside a number '
              '(1e+20 with a variable called e)' % text, f, enclosing_stmt(subs[0]))
    lp = parent(subs[0])
    while lp is not None and not isinstance(lp, (ast.For, ast.While, ast.FunctionDef)):
        lp = parent(lp)
    ctx.check(isinstance(lp, ast.FunctionDef), 'replace_variables#one-pass', 'all names are substituted in one pass',
              'replace_variables substitutes the names one after the other: a marker written for one name is scanned again for the next, so with the names [x1, x0] and the marker x the text `x1 + x0` '
              'becomes `x1 + x1`', f, lp if lp is not None else f.node)


@rule('C12.l', min_instances=2)
def a_case_without_solution_contributes_nothing(ctx):
    """the cases simplify returns, taken together, are satisfied by exactly the points of the input: a sign case of an absolute value whose bounds contradict each other has no points, so it is dropped - it must neither be returned as None inside the tuple of cases nor be the one case that is picked when all=False. simplify therefore (1) asks absval for ALL cases whatever `all` says, (2) filters the None results before it chooses, and answers None only when every case is None"""
    f = ctx.func('mystic.symbolic:simplify')
    calls = calls_where(f.node, lambda c: isinstance(c.func, ast.Name) and c.func.id == 'absval', include_lambda=False)
    ctx.need(calls, 'simplify: absval is no longer called')
    c = calls[0]
    # every case is requested: all=True reaches absval (literally, or through dict(kwds, all=True))
    txt = ''.join(unparse(c).split())
    all_cases = 'all=True' in txt
    ctx.check(all_cases, 'simplify#all-cases', 'absval is asked for every sign case (all=True)',
              'simplify lets absval choose ONE sign case at random before anything is simplified (%s): when the chosen case contradicts the other lines simplify returns None although the system is satisfiable' % unparse(c)[:70], f, c)
    drops = [n for n in ast.walk(f.node) if isinstance(n, (ast.GeneratorExp, ast.ListComp)) and any(
        isinstance(t_, ast.Compare) and isinstance(t_.ops[0], (ast.IsNot, ast.NotEq)) and isinstance(t_.comparators[0], ast.Constant) and t_.comparators[0].value is None for g in n.generators for t_ in g.ifs)]
    ctx.check(bool(drops), 'simplify#drop-empty', 'cases without a solution (None) are filtered out before the choice',
              'simplify hands back the None of a case without solution inside its tuple of cases (or picks it): generate_solvers(simplify(...)) then fails on a satisfiable system', f, f.node)
    # (3) where only some of the cases are simplified (one will do when all=False), a case that comes back None is followed by the next:
    # a call of the simplifier that is not made for every case (not the element of a comprehension over the cases) and takes a case
    # OUT of a collection (pop / subscript / next) sits in a while loop that goes on as long as the result is None
    simp_names = {'_simplify'} | {st.targets[0].id for st in stmts_of(f.node) if isinstance(st, ast.Assign) and len(st.targets) == 1 and isinstance(st.targets[0], ast.Name)
                                  and isinstance(st.value, ast.Name) and st.value.id == '_simplify'}
    for c2 in calls_where(f.node, lambda c_: isinstance(c_.func, ast.Name) and c_.func.id in simp_names, include_lambda=False):
        if not c2.args or not any(isinstance(x, (ast.Subscript,)) or (isinstance(x, ast.Call) and isinstance(x.func, ast.Attribute) and x.func.attr == 'pop') or
                                  (isinstance(x, ast.Call) and isinstance(x.func, ast.Name) and x.func.id == 'next') for x in ast.walk(c2.args[0])):
            continue
        st = enclosing_stmt(c2)
        tgt = st.targets[0].id if isinstance(st, ast.Assign) and len(st.targets) == 1 and isinstance(st.targets[0], ast.Name) else None
        loops = [p_ for (t_, tr, p_) in guards_of(st, stop=f.node) if isinstance(p_, ast.While) and tr]
        goes_on = any(tgt and any(isinstance(x, ast.Compare) and isinstance(x.left, ast.Name) and x.left.id == tgt and isinstance(x.ops[0], ast.Is)
                                  and isinstance(x.comparators[0], ast.Constant) and x.comparators[0].value is None for x in ast.walk(w.test)) for w in loops)
        ctx.check(goes_on, 'simplify#next-case', 'a case without solution is followed by the next (while <result> is None)',
                  'simplify simplifies one sign case (%s) and takes its result as it is: when that case contradicts the other lines the answer is None although another case has solutions' % ' '.join(unparse(c2).split())[:70], f, st)


@rule('C12.m', min_instances=8)
def every_divisor_is_found(ctx):
    """simplify multiplies an inequality through by its divisors and needs a sign case for each divisor that holds a variable: _denominator finds them with a regular expression over the placeholder-simplified text. The pattern is a constant of the source; it is compiled and tried on a table of divisions as users and sympy write them - with and without blanks around the slash, with a power, with a parenthesis marker: every divisor of the table has to come back (a pattern that lost the `\\s*` after the slash finds no divisor in 'x0 / x1 <= 2', and simplify returns a single case that is wrong on one side of the divisor's zero)"""
    import re
    f = ctx.func('mystic.symbolic:_denominator')
    calls = calls_where(f.node, lambda c: callee_text(c).split('.')[-1] in ('findall', 'finditer') and c.args and isinstance(c.args[0], ast.Constant) and isinstance(c.args[0].value, str), include_lambda=True)
    ctx.need(calls, '_denominator: no re.findall(<pattern literal>, ...) found')
    pat = calls[0].args[0].value
    try:
        rx = re.compile(pat)
    except re.error as e:
        ctx.need(False, '_denominator: the pattern does not compile: %s' % e)
    table = (('x0/x1', 'x1'), ('x0 / x1', 'x1'), ('x0 /x1', 'x1'), ('x0/ x1 <= 2', 'x1'), ('3 / x1 + x0', 'x1'), ('x0/$', '$'), ('x0 / $ < 2', '$'),
             ('x0/x1**2', 'x1**2'), ('x0 / x1**2', 'x1**2'), ('a/$**$', '$**$'), ('x0/x1 + x2 / x3', 'x3'), ('x0/x1 + x2 / x3', 'x1'))
    for text, want in table:
        found = []
        for m_ in rx.finditer(text):
            g = m_.groups()
            found.append((''.join(x or '' for x in g) if g else m_.group(0)).strip('/').strip())
        ctx.check(want in found, '_denominator#%s' % text.replace(' ', '_'), 'the divisor %s of %r is found' % (want, text),
                  "_denominator's pattern %r finds %s in %r, not the divisor %s: simplify then makes no sign case for it and the simplified system is wrong where the divisor is negative"
                  % (pat, found or 'nothing', text, want), f, enclosing_stmt(calls[0]))
