"""path-based analysis of the selection step of the differential-evolution solvers (used by C01.c, C03.b, C08)

For DifferentialEvolutionSolver._Step / DifferentialEvolutionSolver2._Step every path is run symbolically (plain locals
substituted, so temporaries such as `energy = trialEnergy[candidate]` vanish; guards written as `if not (a < b): continue`
are ordinary path literals).  Roles come from the data flow, not from names:

  objective   the local(s) bound to self._bootstrap_objective(...)
  energies    the local assigned from objective(self.trialSolution)  (DE)  /  self._map(objective, self.trialSolution, ...) (DE2)
  member i    the loop variable of the loop in which self.popEnergy[i] is stored

Facts returned per store event inside the candidate loops:
  kind in {'member-energy','member-point','best-energy','best-point','trial'}, the value stored, the literals known on the
  path at that moment, and whether the objective had been evaluated for this trial before.
"""
import ast

from ..srcmodel import AnalysisError, walk_no_nested, unparse, norm_stmt
from ..paths import enumerate_paths
from .. import terms as T
from .common import selfname_of, self_call, stmts_of, assigned_names, calls_where, backward_slice

E = ('name', '@energy')      # the value returned by the objective for the current trial(s)
SL = ('slice', None, None, None)


def _strip_slice(t_):
    return t_[1] if isinstance(t_, tuple) and len(t_) == 3 and t_[0] == 'sub' and t_[2] == SL else t_


def _norm_lit(c, tr):
    while isinstance(c, tuple) and c and c[0] == 'not':
        c, tr = c[1], not tr
    return c, tr


class Store(object):
    __slots__ = ('kind', 'target', 'value', 'lits', 'node', 'index', 'evaluated', 'path', 'in_loop', 'gen0', 'at')

    def __init__(self, **kw):
        for k, v in kw.items():
            setattr(self, k, v)


def analyse(ctx, key, f):
    """returns dict(stores=[Store], evals=[(node, trial term)], energy_var=name, transformed=[(node, term)], paths=n)"""
    sn = selfname_of(f)
    S = ('name', sn)
    trial = ('attr', S, 'trialSolution')
    obj = set()
    for s in stmts_of(f.node):
        if isinstance(s, ast.Assign) and len(s.targets) == 1 and isinstance(s.targets[0], ast.Name) and isinstance(s.value, ast.Call) and \
                self_call(s.value, '_bootstrap_objective', sn):
            obj.add(s.targets[0].id)
    if not obj:
        raise AnalysisError('%s: no local is bound to self._bootstrap_objective(...)' % f.qualname)
    evals = []
    unwrapped = {}
    for s in stmts_of(f.node):
        if not (isinstance(s, ast.Assign) and len(s.targets) == 1 and isinstance(s.targets[0], ast.Name) and isinstance(s.value, ast.Call)):
            continue
        c = s.value
        # the evaluation may be wrapped in a pure helper of the package that only unwraps a one-element result
        # (`_as_scalar(cost(trial))`): the helper's value over the energy must be the energy itself or its element 0 / ravel
        if isinstance(c.func, ast.Name) and c.func.id not in obj and len(c.args) == 1 and isinstance(c.args[0], ast.Call) and not c.keywords:
            from .common import helper_value
            hv = helper_value(ctx, f, c.func.id, (E,), ())
            if hv is not None and all(leaf == E or leaf == ('sub', E, T.num(0)) or (leaf[0] == 'call' and T.show(leaf[1]).endswith('ravel') and leaf[2] == (E,))
                                      for cl, leaf in T.cases(T.simp(hv))):
                c = c.args[0]
                unwrapped[id(s)] = c
        # materialising the result of the map (list(self._map(...))) does not change the energies
        if isinstance(c.func, ast.Name) and c.func.id in ('list', 'tuple', 'asarray', 'array') and len(c.args) == 1 and not c.keywords and isinstance(c.args[0], ast.Call) and \
                self_call(c.args[0], '_map', sn):
            c = c.args[0]
            unwrapped[id(s)] = c
        if isinstance(c.func, ast.Name) and c.func.id in obj and len(c.args) == 1:
            evals.append((s, 'direct'))
        elif self_call(c, '_map', sn) and len(c.args) >= 2 and isinstance(c.args[0], ast.Name) and c.args[0].id in obj:
            evals.append((s, 'map'))
    if not evals:
        raise AnalysisError('%s: the objective is never evaluated at self.trialSolution into a local' % f.qualname)
    ev_names = set(s.targets[0].id for s, _ in evals)
    if len(ev_names) != 1:
        raise AnalysisError('%s: several energy variables %s' % (f.qualname, sorted(ev_names)))
    EV = ev_names.pop()
    mode = evals[0][1]
    watched = ('popEnergy', 'population', 'bestEnergy', 'bestSolution', 'trialSolution')

    def root_attr(tg):
        base = tg
        while isinstance(base, ast.Subscript):
            base = base.value
        if isinstance(base, ast.Attribute) and isinstance(base.value, ast.Name) and base.value.id == sn:
            return base.attr
        return None
    seeds = {EV}
    for s in stmts_of(f.node):
        if isinstance(s, (ast.Assign, ast.AugAssign)):
            tgs = s.targets if isinstance(s, ast.Assign) else [s.target]
            if any(root_attr(x) in watched for x in tgs):
                seeds |= set(n.id for n in ast.walk(s) if isinstance(n, ast.Name))
    for n in walk_no_nested(f.node):
        if isinstance(n, (ast.If, ast.While)):
            seeds |= set(x.id for x in ast.walk(n.test) if isinstance(x, ast.Name))
    names = backward_slice(f.node, seeds)

    def rel(n):
        if isinstance(n, (ast.Assign, ast.AugAssign)):
            tgs = n.targets if isinstance(n, ast.Assign) else [n.target]
            if any(root_attr(x) in watched for x in tgs):
                return True
            return bool(set(assigned_names(n)) & names)
        if isinstance(n, ast.For):
            return True
        if isinstance(n, ast.Call) and isinstance(n.func, ast.Name) and n.func.id == 'strategy':
            return True
        return False
    paths = [p for p in enumerate_paths(f.node, relevant=rel, unroll=(0, 1)) if p.exit != 'raise']
    ctx.stats['paths_enumerated'] += len(paths)
    stores, transformed = [], []
    seen = set()
    for p in paths:
        b = T.Builder()
        lits = []
        evaluated = False
        evaluated_at = None
        in_loop = 0
        loopvars = []
        gen0 = None
        for e in p.events:
            if e[0] == 'cond':
                c, tr = _norm_lit(T.simp(b.t(e[1])), e[2])
                lits.append((c, tr))
                if c == ('call', ('name', 'len'), (('attr', S, '_stepmon'),), ()):
                    gen0 = not tr
            elif e[0] == 'iter':
                lp = e[1]
                if isinstance(lp, ast.For):
                    in_loop += 1 if e[2] == 0 else 0
                    for n in ast.walk(lp.target):
                        if isinstance(n, ast.Name):
                            b.env.pop(n.id, None)
                            loopvars.append(n.id)
                    if mode == 'direct':
                        evaluated = False      # a new trial is built in every iteration
            elif e[0] == 'stmt':
                st = e[1]
                if calls_where(st, lambda c: isinstance(c.func, ast.Name) and c.func.id == 'strategy', include_lambda=False):
                    if evaluated:
                        stores.append(Store(kind='trial', target=None, value=('name', 'strategy'), lits=list(lits), node=st, index=None,
                                            evaluated=True, path=p, in_loop=in_loop, gen0=gen0, at=evaluated_at))
                if isinstance(st, ast.Assign) and len(st.targets) == 1 and isinstance(st.targets[0], ast.Name) and st.targets[0].id == EV:
                    if any(st is s for s, _ in evals):
                        b.env[EV] = E
                        evaluated = True
                        callnode = unwrapped.get(id(st), st.value)
                        at = callnode.args[0] if mode == 'direct' else callnode.args[1]
                        evaluated_at = T.simp(b.t(at))
                        continue
                    v = T.simp(b.t(st.value))
                    if v == ('sub', E, T.num(0)) or (v[0] == 'call' and T.show(v[1]) in ('ravel', 'numpy.ravel', 'np.ravel', 'squeeze', 'numpy.squeeze') and v[2] == (E,)):
                        b.env[EV] = E          # unwrapping a one-element result
                        continue
                    if any(x == E for x in T.subterms(v)):
                        transformed.append((st, v))
                    b.env[EV] = v
                    continue
                if isinstance(st, (ast.Assign, ast.AugAssign)):
                    tgs = st.targets if isinstance(st, ast.Assign) else [st.target]
                    for tg in tgs:
                        ra = root_attr(tg)
                        if ra in watched:
                            tt = T.simp(b.t(tg))
                            val = T.simp(b.t(st.value))
                            kind = {'popEnergy': 'member-energy', 'population': 'member-point', 'bestEnergy': 'best-energy',
                                    'bestSolution': 'best-point', 'trialSolution': 'trial'}[ra]
                            idx = None
                            core = _strip_slice(tt)
                            if core[0] == 'sub':
                                idx = core[2]
                            k = (kind, id(st), tuple(lits))
                            if k not in seen:
                                seen.add(k)
                                stores.append(Store(kind=kind, target=tt, value=val, lits=list(lits), node=st, index=idx, evaluated=evaluated,
                                                    path=p, in_loop=in_loop, gen0=gen0, at=evaluated_at))
                    if not any(root_attr(tg) in watched for tg in tgs):
                        b.exec_stmt(st)        # (the solver's own state stays symbolic: self.bestEnergy means "the incumbent")
    return {'stores': stores, 'evals': evals, 'energy_var': EV, 'transformed': transformed, 'paths': len(paths), 'mode': mode, 'sn': sn}


def improvement_literal(store, sn, mode):
    """the literal `<energy of this trial> < <incumbent>` (strict) that must be known where `store` happens, plus what the
    energy / point of this trial are; None when the store does not address a member / the best"""
    S = ('name', sn)
    trial = ('attr', S, 'trialSolution')
    if store.kind.startswith('member'):
        i = store.index
        if i is None:
            return None
        en = E if mode == 'direct' else ('sub', E, i)
        where = store.at if store.at is not None else trial
        pt = where if mode == 'direct' else ('sub', where, i)
        return T.mk_cmp('<', en, ('sub', ('attr', S, 'popEnergy'), i)), en, pt
    if store.kind.startswith('best'):
        # the index of the trial is whatever member index the path is working on: taken from the value stored / compared
        idx = None
        for c, tr in store.lits:
            if c[0] == 'cmp' and tr and c[3] == ('attr', S, 'bestEnergy'):
                if c[2][0] == 'sub' and c[2][1] == E:
                    idx = c[2][2]
        en = E if mode == 'direct' else (('sub', E, idx) if idx is not None else None)
        where = store.at if store.at is not None else trial
        pt = where if mode == 'direct' else (('sub', where, idx) if idx is not None else None)
        if en is None:
            return ('cmp', '<', ('name', '?'), ('attr', S, 'bestEnergy')), None, None
        return T.mk_cmp('<', en, ('attr', S, 'bestEnergy')), en, pt
    return None
