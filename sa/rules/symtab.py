"""E9 helpers: decision tables and string-template skeletons of the symbolic parsers."""
import ast

from ..srcmodel import AnalysisError, unparse
from ..paths import enumerate_block
from .. import terms as T


def ifexp_table(node):
    """flatten `A if c1 else B if c2 else C` into ([(cond term, value term)...], default term)"""
    rows = []
    cur = node
    while isinstance(cur, ast.IfExp):
        rows.append((T.term(cur.test), T.term(cur.body)))
        cur = cur.orelse
    return rows, T.term(cur)


def eq_table(node, subject):
    """for chains of `X if subject == 'lit' else ...`: ({lit: value const}, default) ; raises if another shape"""
    rows, dflt = ifexp_table(node)
    out = {}
    for c, v in rows:
        if c[0] == 'cmp' and c[1] == '==' and ('name', subject) in (c[2], c[3]):
            lit = c[3] if c[2] == ('name', subject) else c[2]
            if lit[0] == 'const':
                out[lit[1]] = v
                continue
        raise AnalysisError('not an equality table on %s: %s' % (subject, T.show(c)))
    return out, dflt


def const_fold(term):
    """truth of a comparison between two constants, else None"""
    if isinstance(term, tuple) and term and term[0] == 'cmp' and term[2][0] == 'const' and term[3][0] == 'const':
        a, b = term[2][1], term[3][1]
        return {'==': a == b, '!=': a != b}.get(term[1])
    if isinstance(term, tuple) and term and term[0] == 'not':
        v = const_fold(term[1])
        return None if v is None else (not v)
    return None


def fold_consts(term):
    """constant folding over the finite string domain of the parsers: comparisons of constants, conditional expressions
    with a decided test, concatenation of constants, `'' .replace(...)`, `x or y` / `x and y` with a constant left side"""
    if not isinstance(term, tuple) or not term:
        return term
    if term[0] == 'const':
        return term
    t_ = tuple(fold_consts(x) if isinstance(x, tuple) else x for x in term)
    if t_[0] == 'cmp' and t_[2][0] == 'const' and t_[3][0] == 'const':
        a, b = t_[2][1], t_[3][1]
        try:
            v = {'==': lambda: a == b, '!=': lambda: a != b, 'in': lambda: a in b, 'notin': lambda: a not in b}.get(t_[1])
            if v is not None:
                return ('const', v())
        except TypeError:
            pass
    if t_[0] == 'not' and t_[1][0] == 'const':
        return ('const', not t_[1][1])
    if t_[0] == 'ifexp' and t_[1][0] == 'const':
        return t_[2] if t_[1][1] else t_[3]
    if t_[0] == 'concat' and all(x[0] == 'const' and isinstance(x[1], str) for x in t_[1:]):
        return ('const', ''.join(x[1] for x in t_[1:]))
    if t_[0] == 'call' and t_[1][0] == 'attr' and t_[1][2] == 'replace' and t_[1][1] == ('const', ''):
        return ('const', '')
    if t_[0] in ('or', 'and') and len(t_) >= 3 and t_[1][0] == 'const':
        pick_rest = bool(t_[1][1]) == (t_[0] == 'and')
        if not pick_rest:
            return t_[1]
        return t_[2] if len(t_) == 3 else fold_consts((t_[0],) + t_[2:])
    return t_


def feasible_paths(stmts, unroll=(0, 1), on_stmt=None):
    """paths through a statement list with forward substitution; paths whose literals compare two
    different constants are infeasible and dropped.  Yields (literals, builder, effects, path)."""
    for p in enumerate_block(stmts, unroll=unroll):
        b = T.Builder()
        lits = []
        effects = []
        ok = True
        known = {}
        for e in p.events:
            if e[0] == 'cond':
                tt = T.simp(b.t(e[1]))
                cf = const_fold(tt)
                if cf is not None:
                    if cf != e[2]:
                        ok = False
                        break
                    continue
                if known.get(tt, e[2]) != e[2]:
                    ok = False      # the same test cannot come out both ways on one path
                    break
                known[tt] = e[2]
                lits.append((tt, e[2]))
            elif e[0] == 'stmt':
                st = e[1]
                if isinstance(st, (ast.Assign, ast.AugAssign)) and not b.exec_stmt(st):
                    pass
                if isinstance(st, ast.Assign) and not isinstance(st.targets[0], (ast.Name, ast.Tuple)):
                    effects.append(('store', T.simp(b.t(st.targets[0])), T.simp(b.t(st.value))))
                if isinstance(st, ast.AugAssign) and not isinstance(st.target, ast.Name):
                    effects.append(('aug', T.simp(b.t(st.target)), T.simp(b.t(st.value))))
                if isinstance(st, ast.Expr) and isinstance(st.value, ast.Call):
                    effects.append(('call', T.simp(b.t(st.value))))
                if on_stmt is not None:
                    on_stmt(st, b, effects)
        if ok:
            yield lits, b, effects, p


def strs(node):
    return [n.value for n in ast.walk(node) if isinstance(n, ast.Constant) and isinstance(n.value, str)]


def concat_consts(term):
    """string literals that are direct operands of a + concatenation (everything else is an opaque operand '*')"""
    if isinstance(term, tuple) and term and term[0] == 'concat':
        return concat_consts(term[1]) + concat_consts(term[2])
    if isinstance(term, tuple) and term and term[0] == 'const' and isinstance(term[1], str):
        return (term[1],)
    return ('*',)
