"""Objective composition: the wrapper chain built by each _decorate_objective, per path.

The local ``cost`` is followed by forward substitution along every path of the
function; the value finally stored in ``self._cost[0]`` / returned is rendered
as a chain of wrappers, outermost first, e.g. for Nelder-Mead with strict ranges
and a reducer:

  reduced(self._reducer) > wrap_nested(and_(...)) > wrap_penalty(self._penalty)
     > wrap_bounds(self._strictMin, self._strictMax) > wrap_function(RAW, ExtraArgs, self._evalmon)
"""
import ast

from ..srcmodel import AnalysisError, unparse, walk_no_nested
from ..paths import enumerate_paths
from .. import terms as T
from .common import selfname_of, is_self_attr

WRAPPERS = ('wrap_function', 'wrap_bounds', 'wrap_penalty', 'wrap_nested', 'reduced')

DECORATORS = {
    'base': 'mystic.abstract_solver:AbstractSolver._decorate_objective',
    'DE': 'mystic.differential_evolution:DifferentialEvolutionSolver._decorate_objective',
    'DE2': 'mystic.differential_evolution:DifferentialEvolutionSolver2._decorate_objective',
    'NM': 'mystic.scipy_optimize:NelderMeadSimplexSolver._decorate_objective',
}
NESTS_CONSTRAINTS = {'base': True, 'NM': True, 'DE': False, 'DE2': False}


def _callee(t):
    if isinstance(t, tuple) and t and t[0] == 'call':
        return T.show(t[1])
    return None


def chain_of(term):
    """[(wrapper name, args tuple, kws)] outermost first; last element ('RAW', name)"""
    out = []
    cur = term
    while True:
        if isinstance(cur, tuple) and cur and cur[0] == 'sub' and _callee(cur[1]) == 'wrap_function' and cur[2] == T.num(1):
            c = cur[1]
            out.append(('wrap_function', c[2], c[3]))
            cur = c[2][0] if c[2] else None
            continue
        name = _callee(cur)
        if name in ('wrap_bounds', 'wrap_penalty', 'wrap_nested'):
            out.append((name, cur[2], cur[3]))
            cur = cur[2][0] if cur[2] else None
            continue
        # reduced(reducer, arraylike=True)(cost)
        if isinstance(cur, tuple) and cur and cur[0] == 'call' and _callee(cur[1]) == 'reduced':
            out.append(('reduced', cur[1][2], cur[1][3]))
            cur = cur[2][0] if cur[2] else None
            continue
        if isinstance(cur, tuple) and cur and cur[0] == 'call':
            out.append(('?' + T.show(cur[1]), cur[2], cur[3]))
            cur = cur[2][0] if cur[2] else None
            continue
        out.append(('RAW', cur))
        return out


def analyse(ctx, finfo):
    """per path of a _decorate_objective: dict(strict, reducer, chain, returned, stored, path)"""
    sn = selfname_of(finfo)
    params = finfo.args()
    if len(params) < 2:
        raise AnalysisError('%s signature changed' % finfo.qualname)
    rawp = params[1]

    def rel(n):
        if isinstance(n, ast.Name) and isinstance(n.ctx, ast.Store):
            return True
        if isinstance(n, ast.Name) and n.id in ('cost', 'constraints', 'evalmon', 'raw', rawp):
            return True
        if isinstance(n, ast.Attribute) and n.attr in ('_cost', '_useStrictRange', '_reducer', '_live', '_fcalls'):
            return True
        return False
    paths = [p for p in enumerate_paths(finfo.node, relevant=rel, unroll=(0, 1)) if p.exit == 'return']
    ctx.stats['paths_enumerated'] += len(paths)
    res = []
    for p in paths:
        b = T.Builder()
        strict = reducer = None
        pymap = None
        stored = None
        live = None
        for e in p.events:
            if e[0] == 'cond':
                txt = ''.join(unparse(e[1]).split())
                if txt == '%s._useStrictRange' % sn:
                    strict = e[2]
                elif txt == '%s._reducer' % sn:
                    reducer = e[2]
                elif '_map' in txt and 'python_map' in txt:
                    pymap = (not e[2]) if '!=' in txt else e[2]
            elif e[0] == 'stmt':
                st = e[1]
                if isinstance(st, ast.Assign):
                    tg = st.targets[0]
                    if is_self_attr(tg, '_cost', sn):
                        stored = T.simp(b.t(st.value))
                        continue
                    if is_self_attr(tg, '_live', sn):
                        live = T.simp(b.t(st.value))
                        continue
                    # follow only the locals that make up the objective
                    # follow every plain local (temporaries included); stores through
                    # self.* / subscripts are not part of the objective's value
                    elts = tg.elts if isinstance(tg, (ast.Tuple, ast.List)) else [tg]
                    if all(isinstance(x, (ast.Name, ast.Attribute)) for x in elts) and any(isinstance(x, ast.Name) for x in elts):
                        v = b.t(st.value)
                        for x in elts:
                            if isinstance(x, ast.Attribute):
                                pass
                        if isinstance(tg, (ast.Tuple, ast.List)):
                            vt = T.simp(v)
                            for i, x in enumerate(elts):
                                if isinstance(x, ast.Name):
                                    b.env[x.id] = ('sub', vt, T.num(i))
                        else:
                            b.assign(tg, v)
        ret = p.exit_node.value if p.exit_node is not None else None
        returned = T.simp(b.t(ret)) if ret is not None else None
        res.append({'strict': strict, 'reducer': reducer, 'pymap': pymap, 'returned': returned, 'stored': stored,
                    'live': live, 'chain': chain_of(returned) if returned is not None else None, 'path': p,
                    'raw_param': rawp, 'self': sn})
    return res


def render(chain):
    out = []
    for c in chain:
        if c[0] == 'RAW':
            out.append('RAW:' + T.show(c[1]))
        else:
            out.append('%s(%s)' % (c[0], ', '.join([T.show(a) for a in c[1][1:]] + ['%s=%s' % (k, T.show(v)) for k, v in c[2]])))
    return ' > '.join(out)


def constraints_term(sn, strict):
    s = ('name', sn)
    if strict:
        return ('call', ('name', 'and_'), (('attr', s, '_constraints'), ('attr', s, '_strictbounds')),
                (('onfail', ('attr', s, '_strictbounds')),))
    return ('attr', s, '_constraints')


def check_coupling(ctx, key, m):
    """on every path of m, the local `constraints` is the and_(...) coupling when strict ranges are on
    and self._constraints when they are off (a path that does not test _useStrictRange must satisfy both)"""
    from .common import stmts_of
    sn = selfname_of(m)

    # the local that plays the role of "the constraints in force": whichever plain local is assigned from self._constraints
    # (directly or through the and_ coupling) - found by data flow, not by its name
    role = set()
    for s in stmts_of(m.node):
        if isinstance(s, ast.Assign) and len(s.targets) == 1 and isinstance(s.targets[0], ast.Name) and \
                any(isinstance(x, ast.Attribute) and x.attr == '_constraints' and isinstance(x.value, ast.Name) and x.value.id == sn for x in ast.walk(s.value)):
            role.add(s.targets[0].id)

    def rel(n):
        if isinstance(n, ast.Name) and n.id in role and isinstance(n.ctx, ast.Store):
            return True
        return isinstance(n, ast.Attribute) and n.attr == '_useStrictRange'
    asg = [s for s in stmts_of(m.node) if isinstance(s, ast.Assign) and isinstance(s.targets[0], ast.Name) and s.targets[0].id in role]
    if not asg:
        raise AnalysisError('no local is assigned from self._constraints in %s' % m.qualname)
    paths = [p for p in enumerate_paths(m.node, relevant=rel, unroll=(0, 1)) if p.exit != 'raise']
    ctx.stats['paths_enumerated'] += len(paths)
    results = {}
    for p in paths:
        strict = None
        val = None
        node = None
        b = T.Builder()
        for e in p.events:
            if e[0] == 'cond' and T.term(e[1]) == ('attr', ('name', sn), '_useStrictRange'):
                strict = e[2]
            elif e[0] == 'cond' and T.term(e[1]) == ('not', ('attr', ('name', sn), '_useStrictRange')):
                strict = not e[2]
            elif e[0] == 'stmt' and isinstance(e[1], ast.Assign) and isinstance(e[1].targets[0], ast.Name) and e[1].targets[0].id in role:
                val = T.simp(b.t(e[1].value))
                node = e[1]
                b.exec_stmt(e[1])     # `c = self._constraints; if strict: c = and_(c, ...)` couples the same value
        if val is None:
            continue
        for sv in ((True, False) if strict is None else (strict,)):
            results.setdefault(sv, set()).add((val, node))
    for sv in (True, False):
        want = constraints_term(sn, sv)
        got = results.get(sv, set())
        ctx.stats['terms_compared'] += len(got)
        if not got:
            raise AnalysisError('no path assigns `constraints` with strict ranges %s in %s' % ('on' if sv else 'off', m.qualname))
        badv = [(v, n) for v, n in got if v != want]
        construct = '%s#coupling[strict=%s]' % (m.qualname, sv)
        if badv:
            v, n = badv[0]
            ctx.bad(construct, 'with strict ranges %s the constraints used by %s are %s (expected %s)' % (
                'on' if sv else 'off', m.qualname, T.show(v), T.show(want)), m, n)
        else:
            ctx.ok(construct, 'constraints = %s' % T.show(want), m, asg[0])
