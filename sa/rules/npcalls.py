"""shared rule: numpy reductions are never handed a generator expression.

Repository-specific hazard: many mystic modules shadow the builtins with `from numpy import sum` (module level
in constraints.py, function level in measures.py / discrete.py).  `numpy.sum(<generator>)` was deprecated in
numpy 1.15 (it silently fell back to the builtin) and raises TypeError in the numpy this repository runs with, so
every function that reaches such a call fails for *every* input - a necessary condition of each behavioural
clause that goes through it.  The callee is resolved through the import tables of the resolved program model
(function-local imports first, then module level, star imports, local shadowing by parameters/assignments), not
by spelling: the same text `sum(x for ...)` is fine where `sum` is the builtin.
"""
import ast

from ..srcmodel import walk_no_nested, unparse

NP_REDUCTIONS = ('sum', 'prod', 'product', 'max', 'min', 'amax', 'amin', 'any', 'all', 'mean', 'std', 'var',
                 'cumsum', 'cumprod', 'median', 'ptp', 'nansum', 'nanmax', 'nanmin')


def _np_name(r):
    if not r or r[0] != 'extern':
        return None
    dotted = r[1]
    parts = dotted.split('.')
    if parts[0] not in ('numpy', 'np'):
        return None
    return parts[-1] if parts[-1] in NP_REDUCTIONS else None


def numpy_reduction_sites(ctx, finfo):
    """[(call node, numpy name)] for every call in finfo (nested defs excluded) whose callee resolves to a numpy reduction"""
    out = []
    local = None
    for n in walk_no_nested(finfo.node):
        if not isinstance(n, ast.Call):
            continue
        f = n.func
        if isinstance(f, ast.Name):
            if local is None:
                local = ctx.cg.local_names(finfo)
            if f.id in local:
                continue
            r = ctx.model.resolve_in_func(finfo, f.id)
        elif isinstance(f, ast.Attribute):
            r = ctx.model.resolve_dotted(finfo, f)
        else:
            continue
        name = _np_name(r)
        if name:
            out.append((n, name))
    return out


def check_functions(ctx, finfos, label):
    """one instance per numpy reduction call site in the given functions"""
    n = 0
    for f in finfos:
        ctx.touch(f)
        for call, name in numpy_reduction_sites(ctx, f):
            n += 1
            gen = [a for a in call.args[:1] if isinstance(a, ast.GeneratorExp)]
            ctx.check(not gen, '%s#numpy.%s@%s' % (f.qualname, name, unparse(call.args[0])[:40] if call.args else ''),
                      'numpy.%s receives an array-like' % name,
                      '%s hands a generator expression to numpy.%s (the name is bound by `from numpy import %s`): TypeError on '
                      'this numpy, so %s fails for every input' % (f.qualname, name, name, f.qualname), f, call,
                      statement='numpy.%s(<generator>) in %s' % (name, f.qualname))
    ctx.stats['call_sites'] += n
    return n


def functions_of_modules(ctx, modules, exclude=()):
    out = []
    for mn in modules:
        m = ctx.model.module(mn)
        for q, f in sorted(m.funcs.items()):
            if f.anchor in exclude:
                continue
            out.append(f)
    return out


def closure(ctx, entry_anchors, max_funcs=4000):
    """{anchor: (FuncInfo, call path from an entry)} of everything the entries can run: resolved callees
    (imports, methods by class hierarchy, instantiation) and every function nested in a reached function
    (decorator factories hand their closures out)"""
    model = ctx.model
    out = {}
    stack = []
    for a in entry_anchors:
        f = ctx.func(a)
        stack.append((f, (f.qualname,)))
    while stack and len(out) < max_funcs:
        f, path = stack.pop(0)   # breadth first: shortest call path in the report
        if f.anchor in out:
            continue
        out[f.anchor] = (f, path)
        pre = f.qualname + '.'
        for q, nf in f.module.funcs.items():
            if q.startswith(pre) and nf.anchor not in out:
                stack.append((nf, path + (nf.qualname,)))
        try:
            cs = ctx.cg.callees(f)
        except RecursionError:
            cs = []
        for tgt, node in cs:
            if hasattr(tgt, 'anchor') and tgt.anchor not in out:
                stack.append((tgt, path + (tgt.qualname,)))
    ctx.stats['functions_reached'] += len(out)
    return out


def check_closure(ctx, entry_anchors, min_sites=1):
    """every numpy reduction call site reachable from the entries receives an array-like"""
    cl = closure(ctx, entry_anchors)
    n = 0
    for a in sorted(cl):
        f, path = cl[a]
        sites = numpy_reduction_sites(ctx, f)
        if not sites:
            continue
        ctx.touch(f)
        for call, name in sites:
            n += 1
            gen = [x for x in call.args[:1] if isinstance(x, ast.GeneratorExp)]
            ctx.check(not gen, '%s#numpy.%s(%s)' % (f.qualname, name, unparse(call.args[0])[:40] if call.args else ''),
                      'numpy.%s receives an array-like (reached via %s)' % (name, ' > '.join(path[-3:])),
                      '%s hands a generator expression to numpy.%s (bound by `from numpy import %s`): TypeError on the numpy this '
                      'repository runs with, so every call through %s fails' % (f.qualname, name, name, ' > '.join(path)), f, call,
                      statement='numpy.%s(<generator>) in %s' % (name, f.qualname))
    ctx.stats['call_sites'] += n
    ctx.need(n >= min_sites, 'only %d numpy reduction call sites reachable from %s (expected >= %d): import resolution no longer '
                             'recognises them' % (n, entry_anchors[:3], min_sites))
    return n
