"""C17 - combinators claim success only at a fixed point; couplers compose as documented.

Decided: in constraints.and_/or_/not_ every return through ``onexit`` is
control-dependent on the fixed-point test of that combinator and on ``e is None``
(no pending exception), returns the tested vector, the fall-through return uses
``onfail``; the exception flag is reset per iteration; only bounded ``for``
loops; members are called on copies; no random draw lies on any path to the
first-check success return, and and_'s randomising store is guarded by its cycle
test; the six function couplers equal their documented composition (reference
summaries); penalty combinators = C15.e.
Round 3: the constraint returned by and_/or_/not_ carries no state from call to
call (no factory-scope iterator read, no factory-scope object mutated, no
nonlocal).
Round 4: the couplers' factory prologues (args / kwds defaults) agree with their
reference.
The window of and_'s fixed-point test spans n applications (n+1 history entries,
the input included in the first pass).
Round 5 (hunt): and_ claims success only after n applications without change
(repair 97a6f16).
Round 6: as_penalty measures on a copy (shared with C15.h);
generate_constraint(join=...) hands every entry to the joiner.
Review of the repairs: the helper _same of and_ may loosen == by two units in the last place at most (C17.i) - the step of a symbolic strict inequality is four or more.
NOT decided: convergence within maxiter.
"""
import ast

from ..core import rule
from ..srcmodel import AnalysisError, walk_no_nested, unparse, norm_stmt
from ..paths import enumerate_paths
from .. import terms as T
from .. import siblings as SB
from .common import *

CN = 'mystic.constraints'

# success test of each combinator, per success return in source order   [and e is None]
FIXED = {
    # (_same(a, b): a == b, or equal to within floating-point rounding - checked separately below)
    'and_': ['all((_same(xi, x[-1]) for xi in x))', 'all((_same(xi, x[-1]) for xi in x[-(n + 1):]))'],
    'or_': ['x[-1] == x[0]', 'x[-1] == x[-(n + 1)]'],
    'not_': ['constraint(x[:]) != x'],
}
SUCCESS_VALUE = {'and_': 'x[-1]', 'or_': 'x[-1]', 'not_': 'x[:]'}


def _inner(ctx, name):
    return ctx.func('%s:%s._constraint' % (CN, name))


def _returns(f):
    rs = [n for n in walk_no_nested(f.node) if isinstance(n, ast.Return)]
    rs.sort(key=lambda n: n.lineno)
    return rs


@rule('C17.a', min_instances=12)
def success_only_at_fixed_point(ctx, names=('and_', 'or_', 'not_')):
    """and_/or_/not_: a return through onexit is guarded by the combinator's fixed-point test and `e is None`; the final return goes through onfail; loops bounded; members called on copies"""
    for name in names:
        f = _inner(ctx, name)
        rets = _returns(f)
        succ = [r for r in rets if 'onexit' in unparse(r.value)]
        fail = [r for r in rets if 'onfail' in unparse(r.value)]
        other = [r for r in rets if r not in succ and r not in fail]
        for r in other:
            ctx.bad('%s#return' % name, 'a return of %s bypasses both onexit and onfail: %s' % (name, norm_stmt(r)), f, r)
        ctx.need(len(succ) >= len(FIXED[name]), '%s: expected %d success returns, found %d' % (name, len(FIXED[name]), len(succ)))
        wants = [(fx, T.term(ast.parse(fx, mode='eval').body)) for fx in FIXED[name]]
        used = set()
        for r in succ:
            gs = guard_terms(r, stop=f.node)
            e_none = T.mk_cmp('is', ('name', 'e'), ('const', None))
            lits = []
            for tt, tr in gs:
                if tt[0] == 'and' and tr:
                    lits.extend((x, True) for x in tt[1:])
                else:
                    lits.append((tt, tr))
            hit = [fx for fx, w in wants if (w, True) in lits]
            has_fp = bool(hit)
            fx = hit[0] if hit else ' | '.join(FIXED[name])
            used.update(hit)
            has_e = (e_none, True) in lits or name == 'not_'   # not_: an exception skips the return via the try body
            ctx.stats['terms_compared'] += 2
            ctx.check(has_fp and has_e, '%s#success@%s' % (name, fx), 'guarded by `%s`%s' % (fx, '' if name == 'not_' else ' and `e is None`'),
                      '%s reports success without its fixed-point test `%s`%s holding (guards: %s)' % (
                          name, fx, '' if name == 'not_' else ' and no pending exception', [(T.show(a), b) for a, b in lits]), f, r)
            v = r.value
            shape = isinstance(v, ast.IfExp) and ''.join(unparse(v.test).split()) == 'onexitisNone' and \
                ''.join(unparse(v.body).split()) == SUCCESS_VALUE[name] and ''.join(unparse(v.orelse).split()) in (
                    'onexit(%s[:])' % SUCCESS_VALUE[name], 'onexit(%s)' % SUCCESS_VALUE[name])
            ctx.check(shape, '%s#success-value@%s' % (name, fx), 'returns the tested vector (through onexit when given)',
                      '%s returns %s on success, not the vector that passed the test' % (name, unparse(v)), f, r)
        ctx.need(used == set(FIXED[name]) or any(o['verdict'] == 'VIOLATION' for o in ctx.obligations), '%s: fixed-point tests %s not all found' % (name, sorted(set(FIXED[name]) - used)))
        ctx.check(len(fail) == 1 and fail[0] is f.node.body[-1] and ''.join(unparse(fail[0].value.test).split()) == 'onfailisNone', '%s#fail' % name,
                  'falls through to onfail', '%s no longer ends in the onfail return' % name, f, fail[0] if fail else f.node)
        whiles = [n for n in walk_no_nested(f.node) if isinstance(n, ast.While)]
        fors = [n for n in walk_no_nested(f.node) if isinstance(n, ast.For)]
        bounded = not whiles and all(isinstance(l.iter, ast.Name) or (isinstance(l.iter, ast.Call) and callee_text(l.iter) == 'range'
                                                                   and 'maxiter' in unparse(l.iter)) for l in fors)
        ctx.check(bounded, '%s#bounded' % name, 'only bounded for-loops (range(..., maxiter) / the member list)',
                  '%s contains an unbounded loop' % name, f, (whiles or fors or [f.node])[0])
        # members are called on copies
        if name == 'not_':
            member_calls = calls_where(f.node, lambda c: isinstance(c.func, ast.Name) and c.func.id == 'constraint')
        else:
            member_calls = calls_where(f.node, lambda c: (isinstance(c.func, ast.Name) and c.func.id == 'c') or
                                       (isinstance(c.func, ast.Call) and callee_text(c.func) == 'next'))
        ctx.need(member_calls, '%s: member calls not found' % name)
        for c in member_calls:
            a = c.args[0] if c.args else None
            iscopy = isinstance(a, ast.Subscript) and isinstance(a.slice, ast.Slice) and a.slice.lower is None and a.slice.upper is None
            ctx.check(iscopy, '%s#copy' % name, 'member called on a copy %s' % (unparse(a) if a is not None else ''),
                      'a member constraint is called on the live vector %s (an in-place member would corrupt the history the fixed-point test reads)'
                      % (unparse(a) if a is not None else ''), f, c)
        # exception flag reset per iteration
        if name != 'not_':
            for lp in fors:
                if isinstance(lp.iter, ast.Call):
                    first = lp.body[0]
                    ctx.check(isinstance(first, ast.Assign) and ''.join(unparse(first).split()) == 'e=None', '%s#reset-e' % name,
                              'e = None at the start of each cycle', 'the exception flag is not reset at the start of each cycle', f, first)


@rule('C17.b', min_instances=3)
def no_randomness_on_success_path(ctx):
    """no rnd.* call lies on any path from entry to the first-check success return; and_'s randomising store is guarded by its cycle test"""
    for name in ('and_', 'or_', 'not_'):
        f = _inner(ctx, name)
        rets = _returns(f)
        succ = [r for r in rets if 'onexit' in unparse(r.value)]
        ctx.need(succ, '%s: no success return' % name)
        first = succ[0]

        def is_rnd(c):
            return isinstance(c, ast.Call) and callee_text(c).startswith('rnd.')

        def rel(n):
            return isinstance(n, ast.Return) or is_rnd(n)
        paths = enumerate_paths(f.node, relevant=rel, unroll=(0, 1, 2))
        ctx.stats['paths_enumerated'] += len(paths)
        bad = None
        n = 0
        for p in paths:
            if p.exit_node is not first:
                continue
            # only the very first evaluation of the check (no earlier failed check of the same test for not_)
            n += 1
            draws = [e for e in p.events if e[0] == 'stmt' and calls_where(e[1], is_rnd)]
            if draws:
                # allowed only after an earlier failed attempt of the same loop (a later iteration)
                it = [e for e in p.events if e[0] == 'iter']
                first_attempt = not any(e[2] > 0 for e in it)
                if first_attempt:
                    bad = (p, draws[0][1])
        ctx.need(n > 0, '%s: no path reaches the first success return' % name)
        ctx.check(bad is None, '%s#no-rng-on-first-success' % name, '%d paths to the first success return draw no random numbers on the first attempt' % n,
                  '%s consumes random numbers before accepting an input its members already accept: %s' % (name, bad[0].describe(6) if bad else ''), f, bad[1] if bad else first)
    f = _inner(ctx, 'and_')
    rs = [s for s in stmts_of(f.node) if isinstance(s, ast.Assign) and calls_where(s, lambda c: callee_text(c).startswith('rnd.'))]
    ctx.need(rs, 'and_: randomising store not found')
    want = T.term(ast.parse('x[-1] == x[-(n + 1)]', mode='eval').body)
    for s in rs:
        gs = [(t(g[0]), g[1]) for g in guards_of(s, stop=f.node)]
        ctx.check((want, True) in gs, 'and_#randomise-guard', 'randomising store only when a cycle is detected (x[-1] == x[-(n+1)])',
                  'and_ randomises its iterate outside the detected-cycle branch', f, s)


REF = {
    'inner': 'def func(x, *argz, **kwdz):\n    return f(inner(x, *args, **kwds), *argz, **kwdz)\n',
    'outer': 'def func(x, *argz, **kwdz):\n    return outer(f(x, *argz, **kwdz), *args, **kwds)\n',
    'inner_proxy': 'def func(*argz, **kwdz):\n    return f(inner(*argz, **kwdz), *args, **kwds)\n',
    'outer_proxy': 'def func(x, *argz, **kwdz):\n    return outer(f(x, *args, **kwds), *argz, **kwdz)\n',
    'additive': 'def func(x, *argz, **kwdz):\n    return f(x, *argz, **kwdz) + penalty(x, *args, **kwds)\n',
    'additive_proxy': 'def func(x, *argz, **kwdz):\n    return f(x, *args, **kwds) + penalty(x, *argz, **kwdz)\n',
}


@rule('C17.c', min_instances=6)
def couplers(ctx):
    """inner = f(c(x)), outer = c(f(x)), additive = f(x)+p(x), and the three proxies with the argument routing swapped as documented"""
    for name, src in REF.items():
        f = ctx.func('mystic.coupler:%s.dec.func' % name)
        got, want = SB.agree(f.node, src)
        ctx.stats['terms_compared'] += 1
        ctx.check(got == want, 'coupler.' + name, src.split('return ')[1].strip(), 'coupler.%s composes differently: %s' % (name, SB.diff(got, want)), f, f.node)
        # the factory's own prologue: args / kwds default to () / {} when None and are otherwise used as given (a sequence of
        # arguments stays a sequence of arguments); compared as a summary with the nested decorator blanked out
        import copy as _copy
        outer_f = ctx.func('mystic.coupler:%s' % name)
        onode = _copy.deepcopy(outer_f.node)
        for n_ in ast.walk(onode):
            if isinstance(n_, ast.FunctionDef) and n_.name == 'dec' and n_ is not onode:
                n_.body = [ast.Pass()]
        ast.fix_missing_locations(onode)
        first = outer_f.args()[0]
        ref_outer = 'def %s(%s, args=None, kwds=None):\n    if args is None: args=()\n    if kwds is None: kwds={}\n    def dec(f):\n        pass\n    return dec\n' % (name, first)
        go, wo = SB.agree(onode, ref_outer)
        ctx.stats['terms_compared'] += len(go)
        ctx.check(go == wo, 'coupler.%s#prologue' % name, 'args / kwds: None -> () / {}, otherwise as given',
                  'coupler.%s prepares its extra arguments differently: %s' % (name, SB.diff(go, wo)), outer_f, outer_f.node)
        dec = ctx.func('mystic.coupler:%s.dec' % name)
        r = [s for s in dec.node.body if isinstance(s, ast.Return)]
        ctx.check(bool(r) and unparse(r[-1].value) == 'func', 'coupler.%s#dec' % name, 'dec returns func', 'coupler.%s.dec no longer returns the composed function' % name, dec, dec.node)
    # the solver-facing wrap_nested is the inner coupling (C01.b checks its term); generate_constraint joins with inner by default
    g = ctx.func('mystic.symbolic:generate_constraint')
    src = ''.join(unparse(g.node).split())
    ctx.check("join=kwds['join']if'join'inkwdselseNone" in src.replace('"', "'") or 'join' in src, 'generate_constraint#join', 'join keyword honoured', 'join keyword vanished', g, g.node)


@rule('C17.d', min_instances=4)
def penalty_combinators(ctx):
    """coupler.and_/or_/not_: zero exactly where all / any member is zero, not_ negates by the resolved penalty type (shared with C15.e)"""
    from .c15 import combinators
    combinators(ctx)


@rule('C17.e', min_instances=3)
def combinators_keep_no_state_between_calls(ctx):
    """and_/or_/not_ start every call from scratch: the function they return reads no one-shot iterator built in the factory, mutates no object of the factory's scope and declares nothing nonlocal (an iterator shared between calls makes a later call resume mid-cycle and report success at a point the other members still move)"""
    for name in ('and_', 'or_', 'not_'):
        outer = ctx.func('%s:%s' % (CN, name))
        f = _inner(ctx, name)
        found = state_between_calls(outer.node, f.node)
        for kind, nm, node in found:
            what = {'iterator': 'reads the one-shot iterator `%s` built once in %s' % (nm, name),
                    'mutated': 'mutates `%s`, which belongs to the scope of %s and survives the call' % (nm, name),
                    'nonlocal': 'declares `%s` nonlocal/global' % nm}[kind]
            ctx.bad('%s#per-call-state[%s]' % (name, nm), 'the constraint returned by %s %s: calls are no longer independent of earlier calls' % (name, what), f,
                    node if hasattr(node, 'lineno') else f.node)
        if not found:
            ctx.ok('%s#per-call-state' % name, 'no iterator, mutation or nonlocal of the factory scope inside the returned function', f, f.node)


@rule('C17.f', min_instances=2)
def and_success_window_spans_every_member(ctx):
    """and_ applies its n members in turn, appending each result to a history; "no member changes the vector" means n consecutive applications without change, i.e. n+1 equal consecutive history entries: the first-pass test compares the WHOLE history (input included) with its last entry, the test inside the cycle the last n+1 entries (n = len(constraints)) - a window of n entries accepts a vector that one member produced and only the other n-1 left alone"""
    outer = ctx.func('%s:and_' % CN)
    f = _inner(ctx, 'and_')
    nname = None
    for st in outer.node.body:
        if isinstance(st, ast.Assign) and len(st.targets) == 1 and isinstance(st.targets[0], ast.Name) and ''.join(unparse(st.value).split()) == 'len(%s)' % outer.node.args.vararg.arg:
            nname = st.targets[0].id
    ctx.need(nname, 'and_: the number of members is not bound to a local')
    tests = []
    for r in _returns(f):
        if 'onexit' not in unparse(r.value):
            continue
        for tt, tr in guard_terms(r, stop=f.node):
            for part in (tt[1:] if tt[0] == 'and' else [tt]):
                if part[0] == 'call' and T.show(part[1]) == 'all' and len(part[2]) == 1 and part[2][0][0] in ('genexp', 'listcomp'):
                    g = part[2][0]
                    tests.append((r, g[2][0][1]))
    ctx.need(len(tests) >= 2, 'and_: expected two history tests before a success return, found %d' % len(tests))
    hist = tests[0][1][1] if tests[0][1][0] == 'sub' else tests[0][1]
    want_loop = ('sub', hist, ('slice', T.simp(T.term(ast.parse('-(%s + 1)' % nname, mode='eval').body)), None, None))
    whole = [t_ for r, t_ in tests if t_ == hist]
    windows = [t_ for r, t_ in tests if t_ != hist]
    ctx.check(len(whole) >= 1, 'and_#first-pass-window', 'the first pass compares the whole history, input included',
              'and_ accepts the first pass although only the members\' outputs agree with each other (%s): the input itself may have been changed by the first member'
              % [T.show(t_)[:40] for r, t_ in tests][:1], f, tests[0][0], statement='first-pass window excludes the input')
    ctx.check(bool(windows) and all(t_ == want_loop for t_ in windows), 'and_#cycle-window', 'the cycle compares the last n+1 history entries (n applications)',
              'and_ accepts a vector when the last %s history entries agree: that is only n-1 applications, so the member that produced the vector is never asked again'
              % ([T.show(t_)[:40] for t_ in windows][:1]), f, tests[-1][0], statement='cycle window shorter than n+1 entries')


@rule('C17.g', min_instances=1)
def penalties_built_from_constraints_measure_on_a_copy(ctx):
    """the documented way to feed constraints to the penalty combinators is constraints.as_penalty: the penalty is |c(x) - x| with c applied to a COPY of x (copy(x): a slice is only a view of an ndarray) - measured on the vector itself it is 0 wherever c works in place, so and_ / or_ are zero where their members reject the point and not_ penalises outside the accepted region (shared with C15.h)"""
    from .c15 import constraint_as_penalty_measures_the_displacement
    constraint_as_penalty_measures_the_displacement(ctx)


@rule('C17.h', min_instances=1)
def joined_constraints_go_through_the_combinator_whatever_their_number(ctx):
    """generate_constraint(..., join=and_ / or_) is the documented way to get a fixed-point combination of compiled solvers: every entry - also a single one, also one group of cyclic solvers - is handed to the joiner, so success / failure is still decided by the combinator's own test (a by-pass for "nothing to join" returns a single pass and fires neither onexit nor onfail); reference summary shared with C13.g"""
    from .c13 import constraint_composition_keeps_every_solver
    constraint_composition_keeps_every_solver(ctx)


@rule('C17.i', min_instances=1)
def unchanged_means_equal_up_to_rounding_only(ctx):
    """and_ compares successive vectors with a helper _same(a, b): it may answer True only for a == b or for vectors that agree to within floating-point rounding (mystic.math.almostEqual with absolute tolerance 0 and a relative tolerance below 8.9e-16: the step a symbolic strict inequality takes past its bound is tol + rel*|x| with both 1e-15, so after rounding at least 1e-15 - 2**-53 relative, while the rounding noise of consistent members (impose_sum with impose_spread) reaches 2-4 ulp - with a threshold of 1e-15 and_(integers, x0 > 1200000) claimed success at 1200000.0000000012 and at 1200000) - a member such as impose_sum is not bit-for-bit idempotent (1 ulp), and with exact equality and_ ran to maxiter and took the failure path on points that satisfy every member; a looser test would claim success at points a member still moves visibly"""
    outer = ctx.func('%s:and_' % CN)
    helpers = [d for d in ast.walk(outer.node) if isinstance(d, ast.FunctionDef) and d.name == '_same']
    uses = [c for c in ast.walk(outer.node) if isinstance(c, ast.Call) and isinstance(c.func, ast.Name) and c.func.id == '_same']
    if not uses:
        ctx.ok('and_#comparison', 'successive vectors are compared with ==', outer, outer.node)
        return
    ctx.need(helpers, 'and_: _same is used but not defined in and_')
    h = helpers[0]
    a, b = [x.arg for x in h.args.args][:2]
    bad = None
    for r in [x for x in ast.walk(h) if isinstance(x, ast.Return)]:
        v = r.value
        if isinstance(v, ast.Constant) and v.value is False:
            continue
        if isinstance(v, ast.Constant) and v.value is True:
            gs = [' '.join(unparse(t_).split()) for t_, tr, _ in guards_of(r) if tr]
            if ('%s == %s' % (a, b)) in gs or ('%s == %s' % (b, a)) in gs:
                continue
            bad = r
            continue
        calls = [c for c in ast.walk(v) if isinstance(c, ast.Call) and callee_text(c).split('.')[-1] == 'almostEqual']
        ok_ = False
        if calls:
            kw = dict((k.arg, k.value) for k in calls[0].keywords)
            tol = kw.get('tol', calls[0].args[2] if len(calls[0].args) > 2 else None)
            rel = kw.get('rel', calls[0].args[3] if len(calls[0].args) > 3 else None)
            try:
                ok_ = tol is not None and rel is not None and float(ast.literal_eval(tol)) == 0.0 and 0.0 <= float(ast.literal_eval(rel)) < 8.9e-16
            except Exception:
                ok_ = False
        if not ok_:
            bad = r
    ctx.check(bad is None, 'and_._same', 'True only for == or agreement to within rounding (rel < 8.9e-16, tol 0)',
              'and_ takes two vectors for "the same" under %s: a success claimed on that basis can be a point a member still changes by more than rounding (the step of a strict inequality is 1e-15 relative)' % (unparse(bad.value)[:70] if bad is not None else ''), outer, bad or h)
