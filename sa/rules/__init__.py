"""per-property rule modules: sa/rules/c01.py ... c20.py"""
import importlib


def load(prop):
    name = 'c' + prop[1:].lower()
    try:
        importlib.import_module('sa.rules.' + name)
    except ModuleNotFoundError as e:
        if e.name != 'sa.rules.' + name:
            raise
