"""E1: statement-level control flow of one function, as enumerated structured paths.

Python has no goto, so every function body is a structured program; instead of
materialising a CFG and then enumerating its paths, the paths are generated
directly from the statement tree.  Handled: if/elif/else, for/while (+else),
break/continue/return/raise, try/except/else/finally (an exception may leave the
try body before any of its top-level statements completes), with, match is
rejected (not used by mystic).  Loops are unrolled a bounded number of times
(default 0, 1 and 2 iterations).  Sub-statements that contain neither a
*relevant* node nor an escaping jump are collapsed to one 'skip' event, which
keeps the path count small without losing any path the rule can distinguish.

Events:  ('stmt', node) ('cond', test, truth, owner) ('iter', loop, k)
         ('loopdone', loop) ('except', handler) ('partial', stmt) ('skip', node)
         ('with', node)
Exit:    path.exit in {'return','raise','fall'} with path.exit_node
"""
import ast

from .srcmodel import AnalysisError, walk_no_nested, const_truth

JUMPS = (ast.Return, ast.Raise, ast.Break, ast.Continue)


class Path(object):
    __slots__ = ('events', 'exit', 'exit_node')

    def __init__(self, events, exit, exit_node):
        self.events = events
        self.exit = exit
        self.exit_node = exit_node

    def stmts(self):
        return [e[1] for e in self.events if e[0] in ('stmt', 'partial')]

    def conds(self):
        return [(e[1], e[2]) for e in self.events if e[0] == 'cond']

    def index_of(self, node):
        for i, e in enumerate(self.events):
            if e[0] in ('stmt', 'partial') and e[1] is node:
                return i
        return -1

    def describe(self, limit=12):
        out = []
        for e in self.events:
            if e[0] == 'cond':
                out.append('%s[%s]@%d' % ('T' if e[2] else 'F', ' '.join(ast.unparse(e[1]).split())[:50], e[1].lineno))
            elif e[0] == 'iter':
                out.append('iter#%d@%d' % (e[2], e[1].lineno))
            elif e[0] == 'except':
                out.append('except@%d' % e[1].lineno)
        if len(out) > limit:
            out = out[:limit] + ['...']
        return ' -> '.join(out + ['%s@%s' % (self.exit, getattr(self.exit_node, 'lineno', 'end'))])


def _has(node, pred):
    if pred(node):
        return True
    for n in walk_no_nested(node):
        if pred(n):
            return True
    return False


def _const_true(test):
    return isinstance(test, ast.Constant) and bool(test.value) is True


class Enumerator(object):
    def __init__(self, relevant=None, unroll=(0, 1, 2), max_paths=50000):
        self.relevant = relevant
        self.unroll = tuple(sorted(unroll))
        self.max_paths = max_paths
        self.count = 0

    def _skippable(self, st):
        if self.relevant is None:
            return False
        if _has(st, lambda n: isinstance(n, JUMPS)):
            return False
        return not _has(st, self.relevant)

    # each exec_* returns a list of (events(tuple), status, node)
    def block(self, stmts):
        cur = [((), 'next', None)]
        for st in stmts:
            if not any(s == 'next' for _, s, _ in cur):
                break
            nxt = []
            outs = None
            for ev, status, nd in cur:
                if status != 'next':
                    nxt.append((ev, status, nd))
                    continue
                if outs is None:
                    outs = self.stmt(st)
                for ev2, s2, n2 in outs:
                    nxt.append((ev + ev2, s2, n2))
            cur = nxt
            if len(cur) > self.max_paths:
                raise AnalysisError('path explosion (> %d paths) at line %d' % (self.max_paths, st.lineno))
        return cur

    def stmt(self, st):
        if isinstance(st, (ast.FunctionDef, ast.AsyncFunctionDef, ast.ClassDef)):
            return [((('stmt', st),), 'next', None)]
        if isinstance(st, ast.Return):
            return [((('stmt', st),), 'return', st)]
        if isinstance(st, ast.Raise):
            return [((('stmt', st),), 'raise', st)]
        if isinstance(st, ast.Break):
            return [((), 'break', st)]
        if isinstance(st, ast.Continue):
            return [((), 'continue', st)]
        if isinstance(st, (ast.If, ast.For, ast.While, ast.Try, ast.With, ast.AsyncFor, ast.AsyncWith)) \
                and self._skippable(st):
            return [((('skip', st),), 'next', None)]
        if isinstance(st, ast.If):
            out = []
            tv = const_truth(st.test)
            if tv is True:
                return self.block(st.body)
            if tv is False:
                return self.block(st.orelse)
            for ev, s, n in self.block(st.body):
                out.append(((('cond', st.test, True, st),) + ev, s, n))
            for ev, s, n in self.block(st.orelse):
                out.append(((('cond', st.test, False, st),) + ev, s, n))
            return out
        if isinstance(st, (ast.For, ast.AsyncFor)):
            return self.loop(st, None)
        if isinstance(st, ast.While):
            return self.loop(st, st.test)
        if isinstance(st, (ast.With, ast.AsyncWith)):
            return [((('with', st),) + ev, s, n) for ev, s, n in self.block(st.body)]
        if isinstance(st, ast.Try) or type(st).__name__ == 'TryStar':
            return self.try_(st)
        if type(st).__name__ == 'Match':
            raise AnalysisError('match statement not supported at line %d' % st.lineno)
        return [((('stmt', st),), 'next', None)]

    def loop(self, st, test):
        results = []
        always = test is not None and _const_true(test)
        maxn = max(self.unroll)
        # frontier: paths that are about to start iteration k
        frontier = [()]
        for k in range(0, maxn + 1):
            # leave the loop normally after k iterations
            if k in self.unroll and not always:
                for ev in frontier:
                    e2 = ev + ((('cond', test, False, st),) if test is not None else ()) + (('loopdone', st),)
                    for ev3, s3, n3 in self.block(st.orelse):
                        results.append((e2 + ev3, s3, n3))
            last_chance = False
            if k == maxn:
                if not always:
                    break
                # a `while True` loop can only be left by break/return: run the body once more and
                # keep just the paths that do leave (otherwise no path would show the second iteration)
                last_chance = True
            newfront = []
            body = self.block(st.body)
            for ev in frontier:
                head = ev + (('iter', st, k),) + ((('cond', test, True, st),) if test is not None else ())
                for ev2, s2, n2 in body:
                    if s2 in ('next', 'continue'):
                        if not last_chance:
                            newfront.append(head + ev2)
                    elif s2 == 'break':
                        results.append((head + ev2 + (('loopdone', st),), 'next', None))
                    else:
                        results.append((head + ev2, s2, n2))
            frontier = newfront
            if last_chance:
                break
            if len(frontier) + len(results) > self.max_paths:
                raise AnalysisError('path explosion in loop at line %d' % st.lineno)
            if not frontier:
                break
        return results

    def try_(self, st):
        out = []
        fin = st.finalbody

        def with_finally(triples):
            if not fin:
                return triples
            res = []
            fpaths = self.block(fin)
            for ev, s, n in triples:
                for fev, fs, fn in fpaths:
                    if fs == 'next':
                        res.append((ev + fev, s, n))
                    else:
                        res.append((ev + fev, fs, fn))
            return res

        # normal completion
        normal = []
        for ev, s, n in self.block(st.body):
            if s == 'next':
                for ev2, s2, n2 in self.block(st.orelse):
                    normal.append((ev + ev2, s2, n2))
            elif s == 'raise' and st.handlers:
                # an explicit raise inside the body may be caught
                normal.append((ev, s, n))
                for h in st.handlers:
                    for ev2, s2, n2 in self.block(h.body):
                        normal.append((ev + (('except', h),) + ev2, s2, n2))
            else:
                normal.append((ev, s, n))
        out.extend(with_finally(normal))
        # exceptional: the exception leaves the body while top-level statement k runs
        if st.handlers:
            exc = []
            for k, bst in enumerate(st.body):
                pre = [(ev, s, n) for ev, s, n in self.block(st.body[:k]) if s == 'next']
                for ev, s, n in pre:
                    for h in st.handlers:
                        for ev2, s2, n2 in self.block(h.body):
                            exc.append((ev + (('partial', bst), ('except', h)) + ev2, s2, n2))
            out.extend(with_finally(exc))
        return out

    def function(self, fnode):
        res = []
        for ev, s, n in self.block(fnode.body):
            if s in ('break', 'continue'):
                raise AnalysisError('stray %s in %s' % (s, fnode.name))
            res.append(Path(list(ev), 'fall' if s == 'next' else s, n))
        return res


def enumerate_paths(fnode, relevant=None, unroll=(0, 1, 2), max_paths=50000):
    return Enumerator(relevant, unroll, max_paths).function(fnode)


def enumerate_block(stmts, relevant=None, unroll=(0, 1, 2), max_paths=50000):
    """paths through a statement list (e.g. one loop body); status is kept"""
    e = Enumerator(relevant, unroll, max_paths)
    return [Path(list(ev), 'fall' if s == 'next' else s, n) for ev, s, n in e.block(stmts)]


# ---------------------------------------------------------------- queries
def calls_in(node):
    """Call nodes inside one statement/expression, in evaluation-ish (source) order,
    not descending into nested defs/lambdas"""
    out = []

    def rec(n):
        if isinstance(n, (ast.FunctionDef, ast.AsyncFunctionDef, ast.ClassDef, ast.Lambda)):
            return
        for c in ast.iter_child_nodes(n):
            rec(c)
        if isinstance(n, ast.Call):
            out.append(n)
    if isinstance(node, (ast.FunctionDef, ast.AsyncFunctionDef, ast.ClassDef)):
        return out
    rec(node)
    return out


def event_nodes(path):
    """(index, kind, node) for every event that carries evaluable code"""
    for i, e in enumerate(path.events):
        if e[0] in ('stmt', 'partial'):
            yield i, e[0], e[1]
        elif e[0] == 'cond':
            yield i, 'cond', e[1]
        elif e[0] == 'iter':
            yield i, 'iter', e[1].iter if hasattr(e[1], 'iter') else e[1]
        elif e[0] == 'with':
            for it in e[1].items:
                yield i, 'with', it.context_expr
